import warnings; warnings.simplefilter("ignore")
from unified_planning.shortcuts import *
from unified_planning.engines.plan_validator import SequentialPlanValidator
from unified_planning.engines.compilers import DisjunctiveConditionsRemover, NegativeConditionsRemover, ConditionalEffectsRemover
from unified_planning.engines import CompilationKind
from unified_planning.engines.sequential_simulator import UPSequentialSimulator
from unified_planning.plans import SequentialPlan
V = SequentialPlanValidator()
# D-C06b
x = Fluent("x", IntType(0, 10)); c1 = Fluent("c1"); c2 = Fluent("c2")
p = Problem("p"); p.add_fluent(x, default_initial_value=0); p.add_fluent(c1, default_initial_value=True); p.add_fluent(c2, default_initial_value=True)
a = InstantaneousAction("a"); a.add_increase_effect(x, 1, condition=Or(c1, c2)); p.add_action(a)
p.add_goal(Equals(x, 1))
res = DisjunctiveConditionsRemover().compile(p, CompilationKind.DISJUNCTIVE_CONDITIONS_REMOVING)
print([(b.name, b.preconditions, b.effects) for b in res.problem.actions])
print("orig [a]:", V.validate(p, SequentialPlan([a()])).status)
for b in res.problem.actions:
    print("compiled", b.name, V.validate(res.problem, SequentialPlan([b()])).status)
# D-C06c
f = Fluent("f"); c = Fluent("c"); g = Fluent("g")
q = Problem("q"); q.add_fluent(f, default_initial_value=False); q.add_fluent(c, default_initial_value=True); q.add_fluent(g, default_initial_value=False)
a1 = InstantaneousAction("a1"); a1.add_effect(f, False); a1.add_effect(f, True, condition=c)
a2 = InstantaneousAction("a2"); a2.add_precondition(Not(f)); a2.add_effect(g, True)
q.add_action(a1); q.add_action(a2); q.add_goal(g); q.add_goal(f)
print("orig [a1,a2]:", V.validate(q, SequentialPlan([a1(), a2()])).status)
res = NegativeConditionsRemover().compile(q, CompilationKind.NEGATIVE_CONDITIONS_REMOVING)
na = {b.name: b for b in res.problem.actions}
print([(b.name, b.preconditions, b.effects) for b in res.problem.actions])
cp = SequentialPlan([na["a1"](), na["a2"]()])
print("compiled:", V.validate(res.problem, cp).status, "mapped back:", V.validate(q, cp.replace_action_instances(res.map_back_action_instance)).status)
# D-C07 no-op
h = Fluent("h"); k = Fluent("k")
r = Problem("r"); r.add_fluent(h, default_initial_value=True); r.add_fluent(k, default_initial_value=False)
n = InstantaneousAction("n"); n.add_effect(h, False, condition=k); r.add_action(n); r.add_goal(h)
print("orig [n]:", V.validate(r, SequentialPlan([n()])).status)
res = ConditionalEffectsRemover().compile(r, CompilationKind.CONDITIONAL_EFFECTS_REMOVING)
print("compiled actions:", [(b.name, b.preconditions, b.effects) for b in res.problem.actions])
