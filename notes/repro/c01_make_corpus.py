"""Regenerates the hand-made corpus files of C01/C02 (harness/corpus/C01|C02/{witnesses,paths,rejected}.sexp)
and checks model = code on them.  Run with the patched tree and a built driver:
    UPVERIF_REPO=<worktree> UPVERIF_LEAN=<lean copy> /venv/bin/python notes/repro/c01_make_corpus.py"""
import os, sys, warnings, subprocess
warnings.simplefilter("ignore")
sys.path.insert(0, os.environ.get("UPVERIF_REPO", "/repo"))
sys.path.insert(0, "/verif/harness")
DRIVER = os.path.join(os.environ.get("UPVERIF_LEAN", "/verif/lean"), ".lake", "build", "bin", "upverif-driver")
import simlib, sexp, upp

# ---------------- witnesses ----------------
I=["int","_","_"]
def prob(name, fluents, actions, goals=(), traj=(), init=(), types=(["T","_"],), objects=(["o1","T"],["o2","T"])):
    return ["problem", name, ["types"]+list(types), ["objects"]+list(objects), ["fluents"]+list(fluents), ["init"]+list(init),
            ["actions"]+list(actions), ["goals"]+list(goals), ["traj"]+list(traj), ["metrics"]]
def fl(ref,*args): return ["fl", ref]+list(args)
T=["b","T"]; F=["b","F"]
def eff(kind,f,v,c=T,vs=()): return ["eff",kind,f,v,c,list(vs)]
def act(name, params, pre, effs): return ["action", name, list(params), ["pre"]+list(pre), ["effs"]+list(effs)]
def i(n): return ["i", str(n)]
def canon(ps):
    P,_=upp.build_problem(ps); return upp.enc_problem(P)
def case(ps, ops): return simlib.payload(canon(ps), ops)
out01=[]; out02=[]
# D-C02a
x=["x",["int","0","10"],[]]; c=["c","bool",[]]
ps=prob("dc02a",[[x,i(0)],[c,F]],[act("a",[],[],[eff("assign",fl(x),i(5),fl(c))])],goals=[["eq",fl(x),i(5)]])
w=case(ps,[["init"],["isapp","1","a",[]],["apply","1","a",[]],["applicable","1"],["dump","1"]])
out02.append(("; D-C02a: false conditional effect on a bounded fluent: is_applicable raised AssertionError", w))
# D-C02b
f=["f","bool",[]]
ps=prob("dc02b",[[f,T],[c,T]],[act("b",[],[],[eff("assign",fl(f),F),eff("assign",fl(f),T,fl(c))])],traj=[["always",fl(f)]])
w=case(ps,[["init"],["isapp","1","b",[]],["apply","1","b",[]],["applicable","1"],["dump","1"],["dump","3"]])
out02.append(("; D-C02b: unconditional f:=false + conditional f:=true under invariant f: is_applicable False, apply succeeds", w))
# D-C02c
u=["u",I,[]]
ps=prob("dc02c",[[u,"_"],[c,F]],[act("a",[],[["le",fl(u),i(3)]],[eff("assign",fl(c),T)]),act("b",[],[],[eff("assign",fl(c),T)])],goals=[fl(c)])
w=case(ps,[["init"],["isapp","1","a",[]],["isapp","1","b",[]],["apply","1","b",[]],["goal","1"],["ugoals","4"],["apply","1","a",[]],["apply","4","b",[]],["dump","1"]])
out02.append(("; D-C02c: a failed evaluation (undefined u) left StateEvaluator._variable_assignments set: every later query asserted", w))
# the example problem of Props/C01.lean
b=["b","bool",[]]; p=["p","bool",[["user","T"]]]; y=["y",I,[]]
v=["v","v",["user","T"]]
ps=prob("ex",[[b,F],[p,F],[x,i(1)],[y,i(5)],[u,"_"]],[
  act("act",[],[["le",fl(x),i(5)]],[eff("assign",fl(p,v),T,T,[["v",["user","T"]]]),eff("assign",fl(b),F),eff("assign",fl(b),T,["le",fl(y),i(5)]),
      eff("increase",fl(x),i(2)),eff("increase",fl(x),i(1)),eff("assign",fl(y),fl(x))]),
  act("clash",[],[],[eff("assign",fl(y),i(1),["le",fl(x),i(5)]),eff("assign",fl(y),i(2),["le",fl(x),i(5)])]),
  act("rd",[],[["le",fl(u),i(3)]],[eff("assign",fl(b),T)]),
  act("big",[],[],[eff("increase",fl(x),i(9))])],
  goals=[fl(p,["o","o1","T"])],traj=[["always",["le",fl(x),i(8)]]])
real=simlib.make_real(canon(ps))
w=simlib.payload(canon(ps), simlib.bfs_ops(real,3,8))
out01.append(("; the non-vacuity example of Props/C01.lean (forall effect, Boolean delete+add, two increases, y := old x, clash, undefined read, bound)", w))
# aliasing through equal parameters + static conflict
xq=["xq",["int","-2","3"],[["user","T"]]]
P0=["p","p0",["user","T"]]; P1=["p","p1",["user","T"]]
ps=prob("alias",[[xq,i(0)],[y,i(1)]],[
  act("al",[["p0",["user","T"]],["p1",["user","T"]]],[],[eff("assign",fl(xq,P0),i(1)),eff("assign",fl(xq,P1),fl(y))]),
  act("inc2",[["p0",["user","T"]],["p1",["user","T"]]],[],[eff("increase",fl(xq,P0),i(2)),eff("decrease",fl(xq,P1),i(1)),eff("increase",fl(y),i(1),["lt",fl(xq,P0),i(2)])])])
real=simlib.make_real(canon(ps))
out01.append(("; aliasing through equal parameters: static conflict on equal instances, inc/dec accumulating on one ground fluent, bounds", simlib.payload(canon(ps), simlib.bfs_ops(real,2,8))))
for cases,pid in ((out01+out02,"C01"),(out02+out01,"C02")):
    with open(f"/verif/harness/corpus/{pid}/witnesses.sexp","w") as fh:
        for cm,w in cases:
            fh.write(cm+"\n"+sexp.dumps(w)+"\n")
print("ok", [len(sexp.dumps(w)) for _,w in out01+out02])
# D-C01a: constant-body quantifier over a type without objects
UE=["user","E"]
ps=prob("dc01a",[[b,F]],[act("a",[],[],[eff("assign",fl(b),T)])],
        goals=[["forall",[["q1",UE]],F],["not",["exists",[["q2",UE]],T]]])
w=case(ps,[["init"],["goal","1"],["ugoals","1"],["apply","1","a",[]],["dump","4"]])
with open("/verif/harness/corpus/C01/witnesses.sexp","a") as fh:
    fh.write("; D-C01a: Forall over an object-less type with body false evaluated to false, Exists with body true to true\n"+sexp.dumps(w)+"\n")
print(sexp.dumps(w))
r=simlib.Real(w[1]); print(r.run(w[3][1:])[0])


# ---------------- rejected ----------------
out=[]
x=["x",["int","0","10"],[]]; b=["b","bool",[]]; u=["u",I,[]]
# initial state violates an invariant / reads an undefined fluent in an invariant (an out-of-bounds initial
# value is rejected by the model builders since the C23 fix)
for nm, fls, traj in (("rej2",[[x,i(1)],[b,F]],[["always",fl(b)]]), ("rej3",[[x,i(1)],[u,"_"]],[["always",["le",fl(u),i(3)]]])):
    ps=prob(nm,fls,[act("a",[],[],[eff("assign",fl(x),i(2))])],traj=traj)
    w=case(ps,[["init"],["dump","1"],["goal","0"],["init"],["apply","4","a",[]],["applicable","0"],["init"]])
    out.append(w)
    a,_=simlib.Real(w[1]).run(w[3][1:])
    p=subprocess.run([DRIVER],input=sexp.dumps(["C01","0",w])+"\n",capture_output=True,text=True)
    m=sexp.loads(p.stdout.strip())[1]
    print(nm, m==a, sexp.dumps(a), simlib.analyse(w)[0], simlib.analyse_c02(w))
with open("/verif/harness/corpus/C01/rejected.sexp","w") as fh:
    fh.write("; initial states violating their own bounds / invariants (or reading an undefined fluent there): get_initial_state rejects\n")
    for w in out: fh.write(sexp.dumps(w)+"\n")


# ---------------- paths ----------------
I=["int","_","_"]
TY=[["T","_"],["S","T"],["U","_"]]; OB=[["t1","T"],["s1","S"],["s2","S"],["u1","U"]]
def prob(name, fluents, actions, goals=(), traj=(), init=()):
    return ["problem", name, ["types"]+TY, ["objects"]+OB, ["fluents"]+list(fluents), ["init"]+list(init),
            ["actions"]+list(actions), ["goals"]+list(goals), ["traj"]+list(traj), ["metrics"]]
def fl(ref,*args): return ["fl", ref]+list(args)
T=["b","T"]; F=["b","F"]
def eff(kind,f,v,c=T,vs=()): return ["eff",kind,f,v,c,list(vs)]
def act(name, params, pre, effs): return ["action", name, list(params), ["pre"]+list(pre), ["effs"]+list(effs)]
def i(n): return ["i", str(n)]
def o(n,t): return ["o",n,t]
US=["user","S"]; UT=["user","T"]
x=["x",I,[]]; y=["y",I,[]]; xb=["xb",["int","0","4"],[]]; xq=["xq",["int","-2","3"],[UT]]; bq=["bq","bool",[UT]]; b0=["b0","bool",[]]; b1=["b1","bool",[]]
at=["at",UT,[]]; u=["u",I,[]]; ub=["ubq","bool",[UT]]
w=["v","w",US]; w2=["v","w2",UT]; p0=["p","p0",US]; p1=["p","p1",US]; pt=["p","pt",UT]
FL=[[x,i(0)],[y,i(1)],[xb,i(1)],[xq,i(0)],[bq,F],[b0,F],[b1,T],[at,o("s1","S")],[u,"_"],[ub,"_"]]
acts=[
 # (a) forall variable eliminated by simplification; nested/two-variable forall; forall assign hitting one fluent
 act("fa",[],[],[eff("increase",fl(x),i(1),["or",fl(bq,w),["not",fl(bq,w)]],[["w",US]]),
                 eff("increase",fl(y),i(1),["not",fl(bq,w)],[["w",US]]),
                 eff("assign",fl(bq,w2),["eq",w2,w],T,[["w2",UT],["w",US]])]),
 # (b),(c) condition / precondition decided by grounding
 act("gr",[["p0",US],["p1",US]],[["not",["eq",p0,p1]]],[eff("assign",fl(xq,p0),i(2),["eq",p1,o("s2","S")]),eff("decrease",fl(xq,p1),i(1),["eq",p0,o("s1","S")])]),
 # (d) value simplification + aliasing
 act("al",[["p0",US],["p1",US]],[],[eff("assign",fl(xq,p0),["plus",i(1),i(1)]),eff("assign",fl(xq,p1),i(2)),eff("assign",fl(x),["times",i(2),fl(y)]),eff("assign",fl(x),["plus",fl(y),fl(y)],fl(b1))]),
 # (e) bool both orders, same-value double, assign/inc conflicts
 act("e1",[],[],[eff("assign",fl(b0),T,fl(b1)),eff("assign",fl(b0),F),eff("assign",fl(b1),F),eff("assign",fl(b1),T,fl(b1))]),
 act("e2",[],[],[eff("assign",fl(y),i(3),fl(b1)),eff("assign",fl(y),["plus",i(1),i(2)],["not",fl(b0)])]),
 act("e3",[],[],[eff("assign",fl(y),i(1),fl(b1)),eff("increase",fl(y),i(0),fl(b1))]),
 act("e4",[],[],[eff("increase",fl(y),i(0),fl(b1)),eff("assign",fl(y),i(1),fl(b1))]),
 act("e5",[],[],[eff("increase",fl(xb),i(2)),eff("decrease",fl(xb),i(1)),eff("increase",fl(xb),i(1),fl(b1))]),
 # (g) early exit over undefined later instances; strict undefined read under a false conjunct
 act("q1",[],[["exists",[["k",UT]],["or",["eq",["v","k",UT],o("t1","T")],fl(ub,["v","k",UT])]]],[eff("assign",fl(ub,o("t1","T")),T)]),
 act("q2",[],[["or",fl(b1),["le",fl(u),i(1)]]],[eff("assign",fl(b0),T)]),
 act("q3",[],[["forall",[["k",US]],["not",fl(bq,["v","k",US])]]],[eff("assign",fl(u),i(1)),eff("assign",fl(at),o("s2","S"),["eq",fl(at),o("s1","S")])]),
 # object fluent as fluent argument evaluated in the pre-state
 act("of",[],[],[eff("assign",fl(bq,o("s1","S")),T),eff("assign",fl(at),o("t1","T")),eff("increase",fl(x),fl(xq,["fl",at]))]),
]
ps=prob("paths",FL,acts,goals=[["exists",[["k",UT]],fl(ub,["v","k",UT])],["le",fl(x),i(9)]],
        traj=[["always",["forall",[["k",US]],["le",fl(xq,["v","k",US]),i(2)]]],["always",["exists",[["k",UT]],["not",fl(bq,["v","k",UT])]]]])
P,_=upp.build_problem(ps); canon=upp.enc_problem(P)
real=simlib.make_real(canon)
pl=simlib.payload(canon, simlib.bfs_ops(real,2,10))
a,_=simlib.Real(canon).run(pl[3][1:])
p=subprocess.run([DRIVER],input=sexp.dumps(["C01","0",pl])+"\n",capture_output=True,text=True)
m=sexp.loads(p.stdout.strip())[1]
ops=pl[3][1:]
nd=0
from collections import Counter
cnt=Counter()
for j,(xx,yy) in enumerate(zip(m,a)):
    if ops[j][0]=="apply": cnt[ops[j][2]+":"+("none" if yy=="none" else "ok")]+=1
    if xx!=yy: nd+=1; print("DIFF",ops[j],"\n model",sexp.dumps(xx)[:400],"\n impl ",sexp.dumps(yy)[:400])
print("ops",len(ops),"diffs",nd, m=="bad-case", dict(cnt))
print("oracle:", simlib.analyse(pl)[0])
open("/verif/harness/corpus/C01/paths.sexp","w").write("; hand-made: rarely generated paths of grounding/simplification/evaluation (see notes in the report)\n"+sexp.dumps(pl)+"\n")


import shutil
shutil.copy("/verif/harness/corpus/C01/rejected.sexp", "/verif/harness/corpus/C02/rejected.sexp")
