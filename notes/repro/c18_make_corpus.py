"""Regenerates harness/corpus/C18/witnesses.sexp and harness/corpus/C21/witnesses.sexp (defect witnesses of the C18/C21
fixes).  Run with UPVERIF_REPO pointing at a tree that contains the notes/patches/C18-*.patch fixes:
    UPVERIF_REPO=... /venv/bin/python notes/repro/c18_make_corpus.py
The derived data of the `rt` payloads (kind features, renaming) are those of the repaired code."""
import os, sys, warnings
warnings.simplefilter("ignore")
if os.environ.get("UPVERIF_REPO"):
    sys.path.insert(0, os.environ["UPVERIF_REPO"])
HERE = os.path.dirname(os.path.abspath(__file__))
sys.path.insert(0, os.path.join(HERE, "..", "..", "harness"))
import sexp, upp, c18_pddl as cp

B = "bool"
R = ["real", "_", "_"]
I = ["int", "_", "_"]
U = lambda n: ["user", n]


def fl(ref, *args):
    return ["fl", ref] + list(args)


def problem(name="w", types=(("T", "_"),), objects=(("o1", "T"),), fluents=(), init=(), actions=(), goals=(), metrics=()):
    return ["problem", name, ["types"] + [list(t) for t in types], ["objects"] + [list(o) for o in objects],
            ["fluents"] + list(fluents), ["init"] + list(init), ["actions"] + list(actions), ["goals"] + list(goals),
            ["traj"], ["metrics"] + list(metrics)]


def act(name, params, pre, effs):
    return ["action", name, params, ["pre"] + pre, ["effs"] + effs]


def eff(kind, f, v, c=("b", "T"), vs=()):
    return ["eff", kind, f, v, list(c), list(vs)]


b = ["b", B, []]
x = ["x", R, []]
bT = ["b", "T"]
bF = ["b", "F"]
W = []
# goal that simplifies to true (writer raised UPUnreachableCodeError)
W.append(problem(fluents=[[b, bF], [x, ["i", "0"]]], actions=[act("a", [], [], [eff("assign", fl(b), bT)])],
                 goals=[["le", ["i", "1"], ["i", "2"]], fl(b)]))
# finite decimal with 11 significant digits (was rounded to 10), and a tiny one (was printed 1e-07)
W.append(problem(fluents=[[b, bF], [x, ["i", "0"]]],
                 actions=[act("a", [], [], [eff("increase", fl(x), ["r", "12345678901/100"]), eff("assign", fl(b), bT)]),
                          act("c", [], [], [eff("decrease", fl(x), ["r", "1/10000000"])])],
                 goals=[["lt", ["i", "5"], fl(x)]]))
# a fluent called total-cost together with an action-cost metric (clashed with the writer's own function)
tc = ["total-cost", I, [U("T")]]
W.append(problem(fluents=[[b, bF], [tc, ["i", "0"]]],
                 actions=[act("a", [["p", U("T")]], [], [eff("increase", fl(tc, ["p", "p", U("T")]), ["i", "1"]), eff("assign", fl(b), bT)])],
                 goals=[fl(b)], metrics=[["min-action-costs", [["a", ["i", "3"]]], "_"]]))
# a 0-ary predicate called assign (missing from the keyword table: read as an assignment -> IndexError)
asg = ["assign", B, []]
W.append(problem(fluents=[[asg, bF], [b, bT]], actions=[act("a", [], [fl(b)], [eff("assign", fl(asg), bT), eff("assign", fl(b), bF)])],
                 goals=[fl(asg)]))
# a user type called Object next to another type (flat typing): became the PDDL root type
bo = ["at-o", B, [U("Object")]]
W.append(problem(types=(("Object", "_"), ("T", "_")), objects=(("o1", "Object"), ("t1", "T")), fluents=[[bo, bF]],
                 actions=[act("a", [["p", U("Object")]], [], [eff("assign", fl(bo, ["p", "p", U("Object")]), bT)])],
                 goals=[["forall", [["v", U("Object")]], fl(bo, ["v", "v", U("Object")])]]))
# plan-length metric (round trip through total-cost 1)
W.append(problem(fluents=[[b, bF]], actions=[act("a", [], [], [eff("assign", fl(b), bT)])], goals=[fl(b)], metrics=[["min-length"]]))
# every action dropped (false precondition) + cost metric: UnboundLocalError in the reader
W.append(problem(fluents=[[b, bF]], actions=[act("a", [], [["lt", ["i", "2"], ["i", "1"]]], [eff("assign", fl(b), bT)])],
                 goals=[["not", fl(b)]], metrics=[["min-action-costs", [["a", ["i", "2"]]], "_"]]))
# non-constant Boolean assignments (oracle runs the writer with rewrite_bool_assignments=True); the second value is equivalent
# to false and was written as an add effect
c = ["c", B, []]
W.append(problem(fluents=[[b, bT], [c, bT]],
                 actions=[act("a", [], [], [eff("assign", fl(b), ["not", fl(c)])]),
                          act("d", [], [], [eff("assign", fl(c), ["and", fl(b), bF])])],
                 goals=[["not", fl(c)]]))

lines = []
for raw in W:
    r = cp.simplify_problem(raw)
    assert r is not None, raw
    ps2, P2, ctx2 = r
    try:
        w, dom, prob, kind, ren = cp.derive(P2)
    except Exception:
        kind, ren = ["kind"], ["ren"]
    lines.append(sexp.dumps(["rt", ps2, kind, ren, ["raw", raw]]))
for q in ("12345678901/100", "1/10000000", "-7/4", "2", "123456789012345678901/1000", "1/3"):
    lines.append(sexp.dumps(["num", q]))
out = os.path.join(HERE, "..", "..", "harness", "corpus", "C18", "witnesses.sexp")
open(out, "w").write("; defect witnesses of the C18 fixes (see notes/patches/C18-*.patch) and constants; regenerate with notes/repro/c18_make_corpus.py\n"
                     + "\n".join(lines) + "\n")

# ---- C21: PDDL texts on which the two readers used to differ
REQ = "(:requirements :strips :typing :negative-preconditions :numeric-fluents :conditional-effects)"
DOM = """(define (domain d) %s (:types t) (:predicates (on ?x - t) (done)) (:functions (fuel) (load ?x - t))
 (:action go :parameters (?x - t) :precondition (and (%s ?x)) :effect (and (done) (increase (fuel) %s))))"""
PRB = """(define (problem p) (:domain d) %s (:objects a b - t) (:init (on a) %s) (:goal (and (done))))"""
C = []
# upper-case identifier: the AI path did not lower-case the text (KeyError), contrary to the docstring
C.append((DOM % (REQ, "ON", "1"), PRB % (REQ, "(= (fuel) 0) (= (load a) 0) (= (load b) 0)")))
# numeric fluent without initial value: the AI converter gave it the default 0, the UP reader leaves it undefined
C.append((DOM % (REQ, "on", "1"), PRB % (REQ, "(= (fuel) 0)")))
# decimal constant 0.1: Fraction(float) made it 3602879701896397/36028797018963968
C.append((DOM % (REQ, "on", "0.1"), PRB % (REQ, "(= (fuel) 0) (= (load a) 0) (= (load b) 0)")))
lines = [sexp.dumps(["read", cp.tokenize(d), cp.tokenize(p)]) for d, p in C]
out = os.path.join(HERE, "..", "..", "harness", "corpus", "C21", "witnesses.sexp")
open(out, "w").write("; texts on which the two readers differed before the C18/C21 fixes; regenerate with notes/repro/c18_make_corpus.py\n"
                     + "\n".join(lines) + "\n")
print("written")
