from unified_planning.shortcuts import *
from unified_planning.engines.sequential_simulator import UPSequentialSimulator
import traceback
# Case A: conditional effect on bounded int fluent with false condition
x = Fluent("x", IntType(0, 10))
c = Fluent("c")
a = InstantaneousAction("a")
a.add_effect(x, 5, condition=c)
p = Problem("p")
p.add_fluent(x, default_initial_value=0)
p.add_fluent(c, default_initial_value=False)
p.add_action(a)
p.add_goal(Equals(x, 5))
sim = UPSequentialSimulator(p)
s0 = sim.get_initial_state()
try:
    print("A is_applicable", sim.is_applicable(s0, a, ()))
except BaseException as e:
    traceback.print_exc()
print("A apply", sim.apply(s0, a, ()))

# Case B: f:=false uncond + f:=true cond, invariant f
f = Fluent("f")
b = InstantaneousAction("b")
b.add_effect(f, False)
b.add_effect(f, True, condition=c)
p2 = Problem("p2")
p2.add_fluent(f, default_initial_value=True)
p2.add_fluent(c, default_initial_value=True)
p2.add_action(b)
p2.add_state_invariant(f)
sim2 = UPSequentialSimulator(p2)
s0 = sim2.get_initial_state()
try:
    print("B is_applicable", sim2.is_applicable(s0, b, ()))
except BaseException as e:
    traceback.print_exc()
print("B apply", sim2.apply(s0, b, ()))
