import warnings; warnings.simplefilter("ignore")
from fractions import Fraction
from unified_planning.shortcuts import *
from unified_planning.grpc.proto_writer import ProtobufWriter
from unified_planning.grpc.proto_reader import ProtobufReader
from unified_planning.engines.compilers.timed_to_sequential import TimedToSequential
from unified_planning.engines.plan_validator import TimeTriggeredPlanValidator
from unified_planning.engines import CompilationKind
from unified_planning.plans import SequentialPlan
def run(name, f):
    try: print(name, "->", f())
    except BaseException as e: print(name, "RAISED", type(e).__name__, str(e)[:150])
r = Fluent("r", RealType(lower_bound=0))
p = Problem("p"); p.add_fluent(r, default_initial_value=1)
run("C20", lambda: ProtobufReader().convert(ProtobufWriter().convert(p)) == p)
# C28
g = Fluent("g")
p2 = Problem("p2"); p2.add_fluent(g, default_initial_value=False)
d = DurativeAction("d"); d.set_duration_constraint(LeftOpenDurationInterval(Int(5), Int(10))); d.add_effect(EndTiming(), g, True)
p2.add_action(d); p2.add_goal(g)
def c28():
    res = TimedToSequential().compile(p2, CompilationKind.TIMED_TO_SEQUENTIAL)
    sp = SequentialPlan([res.problem.actions[0]()])
    ttp = res.plan_back_conversion(sp)
    return ttp, TimeTriggeredPlanValidator().validate(p2, ttp).status
run("C28", c28)
# C35
from unified_planning.model.contingent import ContingentProblem
from unified_planning.model.contingent.execution_environment import SimulatedExecutionEnvironment
def c35():
    cp = ContingentProblem("cp")
    a = Fluent("a"); b = Fluent("b"); 
    cp.add_fluent(a, default_initial_value=True); cp.add_fluent(b, default_initial_value=False)
    cp.add_unknown_initial_constraint(b)
    envx = SimulatedExecutionEnvironment(cp)
    return envx._state.get_value(a())
run("C35", c35)
