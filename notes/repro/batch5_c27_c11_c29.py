import warnings; warnings.simplefilter("ignore")
from fractions import Fraction
from itertools import permutations
from unified_planning.shortcuts import *
from unified_planning.engines.plan_validator import SequentialPlanValidator, TimeTriggeredPlanValidator
from unified_planning.plans import SequentialPlan, TimeTriggeredPlan, PlanKind
from unified_planning.engines import CompilationKind
env = get_environment(); em = env.expression_manager
def run(name, f):
    try: print(name, "->", f())
    except BaseException as e: print(name, "RAISED", type(e).__name__, str(e)[:150])

# C27 invariant coupling
x = Fluent("x", IntType(0, 10)); y = Fluent("y", IntType(0, 10))
p = Problem("p"); p.add_fluent(x, default_initial_value=0); p.add_fluent(y, default_initial_value=3)
a1 = InstantaneousAction("a1"); a1.add_decrease_effect(y, 3)
a2 = InstantaneousAction("a2"); a2.add_increase_effect(x, 3)
p.add_action(a1); p.add_action(a2); p.add_state_invariant(LE(Plus(x, y), 5)); p.add_goal(Equals(x, 3))
pl = SequentialPlan([a1(), a2()])
print("C27 orig", SequentialPlanValidator().validate(p, pl).status)
pop = pl.convert_to(PlanKind.PARTIAL_ORDER_PLAN, p)
for sp in pop.all_sequential_plans():
    print("C27 lin", sp, SequentialPlanValidator().validate(p, sp).status)

# C11c idempotence, C11d supertype
T = UserType("T"); S = UserType("S", T)
o1 = Object("o1", S); o2 = Object("o2", S); t1 = Object("t1", T)
v = Variable("v", S)
e = em.Exists(em.And(em.Equals(v, o1), em.Not(em.Equals(v, o2))), v)
s1 = e.simplify(); print("C11c", s1, "|", s1.simplify())
pt = up.model.Parameter("pt", T)
q = Fluent("q", BoolType(), a=T)
e2 = em.Exists(em.And(em.Equals(v, pt), q(v)), v)
run("C11d", lambda: e2.simplify())
env.simplifier.stack.clear()
# empty type
E = UserType("E"); ve = Variable("ve", E)
b = Fluent("b")
print("C11e forall-empty", em.Forall(em.And(b(), em.Equals(ve, ve)), ve).simplify(), em.Exists(em.Or(b(), em.Equals(ve,ve)), ve).simplify())

# C29
from unified_planning.engines.compilers.durative_actions_to_processes import DurativeActionToProcesses
g = Fluent("g"); 
p9 = Problem("p9"); p9.add_fluent(g, default_initial_value=False)
d = DurativeAction("d"); d.set_fixed_duration(5); d.add_effect(EndTiming(), g, True); p9.add_action(d); p9.add_goal(g)
def c29(plan):
    res = DurativeActionToProcesses().compile(p9, CompilationKind.DURATIVE_ACTIONS_TO_PROCESSES)
    fw = res.plan_forward_conversion(plan)
    bk = res.plan_back_conversion(fw)
    return fw, bk
run("C29 seq", lambda: c29(TimeTriggeredPlan([(Fraction(0), d(), Fraction(5)), (Fraction(5), d(), Fraction(5))])))
run("C29 rev", lambda: c29(TimeTriggeredPlan([(Fraction(5), d(), Fraction(5)), (Fraction(0), d(), Fraction(5))])))
run("C29 overlap", lambda: c29(TimeTriggeredPlan([(Fraction(0), d(), Fraction(5)), (Fraction(2), d(), Fraction(5))])))
print([k for k in dir(CompilationKind) if not k.startswith('_')])
