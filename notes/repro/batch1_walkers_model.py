import traceback, warnings
warnings.simplefilter("ignore")
from fractions import Fraction
from unified_planning.shortcuts import *
from unified_planning.engines.plan_validator import SequentialPlanValidator, TimeTriggeredPlanValidator
from unified_planning.plans import SequentialPlan, TimeTriggeredPlan, ActionInstance
from unified_planning.model.walkers import Dnf, Nnf, Simplifier, LinearChecker
env = get_environment()
em = env.expression_manager
def run(name, f):
    try:
        print(name, "->", f())
    except BaseException as e:
        print(name, "RAISED", type(e).__name__, str(e)[:120])

# C03 empty plan with final value metric
x = Fluent("x", IntType(0, 10))
p = Problem("p"); p.add_fluent(x, default_initial_value=0)
a = InstantaneousAction("a"); a.add_increase_effect(x, 1); p.add_action(a)
p.add_quality_metric(MinimizeExpressionOnFinalState(x))
run("C03 empty+final", lambda: SequentialPlanValidator().validate(p, SequentialPlan([])).status)

# C11 div big
big = 2**60+1
run("C11 div", lambda: (em.Div(em.Int(big*3), em.Int(3)).simplify(), big))
# C11 exists
T = UserType("T")
g = Fluent("g", T, a=T); pr = Fluent("pr", BoolType(), a=T)
v = Variable("v", T)
e = em.Exists(em.And(em.Equals(v, g(v)), pr(v)), v)
run("C11 exists", lambda: (e, e.simplify(), env.free_vars_oracle.get_free_variables(e.simplify())))
y = Fluent("y", IntType(0,10), a=T)
w = Variable("w", IntType(0,5)) if False else None
# idempotence
o1 = Object("o1", T)
e2 = em.Exists(em.And(em.Equals(v, o1), em.LT(y(v), 5), em.LT(em.Int(3), em.Int(5)) ), v)
run("C11 idem", lambda: (e2.simplify(), e2.simplify().simplify()))
# C12
run("C12 dnf taut", lambda: Dnf(env).get_dnf_expression(em.And(em.LE(1,2), em.LE(2,3))))
b1 = Fluent("b1"); b2 = Fluent("b2")
run("C12 dnf taut2", lambda: Dnf(env).get_dnf_expression(em.Or(em.And(em.LE(1,2), em.LE(2,3)), b1())))
# C15
run("C15 1/3", lambda: em.Div(1,3).type)
run("C15 eq obj 5", lambda: em.Equals(o1, 5))
run("C15 eq 5 obj", lambda: em.Equals(5, o1))
run("C15 eq 5 obj again", lambda: em.Equals(5, o1))
ux = Fluent("ux", IntType())
run("C15 big*unb", lambda: em.Times(10**400, ux()).type)
run("C15 big+unb", lambda: em.Plus(ux(), 10**400).type)
run("C15 unb+big", lambda: em.Plus(10**400, ux()).type)
# C17
pa = up.model.Parameter("pa", IntType(-5,-1))
z = Fluent("z", RealType(0, 10))
run("C17 div param", lambda: LinearChecker().get_fluents(em.Div(z(), pa)))
# C23
pb = Problem("pb")
bf = Fluent("bf")
run("C23 default 5", lambda: (pb.add_fluent(bf, default_initial_value=5), pb.fluents_defaults))
xx = Fluent("xx", IntType(0,10)); yy = Fluent("yy", IntType(0,10))
pb.add_fluent(xx); pb.add_fluent(yy)
run("C23 init nonconst", lambda: (pb.set_initial_value(xx, yy), pb.explicit_initial_values))
run("C23 initial_defaults", lambda: Problem("q", initial_defaults={BoolType(): 5}).initial_defaults)
