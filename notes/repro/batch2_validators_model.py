import traceback, warnings
warnings.simplefilter("ignore")
from fractions import Fraction
from unified_planning.shortcuts import *
from unified_planning.engines.plan_validator import SequentialPlanValidator, TimeTriggeredPlanValidator
from unified_planning.plans import SequentialPlan, TimeTriggeredPlan, ActionInstance
from unified_planning.model.problem_kind import ProblemKind
env = get_environment(); em = env.expression_manager
def run(name, f):
    try: print(name, "->", f())
    except BaseException as e: print(name, "RAISED", type(e).__name__, str(e)[:150])

# C04 bounded
x = Fluent("x", IntType(0, 2))
p = Problem("p"); p.add_fluent(x, default_initial_value=1)
a = InstantaneousAction("a"); a.add_increase_effect(x, 2); p.add_action(a)
run("C04 seq", lambda: SequentialPlanValidator().validate(p, SequentialPlan([a()])).status)
run("C04 tt", lambda: TimeTriggeredPlanValidator().validate(p, TimeTriggeredPlan([(Fraction(0), a(), None)])).status)
# C04 same value twice
y = Fluent("y", IntType(0, 5)); c1 = Fluent("c1"); c2 = Fluent("c2")
p2 = Problem("p2"); p2.add_fluent(y, default_initial_value=0); p2.add_fluent(c1, default_initial_value=True); p2.add_fluent(c2, default_initial_value=True)
b = InstantaneousAction("b"); b.add_effect(y, 1, condition=c1); b.add_effect(y, 1, condition=c2); p2.add_action(b)
run("C04b seq", lambda: SequentialPlanValidator().validate(p2, SequentialPlan([b()])).status)
run("C04b tt", lambda: TimeTriggeredPlanValidator().validate(p2, TimeTriggeredPlan([(Fraction(0), b(), None)])).status)
# C04c forall increase
T = UserType("T"); o1 = Object("o1", T); o2 = Object("o2", T)
z = Fluent("z", IntType(0, 10)); q = Fluent("q", BoolType(), t=T)
p3 = Problem("p3"); p3.add_fluent(z, default_initial_value=0); p3.add_fluent(q, default_initial_value=True); p3.add_objects([o1,o2])
v = Variable("v", T)
c = InstantaneousAction("c"); c.add_increase_effect(z, 1, condition=q(v), forall=[v]); p3.add_action(c)
p3.add_goal(Equals(z, 2))
run("C04c seq", lambda: SequentialPlanValidator().validate(p3, SequentialPlan([c()])).status)
run("C04c tt", lambda: TimeTriggeredPlanValidator().validate(p3, TimeTriggeredPlan([(Fraction(0), c(), None)])).status)
# C05 open-left condition never checked
g = Fluent("g"); h = Fluent("h")
p4 = Problem("p4"); p4.add_fluent(g, default_initial_value=False); p4.add_fluent(h, default_initial_value=False)
d = DurativeAction("d"); d.set_fixed_duration(5)
d.add_condition(OpenTimeInterval(StartTiming(), EndTiming()), g)   # g must hold inside (start,end)
d.add_effect(EndTiming(), h, True); p4.add_action(d); p4.add_goal(h)
run("C05 open", lambda: TimeTriggeredPlanValidator().validate(p4, TimeTriggeredPlan([(Fraction(0), d(), Fraction(5))])).status)
d2 = DurativeAction("d2"); d2.set_fixed_duration(5)
d2.add_condition(LeftOpenTimeInterval(StartTiming(), EndTiming()), g)
d2.add_effect(EndTiming(), h, True); p4.add_action(d2)
run("C05 leftopen", lambda: TimeTriggeredPlanValidator().validate(p4, TimeTriggeredPlan([(Fraction(0), d2(), Fraction(5))])).status)
# C22 clone
w = Fluent("w", IntType(0,10))
p5 = Problem("p5"); p5.add_fluent(w, default_initial_value=0)
p5.add_increase_effect(GlobalStartTiming(5), w, 1)
cl = p5.clone()
run("C22 orig", lambda: p5.add_timed_effect(GlobalStartTiming(5), w, 3))
run("C22 clone", lambda: cl.add_timed_effect(GlobalStartTiming(5), w, 3))
# C24 residue
k = Fluent("k", IntType(0,10))
act = InstantaneousAction("act")
def simfun(pb, st, ap): return [Int(1)]
act.set_simulated_effect(SimulatedEffect([k()], simfun))
run("C24 inc rejected", lambda: act.add_increase_effect(k, 1))
act2 = InstantaneousAction("act2")
run("C24 fresh assign m", lambda: act2.add_effect(k, 2))
# after rejection, clear simulated effect by making new action with same bookkeeping? use same action: try adding assign on k -> should conflict w/ simulated anyway. Use different scenario:
act3 = InstantaneousAction("act3")
m = Fluent("m", IntType(0,10))
act3.set_simulated_effect(SimulatedEffect([m()], simfun))
run("C24 inc m rejected", lambda: act3.add_increase_effect(m, 1))
print("C24 residue inc_dec:", act3._fluents_inc_dec)
# C33 hash
k1 = ProblemKind({"NUMERIC_FLUENTS"}, version=2); k2 = ProblemKind(set(), version=2)
print("C33", k1 == k2, hash(k1) == hash(k2))
# C10 process precondition
from unified_planning.model.natural_transition import Process
r = Fluent("r", RealType()); nb = Fluent("nb")
p6 = Problem("p6"); p6.add_fluent(r, default_initial_value=0); p6.add_fluent(nb, default_initial_value=False)
pr = Process("pr"); pr.add_precondition(Not(nb)); pr.add_increase_continuous_effect(r, 1); p6.add_process(pr)
run("C10 process", lambda: p6.kind.has_negative_conditions())
