import warnings; warnings.simplefilter("ignore")
from unified_planning.shortcuts import *
from unified_planning.engines.compilers import Grounder
from unified_planning.engines import CompilationKind
x = Fluent("x"); a = InstantaneousAction("a"); a.add_effect(x, True)
p = Problem("p"); p.add_fluent(x, default_initial_value=False); p.add_action(a); p.add_goal(x)
r = Grounder().compile(p, CompilationKind.GROUNDING)
print("plan_back_conversion:", r.plan_back_conversion, "map_back:", r.map_back_action_instance is not None)
