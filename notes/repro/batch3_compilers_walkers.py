import traceback, warnings
warnings.simplefilter("ignore")
from fractions import Fraction
from unified_planning.shortcuts import *
from unified_planning.engines.plan_validator import SequentialPlanValidator, TimeTriggeredPlanValidator
from unified_planning.engines.compilers import ConditionalEffectsRemover, Grounder
from unified_planning.engines import CompilationKind
from unified_planning.plans import SequentialPlan, TimeTriggeredPlan, ActionInstance
env = get_environment(); em = env.expression_manager
def run(name, f):
    try: print(name, "->", f())
    except BaseException as e: print(name, "RAISED", type(e).__name__, str(e)[:150])

# C06 cond effects remover conflict dropped
x = Fluent("x", IntType(0, 5)); c = Fluent("c")
p = Problem("p"); p.add_fluent(x, default_initial_value=0); p.add_fluent(c, default_initial_value=True)
a = InstantaneousAction("a"); a.add_effect(x, 1); a.add_effect(x, 2, condition=c); p.add_action(a)
p.add_goal(Equals(x, 1))
res = ConditionalEffectsRemover().compile(p, CompilationKind.CONDITIONAL_EFFECTS_REMOVING)
print([ (a.name, a.preconditions, a.effects) for a in res.problem.actions])
for ca in res.problem.actions:
    pl = SequentialPlan([ca()])
    st = SequentialPlanValidator().validate(res.problem, pl).status
    back = pl.replace_action_instances(res.map_back_action_instance)
    st2 = SequentialPlanValidator().validate(p, back).status
    print("C06", ca.name, st, "mapped back:", st2)

# C08 name clash in grounding
T = UserType("T")
oab = Object("a_b", T); oc = Object("c", T); oa = Object("a", T); obc = Object("b_c", T)
f = Fluent("f", BoolType(), t=T)
p8 = Problem("p8"); p8.add_fluent(f, default_initial_value=False); p8.add_objects([oab, oc, oa, obc])
mv = InstantaneousAction("move", x=T, y=T); mv.add_effect(f(mv.x), True); mv.add_precondition(Not(f(mv.y))); p8.add_action(mv)
run("C08 ground", lambda: sorted(a.name for a in Grounder().compile(p8, CompilationKind.GROUNDING).problem.actions))

# C14 stale memo after failure
y = Fluent("y", IntType(0,10)); z = Fluent("z", IntType(0,10))
e = em.Plus(em.Div(y(), z()), y())     # y/z + y
run("C14 failing subst", lambda: e.substitute({z(): em.Int(0), y(): em.Int(4)}).simplify())
sub = env.substituter
print("C14 stack/memo after:", len(sub.stack), len(sub.memoization))
e2 = em.Plus(y(), em.Int(1))
run("C14 later subst", lambda: e2.substitute({y(): em.Int(7)}))
run("C14 later subst same e", lambda: e.substitute({z(): em.Int(2), y(): em.Int(4)}))
