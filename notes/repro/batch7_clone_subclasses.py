import warnings; warnings.simplefilter("ignore")
from unified_planning.shortcuts import *
from unified_planning.model.contingent import ContingentProblem
from unified_planning.model.htn import HierarchicalProblem
def run(name, f):
    try: print(name, "->", f())
    except BaseException as e: print(name, "RAISED", type(e).__name__, str(e)[:150])
for cls in (ContingentProblem, HierarchicalProblem):
    p = cls("p")
    f = Fluent("f"); x = Fluent("x", IntType(0,5))
    p.add_fluent(f, default_initial_value=True); p.add_fluent(x, default_initial_value=0)
    p.add_state_invariant(f)
    a = InstantaneousAction("a"); a.add_effect(f, True); p.add_action(a)
    b = InstantaneousAction("b"); b.add_effect(f, False); p.add_action(b)
    p.add_quality_metric(MinimizeActionCosts({a: Int(2)}, default=Int(7)))
    c = p.clone()
    print(cls.__name__, "eq:", c == p, "kind eq:", c.kind == p.kind, "traj:", len(c.trajectory_constraints), len(p.trajectory_constraints),
          "default cost:", c.quality_metrics[0].default, p.quality_metrics[0].default)
