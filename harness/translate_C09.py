"""Translator for C09: every compiler's `supported_kind()`, `supports()`, `supports_compilation()` and
`resulting_problem_kind()` under unified_planning/engines/compilers/*.py, plus the registration order of the
compilers in engines/factory.py  ->  lean/UPVerif/Gen/Kinds.lean (values of the types of Core/KindProg.lean).

Same rules as harness/translate.py: the source is parsed with `ast`, never imported; only the shapes listed
below are accepted, anything else raises TranslationBroken (a broken tie, never a pass).

Accepted shapes (K is the local kind variable, P the `problem_kind` argument)

  supported_kind():          K = ProblemKind(version=LATEST_PROBLEM_KIND_VERSION)  |  K = Other.supported_kind()
                             <stmts> ; return K
  resulting_problem_kind():  K = P.clone() ; <stmts> ; return K        |  return P.clone()
                             K = helper(P) ; <stmts> ; return K       |  return helper(P)
                             where `helper` is a module-level function of engines/compilers/utils.py that either has
                             itself the shape of a resulting_problem_kind with one argument (it is inlined), or whose
                             body IS, statement by statement (ast equality up to the parameter's name, docstring and
                             annotations ignored), the "kind at the latest version" function AT_LATEST_SRC below: then
                             the Decl gets `atLatest := true`, which Core/KindProg.lean interprets as `kindAtLatest`
                             (clone when `version >= LATEST_PROBLEM_KIND_VERSION`, else `equalize_versions` against
                             the empty kind of the latest version and the ProblemKind constructor).  The names that
                             body uses (`equalize_versions`, `LATEST_PROBLEM_KIND_VERSION`, `ProblemKind`) must be
                             imported in utils.py from the modules that define them and not be rebound at module
                             level, and the body of `equalize_versions` itself must be EQUALIZE_SRC (it is modelled by
                             hand as `Kind.equalize`); any other body is TRANSLATION-BROKEN, never assumed.
  <stmt> ::= K.set_<group>("FEATURE") | K.unset_<group>("FEATURE")
           | if <cond>: <stmts> [elif <cond>: <stmts>]* [else: <stmts>]
           | for x in FEATURES["GROUP"]: (K.set_<group>(x) | K.unset_<group>(x))+     (unrolled with the FEATURES
             table of model/problem_kind.py, which is re-read on every run)
           | assert isinstance(...)            (ignored)   | docstring (ignored)
  <cond> ::= K.has_<name>() | P.has_<name>() | <cond> and <cond> | <cond> or <cond> | not <cond>
  supports(problem_kind):    return problem_kind <= Cls.supported_kind()
  supports_compilation(ck):  return ck == CompilationKind.X   (or an `or` of such / `ck in (…)`)

`set_*/unset_*/has_*` must name methods that `ProblemKindMeta.__new__` really creates (it is mirrored here on the
FEATURES table: `set_<m>/unset_<m>` per group m; `has_<m>` tests FEATURES[m] + [m]; `has_<f>` tests [f]; a later
`setattr` of the same name overrides an earlier one); the feature passed to `set_<m>/unset_<m>` must be a literal
member of FEATURES[m] (otherwise `_set/_unset` fail their first assertion whenever reached).  What is emitted:
`set f` / `unset f` and `has <src> [features tested]`.  For every `resulting_problem_kind` also the list of the
features occurring in it and the same program over indices into that list (string comparison in the Lean kernel
is slow; Props/C09 decides `program.map index = indexed program` once and runs the finite checks on the latter).
A call `Other.supported_kind()` is inlined (the callee's statements first).
Methods that a class does not define are looked up in its base classes within the package (MA* removers).
A class all of whose kind methods only `raise` (CompilersPipeline) is listed as `pipelineClasses`, not as a compiler.
"""
import ast
import glob
import os

import translate
from translate import TranslationBroken, _parse, _find_assign, _str_set, _const_str, _lean_str, _lean_list

PKG = "unified_planning/engines/compilers"
FACTORY = "unified_planning/engines/factory.py"
PK = "unified_planning/model/problem_kind.py"
METHODS = ("supported_kind", "supports", "supports_compilation", "resulting_problem_kind")


def _features():
    pk, rel = _parse(PK)
    feats = _find_assign(pk, "FEATURES", rel)
    if not isinstance(feats, ast.Dict):
        raise TranslationBroken(rel, feats.lineno, "FEATURES is not a dict literal")
    return [(_const_str(k, rel), _str_set(v, rel)) for k, v in zip(feats.keys, feats.values)]


PKV = "unified_planning/model/problem_kind_versioning.py"

# the function Core/KindProg.lean models as `kindAtLatest` (engines/compilers/utils.py)
AT_LATEST_SRC = """
def f(problem_kind):
    if problem_kind.version >= LATEST_PROBLEM_KIND_VERSION:
        return problem_kind.clone()
    features, _, version = equalize_versions(
        problem_kind.features, set(), problem_kind.version, LATEST_PROBLEM_KIND_VERSION
    )
    return ProblemKind(features, version=version)
"""

# the function Core/Kind.lean models as `equalize` / `upgradeTo` (model/problem_kind_versioning.py)
EQUALIZE_SRC = """
def equalize_versions(features_1, features_2, version_1, version_2):
    while version_1 < version_2:
        upgrade_function = upgrade_functions_map[(version_1, version_1 + 1)]
        features_1 = upgrade_function(features_1)
        version_1 += 1

    while version_2 < version_1:
        upgrade_function = upgrade_functions_map[(version_2, version_2 + 1)]
        features_2 = upgrade_function(features_2)
        version_2 += 1

    assert version_1 == version_2
    return features_1, features_2, version_1
"""


def _norm_body(fn, rename=None):
    """ast dumps of the statements of `fn` without docstring; the first parameter renamed to `rename`"""
    out = []
    param = fn.args.args[0].arg if fn.args.args else None
    for s in fn.body:
        if isinstance(s, ast.Expr) and isinstance(s.value, ast.Constant) and isinstance(s.value.value, str):
            continue
        if rename is not None and param is not None:
            s = ast.parse(ast.unparse(s)).body[0]      # private copy
            for n in ast.walk(s):
                if isinstance(n, ast.Name) and n.id == param:
                    n.id = rename
        out.append(ast.dump(s))
    return out


def _same_function(fn, template_src, rename=None):
    t = ast.parse(template_src).body[0]
    a, ta = fn.args, t.args
    plain = not (a.vararg or a.kwarg or a.kwonlyargs or a.posonlyargs or a.defaults or fn.decorator_list)
    if rename is None and [x.arg for x in a.args] != [x.arg for x in ta.args]:
        return False
    return plain and len(a.args) == len(ta.args) and _norm_body(fn, rename) == _norm_body(t, rename)


def _bound_to(tree, rel, name, modules):
    """`name` is imported at module level from one of `modules` and bound nowhere else at module level"""
    ok = False
    for n in tree.body:
        if isinstance(n, ast.ImportFrom):
            for al in n.names:
                if (al.asname or al.name) == name:
                    if n.module in modules and al.name == name and n.level == 0:
                        ok = True
                    else:
                        raise TranslationBroken(rel, n.lineno, f"{name} is imported from {n.module}")
        elif isinstance(n, (ast.FunctionDef, ast.ClassDef)) and n.name == name:
            raise TranslationBroken(rel, n.lineno, f"{name} is redefined")
        elif isinstance(n, (ast.Assign, ast.AnnAssign, ast.AugAssign, ast.Import)):
            for m in ast.walk(n):
                if isinstance(m, ast.Name) and isinstance(m.ctx, ast.Store) and m.id == name:
                    raise TranslationBroken(rel, n.lineno, f"{name} is rebound")
                if isinstance(m, ast.alias) and (m.asname or m.name) == name:
                    raise TranslationBroken(rel, n.lineno, f"{name} is rebound")
    if not ok:
        raise TranslationBroken(rel, 0, f"{name} is not imported from {' / '.join(modules)}")


def _is_at_latest(fn, tree, rel):
    """is the utils.py function `fn` the kind-at-the-latest-version function (see AT_LATEST_SRC)?  The check of the
    names it uses is made only when the body matches (a different body is an ordinary helper)."""
    if not _same_function(fn, AT_LATEST_SRC, rename="problem_kind"):
        return False
    _bound_to(tree, rel, "equalize_versions", ("unified_planning.model.problem_kind_versioning",))
    _bound_to(tree, rel, "LATEST_PROBLEM_KIND_VERSION",
              ("unified_planning.model.problem_kind_versioning", "unified_planning.model.problem_kind"))
    _bound_to(tree, rel, "ProblemKind", ("unified_planning.model", "unified_planning.model.problem_kind"))
    pv, pv_rel = _parse(PKV)
    eq = translate._find_func(pv, "equalize_versions", pv_rel)
    if not _same_function(eq, EQUALIZE_SRC):
        raise TranslationBroken(pv_rel, eq.lineno, "equalize_versions no longer has the body modelled by Kind.equalize")
    return True


class _Cls:
    def __init__(self, name, rel, node):
        self.name, self.rel, self.node = name, rel, node
        self.bases = []
        for b in node.bases:
            if isinstance(b, ast.Name):
                self.bases.append(b.id)
            elif isinstance(b, ast.Attribute):
                self.bases.append(b.attr)
        self.methods = {f.name: f for f in node.body if isinstance(f, ast.FunctionDef)}


def _classes():
    out = {}
    for path in sorted(glob.glob(os.path.join(translate.REPO, PKG, "*.py"))):
        rel = os.path.join(PKG, os.path.basename(path))
        tree, _ = _parse(rel)
        for n in tree.body:
            if isinstance(n, ast.ClassDef):
                c = _Cls(n.name, rel, n)
                if any(m in c.methods for m in METHODS) or any(b in ("CompilerMixin",) for b in c.bases):
                    out[n.name] = c
    # keep only classes that are compilers: define or inherit (within the package) resulting_problem_kind
    return out


def _resolve(classes, cls, meth, seen=()):
    """(defining class, FunctionDef) following base classes inside the package"""
    if cls.name in seen:
        raise TranslationBroken(cls.rel, cls.node.lineno, "cyclic inheritance")
    if meth in cls.methods:
        return cls, cls.methods[meth]
    for b in cls.bases:
        if b in classes:
            r = _resolve(classes, classes[b], meth, seen + (cls.name,))
            if r is not None:
                return r
    return None


def _body(fn):
    """statements without docstring and `assert isinstance(...)`"""
    out = []
    for i, s in enumerate(fn.body):
        if isinstance(s, ast.Expr) and isinstance(s.value, ast.Constant) and isinstance(s.value.value, str):
            continue
        if (isinstance(s, ast.Assert) and isinstance(s.test, ast.Call) and isinstance(s.test.func, ast.Name)
                and s.test.func.id == "isinstance"):
            continue
        out.append(s)
    return out


def _only_raises(fn):
    b = _body(fn)
    return len(b) == 1 and isinstance(b[0], ast.Raise)


class _Tr:
    def __init__(self, groups, classes):
        self.groups = groups
        self.gnames = {g for g, _ in groups}
        # ProblemKindMeta.__new__ (problem_kind.py:190-199), keyed by the generated method name
        self.has, self.setters = {}, {}
        for m, l in groups:
            self.setters[m.lower()] = list(l)
            self.has["has_" + m.lower()] = list(l) + [m]
            for f in l:
                self.has["has_" + f.lower()] = [f]
        self.classes = classes

    def method_name(self, attr, rel, line):
        """set_time -> ('set', [features of TIME]); has_x -> ('has', [features tested])"""
        if attr.startswith("has_"):
            if attr not in self.has:
                raise TranslationBroken(rel, line, f"ProblemKind has no method {attr}")
            return "has", self.has[attr]
        for pre in ("set_", "unset_"):
            if attr.startswith(pre):
                if attr[len(pre):] not in self.setters:
                    raise TranslationBroken(rel, line, f"ProblemKind has no method {attr}")
                return pre[:-1], self.setters[attr[len(pre):]]
        raise TranslationBroken(rel, line, f"unsupported ProblemKind method {attr}")

    def cond(self, e, K, P, rel):
        if isinstance(e, ast.BoolOp):
            op = "and" if isinstance(e.op, ast.And) else "or"
            parts = [self.cond(v, K, P, rel) for v in e.values]
            acc = parts[-1]
            for p in reversed(parts[:-1]):       # right-nested, same truth table and same short-circuit order
                acc = (op, p, acc)
            return acc
        if isinstance(e, ast.UnaryOp) and isinstance(e.op, ast.Not):
            return ("not", self.cond(e.operand, K, P, rel))
        if (isinstance(e, ast.Call) and not e.args and not e.keywords and isinstance(e.func, ast.Attribute)
                and isinstance(e.func.value, ast.Name) and e.func.value.id in (K, P)):
            kind, feats = self.method_name(e.func.attr, rel, e.lineno)
            if kind != "has":
                raise TranslationBroken(rel, e.lineno, "condition is not a has_* test")
            return ("has", "cur" if e.func.value.id == K else "inp", list(feats))
        raise TranslationBroken(rel, getattr(e, "lineno", 0), "unsupported condition in kind transformer")

    def stmts(self, ss, K, P, rel, loopvar=None):
        """-> list of items: ('set'|'unset', feature) | ('ite', cond, [items], [items])"""
        out = []
        for s in ss:
            if isinstance(s, ast.Expr) and isinstance(s.value, ast.Call) and isinstance(s.value.func, ast.Attribute) \
                    and isinstance(s.value.func.value, ast.Name) and s.value.func.value.id == K:
                c = s.value
                kind, possible = self.method_name(c.func.attr, rel, s.lineno)
                if kind not in ("set", "unset") or len(c.args) != 1 or c.keywords:
                    raise TranslationBroken(rel, s.lineno, "unsupported call on the kind variable")
                a = c.args[0]
                fs = loopvar[1] if (loopvar is not None and isinstance(a, ast.Name) and a.id == loopvar[0]) \
                    else [_const_str(a, rel)]
                for f in fs:
                    if f not in possible:
                        raise TranslationBroken(rel, s.lineno, f"{c.func.attr}({f!r}): not a feature of that group")
                    out.append((kind, f))
            elif isinstance(s, ast.If):
                out.append(("ite", self.cond(s.test, K, P, rel), self.stmts(s.body, K, P, rel, loopvar),
                            self.stmts(s.orelse, K, P, rel, loopvar)))
            elif isinstance(s, ast.For) and loopvar is None and not s.orelse and isinstance(s.target, ast.Name):
                it = s.iter
                if not (isinstance(it, ast.Subscript) and isinstance(it.value, ast.Name) and it.value.id == "FEATURES"):
                    raise TranslationBroken(rel, s.lineno, "for loop not over FEATURES[\"GROUP\"]")
                g = _const_str(it.slice, rel)
                if g not in self.gnames:
                    raise TranslationBroken(rel, s.lineno, f"FEATURES has no key {g}")
                feats = dict(self.groups)[g]
                # one pass per feature, statements in body order — exactly the loop's unrolling
                for f in feats:
                    out += self.stmts(s.body, K, P, rel, (s.target.id, [f]))
            else:
                raise TranslationBroken(rel, s.lineno, "unsupported statement in kind method")
        return out

    def supported(self, cls, seen=()):
        """-> items of cls.supported_kind() (callee inlined); the start is always the empty latest-version kind"""
        if cls.name in seen:
            raise TranslationBroken(cls.rel, cls.node.lineno, "cyclic supported_kind() calls")
        r = _resolve(self.classes, cls, "supported_kind")
        if r is None:
            raise TranslationBroken(cls.rel, cls.node.lineno, f"{cls.name} has no supported_kind")
        owner, fn = r
        rel = owner.rel
        if fn.args.args:
            raise TranslationBroken(rel, fn.lineno, "supported_kind takes arguments")
        b = _body(fn)
        if len(b) < 2 or not (isinstance(b[0], ast.Assign) and len(b[0].targets) == 1 and isinstance(b[0].targets[0], ast.Name)):
            raise TranslationBroken(rel, fn.lineno, "supported_kind must start with an assignment of the kind variable")
        K = b[0].targets[0].id
        v = b[0].value
        pre = []
        if (isinstance(v, ast.Call) and isinstance(v.func, ast.Name) and v.func.id == "ProblemKind" and not v.args
                and len(v.keywords) == 1 and v.keywords[0].arg == "version" and isinstance(v.keywords[0].value, ast.Name)
                and v.keywords[0].value.id == "LATEST_PROBLEM_KIND_VERSION"):
            pass
        elif (isinstance(v, ast.Call) and not v.args and not v.keywords and isinstance(v.func, ast.Attribute)
              and v.func.attr == "supported_kind" and isinstance(v.func.value, ast.Name) and v.func.value.id in self.classes):
            pre = self.supported(self.classes[v.func.value.id], seen + (cls.name,))
        else:
            raise TranslationBroken(rel, b[0].lineno, "unsupported initial value of the supported kind")
        if not (isinstance(b[-1], ast.Return) and isinstance(b[-1].value, ast.Name) and b[-1].value.id == K):
            raise TranslationBroken(rel, b[-1].lineno, "supported_kind must end with `return <kind variable>`")
        return pre + self.stmts(b[1:-1], K, "\0", rel)

    def transformer(self, fn, rel, nargs, what, seen=()):
        """(start, items) of a function of the shape `K = P.clone() | helper(P); <stmts>; return K`;
        start = "clone" | "latest": what the kind variable is initialised with before the items run"""
        args = [a.arg for a in fn.args.args]
        if len(args) != nargs:
            raise TranslationBroken(rel, fn.lineno, f"{what} must take {nargs} argument(s)")
        P = args[0]
        b = _body(fn)

        def start(e):
            """(start, items) computed by the initial value of the kind variable, or None"""
            if (isinstance(e, ast.Call) and not e.args and not e.keywords and isinstance(e.func, ast.Attribute)
                    and e.func.attr == "clone" and isinstance(e.func.value, ast.Name) and e.func.value.id == P):
                return "clone", []
            if (isinstance(e, ast.Call) and len(e.args) == 1 and not e.keywords and isinstance(e.func, ast.Name)
                    and isinstance(e.args[0], ast.Name) and e.args[0].id == P):
                h = e.func.id
                if h in seen:
                    raise TranslationBroken(rel, e.lineno, f"cyclic helper call {h}")
                tree, urel = _parse(PKG + "/utils.py")
                for n in tree.body:
                    if isinstance(n, ast.FunctionDef) and n.name == h:
                        if _is_at_latest(n, tree, urel):
                            return "latest", []
                        return self.transformer(n, urel, 1, h, seen + (h,))
                raise TranslationBroken(rel, e.lineno, f"helper {h} is not a function of {PKG}/utils.py")
            return None
        if len(b) == 1 and isinstance(b[0], ast.Return) and start(b[0].value) is not None:
            return start(b[0].value)
        if len(b) < 2 or not (isinstance(b[0], ast.Assign) and len(b[0].targets) == 1 and isinstance(b[0].targets[0], ast.Name)
                              and start(b[0].value) is not None):
            raise TranslationBroken(rel, fn.lineno, f"{what} must start with `<var> = problem_kind.clone()` or `<var> = helper(problem_kind)`")
        K = b[0].targets[0].id
        if not (isinstance(b[-1], ast.Return) and isinstance(b[-1].value, ast.Name) and b[-1].value.id == K):
            raise TranslationBroken(rel, b[-1].lineno, f"{what} must end with `return <kind variable>`")
        st, pre = start(b[0].value)
        return st, pre + self.stmts(b[1:-1], K, P, rel)

    def resulting(self, cls):
        owner, fn = _resolve(self.classes, cls, "resulting_problem_kind")
        return self.transformer(fn, owner.rel, 2, "resulting_problem_kind")

    def supports_class(self, cls):
        """name of the class whose supported_kind() the (possibly inherited) supports() compares against"""
        owner, fn = _resolve(self.classes, cls, "supports")
        rel = owner.rel
        b = _body(fn)
        args = [a.arg for a in fn.args.args]
        ok = (len(b) == 1 and isinstance(b[0], ast.Return) and isinstance(b[0].value, ast.Compare) and len(args) == 1
              and len(b[0].value.ops) == 1 and isinstance(b[0].value.ops[0], ast.LtE)
              and isinstance(b[0].value.left, ast.Name) and b[0].value.left.id == args[0])
        if ok:
            r = b[0].value.comparators[0]
            ok = (isinstance(r, ast.Call) and not r.args and isinstance(r.func, ast.Attribute) and r.func.attr == "supported_kind"
                  and isinstance(r.func.value, ast.Name) and r.func.value.id in self.classes)
        if not ok:
            raise TranslationBroken(rel, fn.lineno, "supports() is not `return problem_kind <= Cls.supported_kind()`")
        return b[0].value.comparators[0].func.value.id

    def compilation_kinds(self, cls):
        owner, fn = _resolve(self.classes, cls, "supports_compilation")
        rel = owner.rel
        b = _body(fn)
        args = [a.arg for a in fn.args.args]
        if not (len(b) == 1 and isinstance(b[0], ast.Return) and len(args) == 1):
            raise TranslationBroken(rel, fn.lineno, "unsupported shape of supports_compilation")

        def ck(e):
            if isinstance(e, ast.Attribute) and isinstance(e.value, ast.Name) and e.value.id == "CompilationKind":
                return e.attr
            raise TranslationBroken(rel, e.lineno, "expected CompilationKind.<NAME>")

        def go(e):
            if isinstance(e, ast.BoolOp) and isinstance(e.op, ast.Or):
                return [x for v in e.values for x in go(v)]
            if isinstance(e, ast.Compare) and len(e.ops) == 1 and isinstance(e.left, ast.Name) and e.left.id == args[0]:
                if isinstance(e.ops[0], ast.Eq):
                    return [ck(e.comparators[0])]
                if isinstance(e.ops[0], ast.In) and isinstance(e.comparators[0], (ast.Tuple, ast.List, ast.Set)):
                    return [ck(x) for x in e.comparators[0].elts]
            raise TranslationBroken(rel, e.lineno, "unsupported shape of supports_compilation")
        return go(b[0].value)


def _cond(c, a):
    if c[0] == "has":
        return f"(.has .{c[1]} {_lean_list([a(f) for f in c[2]])})"
    if c[0] == "not":
        return f"(.not {_cond(c[1], a)})"
    return f"(.{c[0]} {_cond(c[1], a)} {_cond(c[2], a)})"


def _prog(items, a=_lean_str, ind="    "):
    """items -> Lean term of type Prog (continuation style); `a` prints one feature"""
    if not items:
        return ".done"
    it, rest = items[0], items[1:]
    if it[0] in ("set", "unset"):
        return f"(.{it[0]} {a(it[1])} <|\n{ind}{_prog(rest, a, ind)})"
    _, c, t, e = it
    return (f"(.ite {_cond(c, a)}\n{ind}  {_prog(t, a, ind + '  ')}\n{ind}  {_prog(e, a, ind + '  ')} <|\n"
            f"{ind}{_prog(rest, a, ind)})")


def _occurring(items, acc):
    """features of a program in order of first occurrence"""
    def cond(c):
        if c[0] == "has":
            for f in c[2]:
                if f not in acc:
                    acc.append(f)
        else:
            for x in c[1:]:
                cond(x)
    for it in items:
        if it[0] in ("set", "unset"):
            if it[1] not in acc:
                acc.append(it[1])
        else:
            cond(it[1])
            _occurring(it[2], acc)
            _occurring(it[3], acc)
    return acc


def _compilation_kind_enum():
    tree, rel = _parse("unified_planning/engines/mixins/compiler.py")
    for n in tree.body:
        if isinstance(n, ast.ClassDef) and n.name == "CompilationKind":
            out = []
            for s in n.body:
                if isinstance(s, ast.Assign) and len(s.targets) == 1 and isinstance(s.targets[0], ast.Name):
                    out.append(s.targets[0].id)
            return out
    raise TranslationBroken(rel, 0, "class CompilationKind not found")


def _factory_order(classes):
    """[(engine name, class name)] for the compilers of this package, in the order `_get_engine_class` tries them:
    DEFAULT_ENGINES_PREFERENCE_LIST restricted to DEFAULT_ENGINES entries whose module is in the package"""
    tree, rel = _parse(FACTORY)
    de = _find_assign(tree, "DEFAULT_ENGINES", rel)
    if not isinstance(de, ast.Dict):
        raise TranslationBroken(rel, de.lineno, "DEFAULT_ENGINES is not a dict literal")
    reg = {}
    for k, v in zip(de.keys, de.values):
        if not (isinstance(v, ast.Tuple) and len(v.elts) == 2):
            raise TranslationBroken(rel, v.lineno, "DEFAULT_ENGINES entry is not (module, class)")
        mod, cls = _const_str(v.elts[0], rel), _const_str(v.elts[1], rel)
        if mod.startswith("unified_planning.engines.compilers."):
            if cls not in classes:
                raise TranslationBroken(rel, v.lineno, f"registered compiler class {cls} not found in the package")
            reg[_const_str(k, rel)] = cls
    pl = _find_assign(tree, "DEFAULT_ENGINES_PREFERENCE_LIST", rel)
    names = _str_set(pl, rel)
    order = [(n, reg[n]) for n in names if n in reg]
    missing = [n for n in reg if n not in names]
    # an engine that is registered but not in the preference list is never selected by kind
    return order, missing


def gen_kinds():
    groups = _features()
    classes = _classes()
    tr = _Tr(groups, classes)
    decls, pipes = [], []
    for name in sorted(classes):
        c = classes[name]
        res = {m: _resolve(classes, c, m) for m in METHODS}
        if any(r is None for r in res.values()):
            # helper classes of the package that are not compilers define none of the four methods
            if all(r is None for r in res.values()):
                continue
            raise TranslationBroken(c.rel, c.node.lineno, f"{name} defines only some of {METHODS}")
        if all(_only_raises(fn) for _, fn in res.values()):
            pipes.append(name)
            continue
        start, resulting = tr.resulting(c)
        decls.append({"name": name, "file": c.rel, "line": res["resulting_problem_kind"][1].lineno,
                      "cks": tr.compilation_kinds(c), "supported": tr.supported(c),
                      "supports": tr.supports_class(c), "resulting": resulting, "atLatest": start == "latest"})
    byname = {d["name"]: d for d in decls}
    order, missing = _factory_order(classes)
    cks = _compilation_kind_enum()
    for d in decls:
        for k in d["cks"]:
            if k not in cks:
                raise TranslationBroken(d["file"], d["line"], f"unknown CompilationKind.{k}")
    L = ["/- GENERATED by harness/translate_C09.py from /repo — do not edit. -/",
         "import UPVerif.Core.KindProg", "namespace UPVerif.Gen.Kinds", "open UPVerif.Kind UPVerif.KindProg", ""]
    for d in decls:
        L.append(f"def {d['name']}.supportedProg : Prog Feature :=\n    {_prog(d['supported'])}")
        L.append("")
    for d in decls:
        L.append(f"/-- {d['file']}:{d['line']} -/")
        L.append(f"def {d['name']} : Decl where")
        L.append(f"  name := {_lean_str(d['name'])}")
        L.append(f"  cks := {_lean_list([_lean_str(k) for k in d['cks']])}")
        L.append(f"  supported := {d['name']}.supportedProg")
        L.append(f"  supports := {d['supports']}.supportedProg")
        L.append(f"  atLatest := {'true' if d['atLatest'] else 'false'}")
        L.append(f"  resulting :=\n    {_prog(d['resulting'])}")
        names = _occurring(d["resulting"], [])
        L.append(f"  names := {_lean_list([_lean_str(f) for f in names])}")
        L.append(f"  resultingIdx :=\n    {_prog(d['resulting'], lambda f: str(names.index(f)))}")
        L.append("")
    L.append("def decls : List Decl := " + _lean_list([d["name"] for d in decls]))
    L.append("")
    L.append("/-- (registry name, class) of the package's compilers in `DEFAULT_ENGINES_PREFERENCE_LIST` order -/")
    L.append("def preference : List (String × Decl) := " + _lean_list([f"({_lean_str(n)}, {c})" for n, c in order]))
    L.append("")
    L.append("def notInPreferenceList : List String := " + _lean_list([_lean_str(n) for n in missing]))
    L.append("def pipelineClasses : List String := " + _lean_list([_lean_str(n) for n in pipes]))
    L.append("def compilationKinds : List String := " + _lean_list([_lean_str(k) for k in cks]))
    L.append("")
    L.append("end UPVerif.Gen.Kinds")
    return "\n".join(L) + "\n"


GENERATORS = {"Kinds": gen_kinds}
