#!/venv/bin/python
"""Orchestration of one property check (DESIGN 2.6).

  ./check Cxx [--tier quick|thorough] [--replay FILE]
  ./check --setup            (translate everything + full lake build)

Exit codes: 0 property held on everything explored (KNOWN-FINDING lines may be printed);
            1 violation (a line `VIOLATION property=<id> replay=<path>[ no-failing-input-found]`);
            2 harness error / time-out (never a verdict).
"""
import argparse
import fcntl
import hashlib
import importlib
import json
import os
import random
import re
import subprocess
import sys
import time
import traceback
import warnings

warnings.simplefilter("ignore")

HERE = os.path.dirname(os.path.abspath(__file__))
VERIF = os.path.dirname(HERE)
LEAN = os.environ.get("UPVERIF_LEAN") or os.path.join(VERIF, "lean")
REPO = os.environ.get("UPVERIF_REPO", "/repo")
if REPO != "/repo":
    sys.path.insert(0, REPO)
DRIVER = os.path.join(LEAN, ".lake", "build", "bin", "upverif-driver")
sys.path.insert(0, HERE)

import sexp  # noqa: E402
import translate  # noqa: E402

ALLOWED_AXIOMS = {"propext", "Classical.choice", "Quot.sound"}
FORBIDDEN = re.compile(r"\b(sorry|admit|native_decide|bv_decide|implemented_by)\b|^\s*axiom\s|\bunsafe\s|maxHeartbeats\s+0\b")


def log(*a):
    print(*a, flush=True)


def sh(cmd, cwd=None, timeout=None, input=None):
    env = dict(os.environ)
    p = subprocess.run(cmd, cwd=cwd, stdout=subprocess.PIPE, stderr=subprocess.STDOUT, text=True,
                       timeout=timeout, input=input, env=env)
    out = "\n".join(l for l in p.stdout.splitlines() if "conda.cli.condarc" not in l)
    return p.returncode, out


class Lock:
    def __enter__(self):
        os.makedirs(os.path.join(LEAN, ".lake"), exist_ok=True)
        self.f = open(os.path.join(LEAN, ".lake", "upverif.lock"), "w")
        fcntl.flock(self.f, fcntl.LOCK_EX)
        return self

    def __exit__(self, *a):
        fcntl.flock(self.f, fcntl.LOCK_UN)
        self.f.close()


# ------------------------------------------------------------------------------------------------
# Lean side: translate, build, audit
# ------------------------------------------------------------------------------------------------

def strip_comments(text):
    # remove /- ... -/ (nested) and -- line comments
    out, i, depth = [], 0, 0
    n = len(text)
    while i < n:
        if text.startswith("/-", i):
            depth += 1
            i += 2
        elif depth and text.startswith("-/", i):
            depth -= 1
            i += 2
        elif depth:
            if text[i] == "\n":
                out.append("\n")
            i += 1
        elif text.startswith("--", i):
            while i < n and text[i] != "\n":
                i += 1
        else:
            out.append(text[i])
            i += 1
    return "".join(out)


def lean_closure(module):
    """local UPVerif.* modules transitively imported by `module` (file paths)."""
    seen, todo = [], [module]
    while todo:
        m = todo.pop()
        if m in seen:
            continue
        path = os.path.join(LEAN, *m.split(".")) + ".lean"
        if not os.path.exists(path):
            continue
        seen.append(m)
        for l in open(path):
            mm = re.match(r"\s*import\s+(UPVerif\.\S+)", l)
            if mm:
                todo.append(mm.group(1))
    return seen


def theorems_of(module):
    """fully qualified names of the theorems stated in a Props module"""
    path = os.path.join(LEAN, *module.split(".")) + ".lean"
    text = strip_comments(open(path).read())
    ns, out = [], []
    for l in text.splitlines():
        m = re.match(r"\s*namespace\s+(\S+)", l)
        if m:
            ns.append(m.group(1))
            continue
        m = re.match(r"\s*end\s+(\S+)", l)
        if m and ns and ns[-1] == m.group(1):
            ns.pop()
            continue
        m = re.match(r"\s*(?:private\s+|protected\s+)?theorem\s+(\S+)", l)
        if m:
            out.append(".".join(ns + [m.group(1)]))
    return out


def lean_phase(mod, broken, info):
    """translate + build + audit under the lock. Fills `broken` with failed obligations."""
    module = getattr(mod, "LEAN_MODULE", f"UPVerif.Props.{mod.ID}")
    with Lock():
        # 1. translate
        try:
            res = translate.run(getattr(mod, "GEN", None) or [])
            info["translated"] = [n for n, _ in res]
        except translate.TranslationBroken as e:
            broken.append({"kind": "translate", "name": f"translate:{e.file}", "detail": str(e)})
        except Exception as e:  # a syntax error in /repo etc.
            broken.append({"kind": "translate", "name": "translate", "detail": repr(e)})
        # 2. build driver, then the property's theorems
        rc, out = sh(["lake", "build", "upverif-driver"], cwd=LEAN, timeout=1500)
        info["driver_built"] = rc == 0
        if rc != 0:
            broken.append({"kind": "build", "name": "build:upverif-driver", "detail": out[-3000:]})
        # EXTRA_PROPS: further modules of theorems for the same property (Props/CxxFoo.lean), built and audited alike
        extra = list(getattr(mod, "EXTRA_PROPS", None) or [])
        rc, out = sh(["lake", "build", module] + extra, cwd=LEAN, timeout=2400)
        info["props_built"] = rc == 0
        thms = theorems_of(module)
        for em in extra:
            thms += theorems_of(em)
        info["theorems"] = thms
        if rc != 0:
            failing = sorted(set(re.findall(r"error: (\S+\.lean):(\d+)", out)))
            broken.append({"kind": "build", "name": f"build:{module}",
                           "detail": out[-3000:], "where": [f"{f}:{l}" for f, l in failing]})
            info["discharged_theorems"] = []
            return
        # 3. audit: source grep + axioms
        bad = []
        closure = lean_closure(module)
        for em in extra:
            closure += [m for m in lean_closure(em) if m not in closure]
        for m in closure:
            path = os.path.join(LEAN, *m.split(".")) + ".lean"
            for i, l in enumerate(strip_comments(open(path).read()).splitlines(), 1):
                if FORBIDDEN.search(l):
                    bad.append(f"{m}:{i}: {l.strip()}")
        if bad:
            broken.append({"kind": "audit", "name": "audit:forbidden-construct", "detail": "\n".join(bad)})
        os.makedirs(os.path.join(LEAN, ".lake", "audit"), exist_ok=True)
        apath = os.path.join(LEAN, ".lake", "audit", f"{mod.ID}.lean")
        with open(apath, "w") as f:
            f.write("".join(f"import {m}\n" for m in [module] + extra) + "".join(f"#print axioms {t}\n" for t in thms))
        rc, out = sh(["lake", "env", "lean", apath], cwd=LEAN, timeout=600)
        axioms, discharged = set(), []
        flat = re.sub(r"\s+", " ", out)
        for t in thms:
            m = re.search(r"'" + re.escape(t) + r"' (does not depend on any axioms|depends on axioms: \[([^\]]*)\])", flat)
            if not m:
                broken.append({"kind": "audit", "name": f"audit:{t}", "detail": "no #print axioms output: " + out[-500:]})
                continue
            ax = set(a.strip() for a in (m.group(2) or "").split(",") if a.strip())
            axioms |= ax
            if ax - ALLOWED_AXIOMS:
                broken.append({"kind": "audit", "name": f"audit:{t}", "detail": f"axioms {sorted(ax - ALLOWED_AXIOMS)}"})
            else:
                discharged.append(t)
        info["axioms"] = sorted(axioms)
        info["discharged_theorems"] = discharged


def run_driver(lines, timeout=1200):
    """lines: list of str.  Returns dict n -> answer sexp (parsed)."""
    p = subprocess.run([DRIVER], input="\n".join(lines) + "\n", stdout=subprocess.PIPE, stderr=subprocess.PIPE,
                       text=True, timeout=timeout)
    if p.returncode != 0:
        raise RuntimeError(f"driver exited {p.returncode}: {p.stderr[-500:]}")
    out = {}
    for l in p.stdout.splitlines():
        l = l.strip()
        if not l:
            continue
        e = sexp.loads(l)
        out[e[0]] = e[1]
    return out


# ------------------------------------------------------------------------------------------------
# known findings
# ------------------------------------------------------------------------------------------------

def load_findings(pid):
    path = os.path.join(VERIF, "known_findings.json")
    if not os.path.exists(path):
        return []
    data = json.load(open(path))
    return [f for f in data.get("findings", []) if f.get("property") == pid]


# ------------------------------------------------------------------------------------------------
# main check
# ------------------------------------------------------------------------------------------------

def case_hash(payload):
    return hashlib.sha1(sexp.dumps(payload).encode()).hexdigest()[:12]


def to_model(mod, payload):
    """what is sent to the model driver for a case: the payload itself, or `mod.model_payload(payload)` when the
    model needs observations of the real run as an input (e.g. the answers of a component owned by another property)"""
    f = getattr(mod, "model_payload", None)
    if f is None:
        return payload
    try:
        return f(payload)
    except Exception as e:
        return ["model-payload-error", type(e).__name__]


def safe_impl(mod, payload):
    try:
        return mod.impl(payload)
    except Exception as e:  # impl() is expected to map library errors itself; this is a harness-visible crash
        return ["crash", type(e).__name__, str(e)[:200]]


def safe_oracle(mod, payload):
    """returns None (holds) or a string describing the failing clause"""
    try:
        return mod.oracle(payload)
    except Exception as e:
        return f"oracle-raised {type(e).__name__}: {str(e)[:300]}"


def minimise(mod, payload, still_fails, budget_s=20):
    shrink = getattr(mod, "shrink", None)
    if shrink is None:
        return payload
    t0 = time.time()
    cur = payload
    progress = True
    while progress and time.time() - t0 < budget_s:
        progress = False
        for cand in shrink(cur):
            if time.time() - t0 > budget_s:
                break
            try:
                if still_fails(cand):
                    cur = cand
                    progress = True
                    break
            except Exception:
                continue
    return cur


def write_replay(pid, payload, extra):
    os.makedirs(os.path.join(VERIF, "replays"), exist_ok=True)
    name = f"{pid}-{case_hash(payload) if payload is not None else 'unproved'}.json"
    path = os.path.join("replays", name)
    data = {"property": pid, "case": sexp.dumps(payload) if payload is not None else None}
    data.update(extra)
    data["replay_cmd"] = f"./check {pid} --replay {path}"
    with open(os.path.join(VERIF, path), "w") as f:
        json.dump(data, f, indent=1)
    return path


def do_replay(mod, path):
    data = json.load(open(path if os.path.isabs(path) else os.path.join(VERIF, path)))
    if not data.get("case"):
        log(f"replay names a broken obligation, not an input: {data.get('broken')}")
        return 1
    payload = sexp.loads(data["case"])
    ans = safe_impl(mod, payload)
    log("case:  ", data["case"])
    log("impl:  ", sexp.dumps(ans))
    try:
        m = run_driver([sexp.dumps([mod.ID, "0", to_model(mod, payload)])])
        log("model: ", sexp.dumps(m.get("0")))
    except Exception as e:
        log("model:  (driver unavailable)", e)
    v = safe_oracle(mod, payload)
    log("oracle:", v if v else "property holds on this input")
    return 1 if v else 0


def main():
    ap = argparse.ArgumentParser()
    ap.add_argument("prop", nargs="?")
    ap.add_argument("--tier", default=os.environ.get("VERIF_TIER", "quick"))
    ap.add_argument("--replay")
    ap.add_argument("--setup", action="store_true")
    args = ap.parse_args()
    if args.setup:
        return setup()
    pid = args.prop
    tier = args.tier if args.tier in ("quick", "thorough") else "quick"
    seed = int(os.environ.get("VERIF_SEED", "0") or 0)
    t0 = time.time()
    mod = importlib.import_module(f"props.{pid}")
    if args.replay:
        return do_replay(mod, args.replay)

    broken, info = [], {}
    lean_phase(mod, broken, info)

    # ---- correspondence --------------------------------------------------------------------
    rng = random.Random(seed * 1000003 + 17)
    corpus = []
    cdir = os.path.join(HERE, "corpus", pid)
    if os.path.isdir(cdir):
        for fn in sorted(os.listdir(cdir)):
            if fn.endswith(".sexp"):
                for l in open(os.path.join(cdir, fn)):
                    l = l.strip()
                    if l and not l.startswith(";"):
                        corpus.append(sexp.loads(l))
    budget = getattr(mod, "BUDGET_S", {"quick": 60, "thorough": 600})[tier]
    cases, seen = [], set()
    tgen = time.time()
    for payload in list(corpus) + [None]:
        if payload is None:
            break
        cases.append(payload)
    for payload in mod.cases(rng, tier):
        cases.append(payload)
        if time.time() - tgen > budget:
            break
    impl_ans, oracle_fail, tags = [], [], {}
    timg = time.time()
    run_oracle = getattr(mod, "ORACLE_ALWAYS", True)
    n_run = 0
    for i, payload in enumerate(cases):
        if time.time() - timg > budget * 2 and i >= len(corpus):
            break
        a = safe_impl(mod, payload)
        impl_ans.append(a)
        n_run += 1
        if run_oracle:
            v = safe_oracle(mod, payload)
            if v:
                oracle_fail.append((payload, v))
        try:
            for t in (mod.stats(payload, a) if hasattr(mod, "stats") else []):
                tags[t] = tags.get(t, 0) + 1
        except Exception:
            tags["stats-error"] = tags.get("stats-error", 0) + 1
    cases = cases[:n_run]
    model_ans = {}
    if info.get("driver_built"):
        try:
            model_ans = run_driver([sexp.dumps([mod.ID, str(i), to_model(mod, p)]) for i, p in enumerate(cases)])
        except Exception as e:
            broken.append({"kind": "correspondence", "name": f"corr:{pid}/driver", "detail": repr(e)})
    compare = getattr(mod, "compare", lambda m, a: m == a)
    disagreements, bad_cases = [], []
    nontrivial = set()
    for i, (payload, a) in enumerate(zip(cases, impl_ans)):
        m = model_ans.get(str(i))
        if m == "bad-case" or (m is None and info.get("driver_built") and model_ans):
            bad_cases.append((payload, m))
            continue
        if m is None:
            continue
        if not compare(m, a):
            disagreements.append((payload, m, a))
        if hasattr(mod, "model_stats"):  # optional: tags computed from the MODEL's answer (e.g. which theorem hypotheses hold)
            try:
                for t in mod.model_stats(payload, m):
                    tags[t] = tags.get(t, 0) + 1
            except Exception:
                tags["model-stats-error"] = tags.get("model-stats-error", 0) + 1
        try:
            if mod.nontrivial(payload, a):
                nontrivial.add(case_hash(payload))
        except Exception:
            pass
    if bad_cases:
        log(f"HARNESS-ERROR: driver answered bad-case for {len(bad_cases)} cases, e.g. {sexp.dumps(bad_cases[0][0])[:400]}")
        return 2
    if disagreements:
        broken.append({"kind": "correspondence", "name": f"corr:{pid}/" + getattr(mod, "CORR_NAME", "model-vs-code"),
                       "detail": f"{len(disagreements)} of {len(cases)} cases disagree",
                       "examples": [{"case": sexp.dumps(p), "model": sexp.dumps(m), "impl": sexp.dumps(a)}
                                    for p, m, a in disagreements[:5]]})

    # ---- known findings ---------------------------------------------------------------------
    findings = load_findings(pid)
    open_findings = [f for f in findings if f.get("status") == "open"]
    known_lines = []
    for f in open_findings:
        w = f.get("witness")
        if w:
            v = safe_oracle(mod, sexp.loads(w))
            if v:
                known_lines.append(f"KNOWN-FINDING: property={pid} {f['id']}: {f['what']}")
            else:
                log(f"note: listed finding {f['id']} no longer reproduces on its witness")

    def attributed(payload):
        kc = getattr(mod, "known_cause", None)
        if kc is None:
            return None
        try:
            c = kc(payload)
        except Exception:
            return None
        if c and any(f["id"] == c for f in open_findings):
            return c
        return None

    # ---- failing-input search ------------------------------------------------------------
    violations = []  # (payload, why)
    for payload, why in oracle_fail:
        if attributed(payload):
            continue
        violations.append((payload, why))
    unattributed_broken = list(broken)
    if broken and not violations:
        # the disagreeing cases first
        for b in broken:
            for ex in b.get("examples", []):
                p = sexp.loads(ex["case"])
                v = safe_oracle(mod, p)
                if v and not attributed(p):
                    violations.append((p, v))
        # then a wider search with the property's oracle on the real code
        if not violations:
            sb = getattr(mod, "SEARCH_S", {"quick": 45, "thorough": 300})[tier]
            ts = time.time()
            srng = random.Random(seed * 7919 + 3)
            gen = mod.search(srng, tier) if hasattr(mod, "search") else mod.cases(srng, "thorough")
            for p in gen:
                if time.time() - ts > sb:
                    break
                v = safe_oracle(mod, p)
                if v and not attributed(p):
                    violations.append((p, v))
                    break
        # a correspondence break wholly explained by listed findings is not an alarm
        if not violations:
            still = []
            for b in broken:
                if b["kind"] == "correspondence" and b.get("examples") and disagreements and \
                        all(attributed(p) for p, _, _ in disagreements):
                    continue
                still.append(b)
            unattributed_broken = still

    # ---- evidence ---------------------------------------------------------------------------
    thms = info.get("theorems", [])
    disch = info.get("discharged_theorems", [])
    # the correspondence obligation: model and code agree on every case that no LISTED finding explains
    corr_attributed = sum(1 for p, _, _ in disagreements if attributed(p))
    corr_ok = info.get("driver_built") and len(cases) > 0 and \
        not any(b["kind"] == "correspondence" for b in (unattributed_broken if not violations else broken))
    obligations = len(thms) + 1
    discharged = len(disch) + (1 if corr_ok else 0)
    samples = [sexp.dumps(p)[:600] for p in (cases[len(corpus):len(corpus) + 3] + cases[-2:])]
    ev = {
        "property_id": pid, "tier": tier, "seed": seed, "level": getattr(mod, "LEVEL", "proof"),
        "coverage": {
            "obligations": obligations, "discharged": discharged,
            "checker_cmd": f"cd lean && lake build {getattr(mod, 'LEAN_MODULE', 'UPVerif.Props.' + pid)} && lake env lean .lake/audit/{pid}.lean  (#print axioms on every theorem); then differential run of lean/.lake/build/bin/upverif-driver vs /repo",
            "trusted_base": ["Lean 4.33.0 kernel", "axioms: " + ", ".join(info.get("axioms", []) or ["(none)"]),
                             "harness/translate.py (generated tables)", "Driver.lean + harness (correspondence, canonicalisation)"]
                            + list(getattr(mod, "MODELLED", [])),
            "theorems": thms, "theorems_discharged": disch,
            "correspondence": {"name": f"corr:{pid}/" + getattr(mod, "CORR_NAME", "model-vs-code"),
                               "cases": len(cases), "corpus_cases": len(corpus), "disagreements": len(disagreements),
                               "disagreements_explained_by_listed_findings": corr_attributed},
            "programs": len(cases), "disagreements_checked": len(disagreements),
            "evaluations": len(cases), "distinct_nontrivial": len(nontrivial),
            "rule": getattr(mod, "RULE", ""), "samples": samples, "distribution": tags,
            "oracle_checked": n_run if run_oracle else 0,
            "broken": [{k: v for k, v in b.items() if k != "detail"} | {"detail": b.get("detail", "")[:600]} for b in broken],
            "known_findings_reproduced": [l for l in known_lines],
        },
        "assumptions": list(getattr(mod, "ASSUMPTIONS", [])),
        "wall_s": round(time.time() - t0, 2),
        "violations": len(violations) + (1 if (unattributed_broken and not violations) else 0),
    }
    os.makedirs(os.path.join(VERIF, "evidence"), exist_ok=True)
    with open(os.path.join(VERIF, "evidence", f"{pid}.json"), "w") as f:
        json.dump(ev, f, indent=1)

    for l in known_lines:
        log(l)
    log(f"{pid} tier={tier} seed={seed}: theorems {len(disch)}/{len(thms)} discharged, axioms={info.get('axioms')}, "
        f"correspondence {len(cases)} cases ({len(nontrivial)} non-trivial), {len(disagreements)} disagreements, "
        f"oracle failures {len(oracle_fail)}, wall {ev['wall_s']}s")
    if violations:
        payload, why = violations[0]

        def still(c):
            v = safe_oracle(mod, c)
            return bool(v) and not attributed(c)
        small = minimise(mod, payload, still)
        why = safe_oracle(mod, small) or why
        path = write_replay(pid, small, {"failing_clause": why, "impl": sexp.dumps(safe_impl(mod, small)),
                                         "seed": seed, "tier": tier, "original_case": sexp.dumps(payload),
                                         "broken": [b["name"] for b in broken]})
        log(f"VIOLATION property={pid} replay={path}")
        return 1
    if unattributed_broken:
        path = write_replay(pid, None, {"broken": [{"name": b["name"], "kind": b["kind"], "detail": b.get("detail", "")[:2000],
                                                    "examples": b.get("examples", [])} for b in unattributed_broken],
                                        "seed": seed, "tier": tier})
        for b in unattributed_broken:
            log(f"BROKEN {b['name']}: {b.get('detail', '')[:300]}")
        log(f"VIOLATION property={pid} replay={path} no-failing-input-found")
        return 1
    if tier == "thorough" and getattr(mod, "LEANCHECKER", True):
        rc, out = sh(["lake", "env", "leanchecker", getattr(mod, "LEAN_MODULE", "UPVerif.Props." + pid)]
                     + list(getattr(mod, "EXTRA_PROPS", None) or []), cwd=LEAN, timeout=1800)
        log(f"leanchecker: rc={rc} {out[-200:]}")
        if rc != 0:
            path = write_replay(pid, None, {"broken": [{"name": "leanchecker", "detail": out[-2000:]}]})
            log(f"VIOLATION property={pid} replay={path} no-failing-input-found")
            return 1
    return 0


def setup():
    with Lock():
        try:
            translate.run(None)
        except translate.TranslationBroken as e:
            log(str(e))  # each check will report it
        rc, out = sh(["lake", "build"], cwd=LEAN, timeout=3400)
        log(out[-2000:])
        return 0 if rc == 0 else 2


if __name__ == "__main__":
    try:
        sys.exit(main())
    except subprocess.TimeoutExpired as e:
        log("HARNESS-TIMEOUT", e)
        sys.exit(2)
    except SystemExit:
        raise
    except Exception:
        traceback.print_exc()
        sys.exit(2)
