#!/bin/bash
# usage: harness/run_all.sh [tier] seed...   -> runs every claimed check for each seed, prints failures
cd "$(dirname "$0")/.."
TIER=${1:-quick}; shift
SEEDS=${@:-0}
IDS=$(python3 -c "import json;print(' '.join(json.load(open('harness/claimed.json'))))" 2>/dev/null)
mkdir -p /var/tmp/upverif-runall
for s in $SEEDS; do for c in $IDS; do
  VERIF_SEED=$s ./check $c --tier $TIER > /var/tmp/upverif-runall/$c-$s.log 2>&1; rc=$?
  if [ $rc -ne 0 ]; then echo "FAIL $c seed=$s rc=$rc: $(grep -E 'VIOLATION|HARNESS|Traceback' /var/tmp/upverif-runall/$c-$s.log | head -2 | cut -c1-200)"; fi
done; echo "seed $s done"; done
# committed records: generated MANIFEST up to date, evidence of every check valid for its claimed level
/venv/bin/python harness/consistency.py
