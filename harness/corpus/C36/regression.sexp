; DESIGN 2.10: a default-valued update must hide the non-default value stored by the father (linked child)
(hist (defaults (x i0) (at bF)) (limits 20 20) (root ((x) i7) ((y) i1)) (ops (child 0 (((x) i0))) (shape 1) (get 1 (x)) (get 0 (x)) (eq 0 1) (child 1 (((x) i7))) (eq 2 0) (hasheq 2 0) (shape 0) (shape 1) (shape 2) (get 2 (x)) (get 1 (x))))
; in-place condensation of a shared father: hash(1) drops the default-valued entry of 1 while 2 still points to 1
(hist (defaults (x i0)) (limits 20 20) (root ((x) i7)) (ops (child 0 (((x) i0))) (child 1 ()) (shape 2) (hash 1) (shape 1) (shape 2) (get 2 (x)) (get 1 (x)) (child 1 (((y) i1))) (shape 3) (get 3 (x)) (eq 3 2) (eq 2 1) (hasheq 1 2)))
; limit 1: every second child is built by condensing; states reached by different routes are equal and hash alike
(hist (defaults (x i0) (at bF) (b bT)) (limits 1 1) (root ((x) i7) ((at l1) bF)) (ops (child 0 (((x) i0))) (shape 1) (child 1 (((at l1) bT))) (shape 2) (hash 1) (child 0 (((at l1) bT) ((x) i0))) (shape 3) (eq 2 3) (hasheq 3 2) (get 2 (y)) (child 1 (((x) i7))) (repr 2) (eq 4 0) (eq 1 0) (get 4 (b)) (get 4 (at l2)) (get 4 (at l1))))
; limit None: make_child always condenses
(hist (defaults (x i0)) (limits none none) (root ((x) i0) ((y) i2)) (ops (shape 0) (child 0 (((x) i1))) (shape 1) (child 1 (((x) i0))) (shape 2) (eq 2 0) (get 2 (x)) (get 2 (r)) (repr 2)))
; a failed get_value condenses the state (its error message prints it) although it has children
(hist (defaults (x i0)) (limits 3 3) (root ((y) i1)) (ops (child 0 (((y) i2))) (child 1 (((x) i0))) (shape 1) (get 1 (r)) (shape 1) (shape 2) (get 2 (y)) (get 2 (x)) (get 2 (r)) (shape 2)))
; a user subclass with MAX_ANCESTORS = 1: children are plain UPState objects (limit 20)
(hist (defaults (x i0)) (limits 1 20) (root ((x) i3)) (ops (child 0 (((x) i0))) (child 1 (((y) i1))) (child 2 (((x) i3))) (shape 1) (shape 2) (shape 3) (eq 3 0) (get 3 (x)) (get 3 (y))))
; limits < 1 are rejected: by the constructor of the root, or by make_child building a UPState
(hist (defaults) (limits 0 20) (root ((x) i1)) (ops (get 0 (x))))
(hist (defaults) (limits 2 0) (root ((x) i1)) (ops (child 0 (((x) i2))) (get 0 (x)) (shape 0)))
; values of another numeric kind are different constants: Int 0 is not the default Real 0
(hist (defaults (r r0/1)) (limits 2 2) (root ((r) i0)) (ops (shape 0) (child 0 (((r) r0/1))) (child 1 ()) (child 2 ()) (shape 3) (eq 3 0) (get 3 (r)) (get 0 (r))))
; a straight chain of 25 children under limit 20: the 21st child is built by condensing
(hist (defaults (x i1)) (limits 20 20) (root ((y) i5)) (ops (child 0 (((x) i0))) (child 1 (((x) i1))) (child 2 (((x) i2))) (child 3 (((x) i0))) (child 4 (((x) i1))) (child 5 (((x) i2))) (child 6 (((x) i0))) (child 7 (((x) i1))) (child 8 (((x) i2))) (child 9 (((x) i0))) (child 10 (((x) i1))) (child 11 (((x) i2))) (child 12 (((x) i0))) (child 13 (((x) i1))) (child 14 (((x) i2))) (child 15 (((x) i0))) (child 16 (((x) i1))) (child 17 (((x) i2))) (child 18 (((x) i0))) (child 19 (((x) i1))) (shape 20) (child 20 (((x) i2))) (shape 21) (child 21 (((x) i0))) (shape 22) (child 22 (((x) i1))) (shape 23) (child 23 (((x) i2))) (child 24 (((x) i0))) (get 25 (x)) (get 20 (x)) (get 21 (x)) (eq 25 22) (eq 24 21) (shape 21) (shape 25)))
