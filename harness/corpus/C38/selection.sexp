; WHICH keyword table applies (seeded change C38-2 and its neighbours): problems on both sides of every condition of PDDLWriter.__init__
; C38-2: DISCRETE-time problem with a durative action; the temporal keywords at/start/end/over/all/duration as fluent, action, object and parameter names (the demo's problem)
(pddlw (prob P T 0 0 0) (items (_UserType loc -) (Fluent at bool) (Fluent start bool) (Fluent END bool) (DurativeAction move) (Object over 0) (Object l2 0) (Parameter l 0 1) (Parameter duration 0 4) (Parameter all 0 4)))
; the same problem in continuous time (reference side)
(pddlw (prob P F 0 0 0) (items (_UserType loc -) (Fluent at bool) (Fluent start bool) (Fluent END bool) (DurativeAction move) (Object over 0) (Object l2 0) (Parameter l 0 1) (Parameter duration 0 4) (Parameter all 0 4)))
; discrete time WITHOUT durative action or timed effect: nothing temporal is written, the names stay
(pddlw (prob P T 0 0 0) (items (_UserType loc -) (Fluent at bool) (InstantaneousAction start) (Object over 0) (Parameter duration 0 2)))
; discrete time, explicit call sequence with probes and output
(pddl (prob P T 0 0 0) F (names Duration at go) (items (_UserType Duration -) (Fluent at bool) (DurativeAction go) (Parameter duration 0 2) (Parameter All 0 2)) (ops (m 3) (named ?duration) (m 4) (m 1) (named at) (pname 1) (m 2) (m 0) (named "?duration_")) (write T))
; temporal ONLY through a timed effect, written (at 5.0 (at_)): defect D-C38d before the repair (the name stayed `at`)
(pddlw (prob P F 0 1 0) (items (Fluent at bool) (Fluent start int) (InstantaneousAction over)))
(pddlw (prob P T 0 2 0) (items (_UserType end -) (Fluent AT bool) (Object all 0)))
; temporal ONLY through a timed goal: the writer refuses the problem, no temporal text, names unchanged
(pddlw (prob P F 0 0 1) (items (Fluent at bool) (InstantaneousAction start)))
(pddl (prob P F 0 0 1) F (names at start) (items (Fluent at bool) (InstantaneousAction start)) (ops (m 0) (m 1) (named at)) (write T))
; hierarchical problem (HDDL): task/method/htn/subtasks/ordering/ordered-subtasks as names — defect D-C38e before the repair
(pddlw (prob H F 0 0 0) (items (_UserType htn -) (Fluent task bool) (InstantaneousAction ordering) (Task method) (Task Subtasks) (Object ordered-subtasks 0) (Method tasks 3) (Method METHOD 4) (Parameter hierarchy 0 3) (Parameter constraints 0 2) (Parameter x 0 6)))
; the HDDL words in a NON-hierarchical problem stay as they are
(pddlw (prob P F 0 0 0) (items (_UserType htn -) (Fluent task bool) (InstantaneousAction ordering) (Object method 0)))
; hierarchical + discrete time + durative action + timed effect + trajectory constraint
(pddlw (prob H T 1 1 0) (items (_UserType at -) (Fluent always bool) (Fluent task int) (DurativeAction start) (Task end) (Object over 0) (Method method 4) (Parameter duration 0 3) (Parameter all 0 4) (Parameter within 0 6)))
; words the writer itself emits as :word that were in no table — defect D-C38f before the repair
(pddlw (prob P F 0 0 0) (items (Fluent functions int) (Fluent numeric-fluents bool) (InstantaneousAction action-costs) (InstantaneousAction Duration-Inequalities)))
; contingent problem with a sensing action; observe/oneof/unknown on both sides
(pddlw (prob C F 0 0 0) (items (_UserType unknown -) (Fluent observe bool) (SensingAction oneof) (InstantaneousAction OBSERVE) (Object Observe 0) (Parameter observe 0 2)))
(pddlw (prob P F 0 0 0) (items (_UserType unknown -) (Fluent observe bool) (InstantaneousAction OBSERVE) (Object Observe 0)))
; MA-PDDL: the fixed keyword set, with and without a durative action
(maw (agents 2) (items (_UserType always -) (Fluent at bool) (Fluent start bool) (Fluent sometime int) (DurativeAction over) (InstantaneousAction within) (Object functions 0) (Parameter duration 0 4) (Parameter all 0 5) (Parameter end 0 2)))
(maw (agents 1) (items (_UserType at -) (Fluent start bool) (InstantaneousAction action-costs) (Object END 0)))
; ANML: discrete time and timed effects make no difference to the (fixed) keyword set
(anml (types (start -)) (fluents (end bool (params)) (duration bool (params (all 0)))) (actions (DurativeAction at (params (start 0)))) (objects (over 0)) (opts T 2))
