; D-C38b (fixed): _is_valid_anml_name only matched a prefix, so "a-b" / "a b" were written unchanged
(anml (types (T -)) (fluents (a-b bool (params)) ("a b" bool (params (x 0)))) (actions) (objects))
; D-C38c (fixed): pre-registration gave a fluent and an object with one name the same ANML name
(anml (types (T -)) (fluents (a bool (params))) (actions (InstantaneousAction a (params (a 0)))) (objects (a 0)))
; D-C38a (fixed): a writer for a temporal problem grew the module-level GENERAL_PDDL_KEYWORDS; the next, non-temporal
; writer then escaped "at"/"start" (both lines together are the regression: keep them in this order)
(pddlw (flags F F T F) (items (_UserType loc -) (Fluent at bool) (DurativeAction start) (Object l1 0) (Parameter x 0 2)))
(pddl (flags F F F F) F (names loc at start l1) (items (_UserType loc -) (Fluent at bool) (InstantaneousAction start) (Object l1 0) (Parameter x 0 2)) (ops (m 1) (m 2) (m 0) (m 3) (m 4) (named at) (named at_) (pname 1)) (write T))
