; fixed-duration round trip, identical instances listed out of time order, parameter- and static-fluent-dependent duration
(case (sfl (d2 3 (((o l1) (o l2)) 7))) (acts (dur a ((int 1 5) (obj) (obj)) (+ (* (p 0) (i 2)) (sf d2 1 2)) (+ (* (p 0) (i 2)) (sf d2 1 2)) F F () ((e 0))) (dur b () (i 2) (i 10) F F (((s 1) (e -1))) ((e -1/2))) (inst c ())) (fwd (ta 0 a ((i 2) (o l1) (o l2)) 11) (ta 3 b () 4) (ta 1 c () none) (ta 0 a ((i 2) (o l1) (o l2)) 11) (ta 0 a ((i 1) (o l2) (o l2)) 5)))
; back-to-back identical instances of a fixed-duration action, later one listed first (DESIGN "C29 rev")
(case (sfl) (acts (dur d () (i 5) (i 5) F F () ((e 0)))) (fwd (ta 5 d () 5) (ta 0 d () 5)))
; overlapping identical instances of a fixed-duration action
(case (sfl) (acts (dur d () (i 5) (i 5) F F () ((e 0)))) (fwd (ta 0 d () 5) (ta 2 d () 5)))
; rational parameter-dependent duration, Boolean and object parameters in the key
(case (sfl) (acts (dur a ((int 1 4) (bool) (obj)) (/ (* (p 0) (r 3/2)) (i 2)) (/ (* (p 0) (r 3/2)) (i 2)) F F () ((s 0)))) (fwd (ta 1 a ((i 2) (b T) (o l1)) 3/2) (ta 0 a ((i 2) (b F) (o l1)) 3/2) (ta 1/2 a ((i 2) (b T) (o l1)) 3/2) (ta 0 a ((i 4) (b T) (o l3)) 3)))
; equal-valued but structurally different bounds: the code treats the duration as variable (end event at start+5)
(case (sfl) (acts (dur a () (i 5) (r 5) F F () ())) (fwd (ta 0 a () 5)))
; variable duration, back-to-back instances listed in reverse: LIFO pairing fails (outside the property's quantifier; model = code)
(case (sfl) (acts (dur b () (i 2) (i 10) F F () ((e 0)))) (fwd (ta 5 b () 5) (ta 0 b () 5)))
; variable duration too short for its first end-relative timing: forward asserts
(case (sfl) (acts (dur b () (i 1) (i 10) F F () ((e -3)))) (fwd (ta 0 b () 2)))
; unknown action: KeyError
(case (sfl) (acts (inst c ())) (fwd (ta 0 zz_unknown () none)))
; static fluent without initial value in a fixed duration: the bound does not simplify to a constant
(case (sfl (w1 none (((o l1)) 2))) (acts (dur a ((obj)) (sf w1 0) (sf w1 0) F F () ())) (fwd (ta 0 a ((o l1)) 2) (ta 0 a ((o l2)) 2)))
; back conversion alone: end without start / two ends / foreign action / open instance
(case (sfl) (acts (dur b () (i 2) (i 10) F F () ((e -1)))) (back (ca 3 end b ())))
(case (sfl) (acts (dur b () (i 2) (i 10) F F () ((e -1)))) (back (ca 0 start b ()) (ca 3 end b ()) (ca 4 end b ())))
(case (sfl) (acts (dur b () (i 2) (i 10) F F () ((e -1)))) (back (ca 0 start b ()) (ca 1 other foreign ())))
(case (sfl) (acts (dur b () (i 2) (i 10) F F () ((e -1)))) (back (ca 0 start b ())))
(case (sfl) (acts (dur b () (i 2) (i 10) F F () ((e -1)))) (back (ca 3 end b ()) (ca 0 start b ()) (ca 3 start b ()) (ca 7 end b ())))
; duration exactly as long as the distance of the first end-relative timing from the end: the end event would coincide with the start; forward asserts
(case (sfl) (acts (dur b () (i 1) (i 10) F F () ((e -2)))) (fwd (ta 0 b () 2)))
(case (sfl) (acts (dur b ((int 1 3)) (p 0) (+ (p 0) (i 4)) F F (((s 1/2) (e -1))) ((e 0))) (inst c ())) (fwd (ta 1 c () none) (ta 2 b ((i 1)) 1) (ta 0 b ((i 1)) 3)))
; overlapping identical instances of a variable-duration action (witness of C29_inverse_variable_full_refuted): LIFO pairing, back asserts
(case (sfl) (acts (dur load () (i 2) (i 10) F F (((s 1) (e -1))) ((e -1/2)))) (fwd (ta 0 load () 5) (ta 2 load () 5)))
; separated instances of a variable-duration action listed in reverse: round trip holds (C29_inverse_variable_partial)
(case (sfl) (acts (dur load () (i 2) (i 10) F F (((s 1) (e -1))) ((e -1/2))) (inst ping ())) (fwd (ta 6 load () 5) (ta 0 load () 5) (ta 1 ping () none)))
