; D-C14a, silent wrong answer: call 0 fails after caching yb->4 and leaves (True, root) on the stack; call 1 drains it with a KeyError; call 2 reuses yb->4 although its map does not mention yb
(hist (reject (div (i 4) (i 0))) (keep 0 ()) (calls (subst (le (div (fl (yb (int 0 10) ())) (fl (dz (int 0 10) ()))) (fl (yb (int 0 10) ()))) (((fl (dz (int 0 10) ())) (i 0) T) ((fl (yb (int 0 10) ())) (i 4) T))) (subst (fl (b0 bool ())) (((fl (b0 bool ())) (b T) T))) (subst (le (fl (x (int _ _) ())) (fl (yb (int 0 10) ()))) (((fl (x (int _ _) ())) (i 3) T)))))
; D-C14a on the bare machinery (the Lean witnessHistory of Props/C14.lean): stale value cached under salt 1 answered under salt 2
(hist (reject) (keep 0 ()) (calls (pinv 1 ((p x bool)) (and (p x bool) (p y bool))) (pinv 2 () (p y bool))))
; D-C14b: the second request for an ill-typed node returns it silently
(hist (reject) (keep 0 ()) (calls (other mk (eq (i 5) (o t1 T))) (other mk (eq (i 5) (o t1 T))) (other type (eq (i 5) (o t1 T)))))
; D-C14a+b: the memoised ill-typed 3/0 makes the type check of its parent fail mid-walk, which poisons the shared type checker: every later construction raises KeyError
(hist (reject) (keep 0 ()) (calls (other mk (div (i 3) (i 0))) (other mk (le (div (i 3) (i 0)) (i 1))) (other mk (and (fl (b0 bool ())) (fl (b1 bool ())))) (subst (fl (b0 bool ())) (((fl (b0 bool ())) (fl (b1 bool ())) T))) (fv (fl (b0 bool ())))))
; minimised from a generated history (seed 0): a failed substitution, then an unrelated one raises KeyError
(hist (reject (div (i 4) (i 0))) (keep 23 ((fl (b1 bool ())))) (calls (subst (or (not (le (i 1) (times (div (i 4) (fl (dz (int 0 10) ()))) (fl (y (int _ _) ()))))) (implies (fl (b1 bool ())) (forall ((q1 (user S))) (eq (p ps (user S)) (o s1 S)))) (fl (b2 bool ()))) (((fl (dz (int 0 10) ())) (i 0) T))) (subst (fl (bs bool ((user S))) (p ps (user S))) (((fl (bs bool ((user S))) (p ps (user S))) (and (fl (b0 bool ())) (fl (b1 bool ()))) T)))))
; a failing simplification (interpreted function without a table entry) followed by an unrelated one
(hist (reject) (keep 0 ()) (calls (other simplify (and (fl (b0 bool ())) (le (ifun (g (int _ _) ((int _ _))) (i 9)) (i 3)))) (other simplify (and (fl (b1 bool ())) (b T))) (pkeep (and (fl (b0 bool ())) (fl (b1 bool ()))))))
; D-C14c: a StateEvaluator whose evaluation met a missing fluent value answers every later evaluation with AssertionError
(hist (reject) (keep 0 ()) (calls (other eval (le (fl (x (int _ _) ())) (fl (y (int _ _) ()))) 5 ((fl (x (int _ _) ())))) (other eval (le (fl (x (int _ _) ())) (fl (y (int _ _) ()))) 5 ()) (other eval (fl (b0 bool ())) 6 ())))
