; reasoning by cases: a fires iff p, b iff not p; [a b] and [b a] are conformant, needs merge of t from both tags
(ground (atoms p t) (actions (a (pre (())) (effs ((((p T))) t T))) (b (pre (())) (effs ((((p F))) t T)))) (goal (((t T)))) (init (states (T F) (F F))) (bounds 4 2))
; cancellation: knowledge of t under the empty tag must be forgotten after a (deletes t iff p)
(ground (atoms p q t) (actions (a (pre (())) (effs ((((p T))) t F))) (b (pre (((t T)))) (effs ((()) q T)))) (goal (((q T)))) (init (states (T F T) (F F T))) (bounds 4 2))
; duplicate state + state differing on an irrelevant atom only: basis keeps one of three
(ground (atoms p q u) (actions (a (pre (((p T)))) (effs ((()) q T)))) (goal (((q T)))) (init (states (T F F) (T F F) (T F T))) (bounds 3 2))
; domination matters: the state where the relevant p is false must be kept (it is the minimal one)
(ground (atoms p q) (actions (a (pre (())) (effs ((((p T))) q T)))) (goal (((q T)))) (init (states (T F) (F F))) (bounds 3 2))
; negative precondition + delete effect + complement rule of the relevance relation
(ground (atoms p q r) (actions (a (pre (((r F)))) (effs ((((p F))) q T))) (b (pre (())) (effs ((((q T))) r F) ((()) p F)))) (goal (((q T) (r F)))) (init (states (T F T) (F F T) (F F F))) (bounds 4 3))
; contingent: oneof over two atoms + unknown third atom -> 4 states
(ground (atoms p q r) (actions (a (pre (())) (effs ((((p T))) r T))) (b (pre (())) (effs ((((q T))) r T)))) (goal (((r T)))) (init (contingent (known F F F) (cons (oneof (p T) (q T)) (unknown r)))) (bounds 4 2))
; contingent: oneof with a negative literal, overlapping or-constraint
(ground (atoms p q) (actions (a (pre (())) (effs ((((p F))) q T)))) (goal (((q T)))) (init (contingent (known F F) (cons (oneof (p F) (q T)) (or (p T) (q T))))) (bounds 3 2))
; contingent: unsatisfiable constraints (repeated literal can never be "exactly one") -> refusal expected
(ground (atoms p q) (actions (a (pre (())) (effs ((()) q T)))) (goal (((q T)))) (init (contingent (known F F) (cons (oneof (p T) (p T))))) (bounds 3 2))
; explicit empty state set -> refusal expected
(ground (atoms p q) (actions (a (pre (())) (effs ((()) q T)))) (goal (((q T)))) (init (states)) (bounds 3 2))
; action named like a merge action / a knowledge fluent (fresh-name handling)
(ground (atoms p q) (actions (merge_p (pre (((p T)))) (effs ((()) q T))) (K_p_empty (pre (())) (effs ((()) p T)))) (goal (((q T)))) (init (states (F F) (T F))) (bounds 4 2))
; lifted: universal precondition, forall effect, existential effect condition
(lifted (objs o1 o2) (fluents (p 1) (q 1) (r 0) (g 0)) (actions (a (params x) (pre (forall y (lit F q y))) (effs (eff (vars w) (lit T p w) (q w) T))) (b (params) (pre) (effs (eff (vars) (exists y (lit T q y)) (g) T)))) (goals (lit T g)) (init (states ((p o1)) ((p o2)) ((p o1) (p o2)))) (bounds 3 2))
; relevance chain through the complement rule: a -> b is a direct effect edge, b -> c exists only as the complement of
; (not b) -> (not c); if the closure is not re-run after the complement rule, a is not relevant to c, s1 is dropped
; from the basis although it is not dominated, and the compiled problem accepts [prepare finish], which fails from s1
(ground (atoms a b c d) (actions (prepare (pre (())) (effs ((((a T))) b T))) (finish (pre (())) (effs ((()) d T) ((((b F))) c F)))) (goal (((c T) (d T)))) (init (states (T F T F) (F F T F))) (bounds 4 2))
