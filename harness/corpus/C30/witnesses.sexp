; D-C30-disjunctive (open finding): [act] is conformant (a1 holds in one state, b1 in the other) but the compiled problem is unsolvable
(ground (atoms a1 b1 g) (actions (act (pre (((a1 T)) ((b1 T)))) (effs ((()) g T)))) (goal (((g T)))) (init (states (T F F) (F T F))) (bounds 3 2))
; same cause through a disjunctive goal: the empty plan is conformant
(ground (atoms p q) (actions (a (pre (())) (effs ((((p T))) q T)))) (goal (((p T)) ((q T)))) (init (states (T F) (F T))) (bounds 3 2))
; fixed by notes/patches/C30-normalize-hidden-disjunctions.patch: effect condition Not(And(r, p(o1))) made the compiler refuse the problem
(lifted (objs o1 o2) (fluents (p 1) (q 1) (r 0) (g 0)) (actions (a (params) (pre) (effs (eff (vars) (not (and (lit T r) (lit T p o1))) (g) T)))) (goals (lit T g)) (init (states ((r)) ((p o1)))) (bounds 3 2))
