; D-C09a: `iff` is not reported by Problem.kind; DisjunctiveConditionsRemover / NegativeConditionsRemover expose NEGATIVE / DISJUNCTIVE conditions
(probs (ex counter))
