; D-C23: add_fluent(default_initial_value=5) on a Boolean fluent; int default for a real fluent is legitimate
(hist (env (types (T _) (S T) (U _) (W T) (V W)) (eun T) (tytab) (simp)) (new p ()) (pre (add-fluent (b0 bool ()) (i 5)) (add-fluent (z (real _ _) ()) (i 1)) (add-fluent (xb (int 0 4) ()) (i 7)) (add-fluent (xb (int 0 4) ()) (i 4))) (post))
; D-C23: Problem(initial_defaults={Bool: 5})
(hist (env (types (T _) (S T) (U _) (W T) (V W)) (eun T) (tytab) (simp)) (new p ((bool (i 5)))) (pre) (post))
; D-C23: Problem(initial_defaults={Bool: <fluent expression>})
(hist (env (types (T _) (S T) (U _) (W T) (V W)) (eun T) (tytab) (simp)) (new p ((bool (fl (b0 bool ()))))) (pre (add-fluent (b0 bool ()) _)) (post))
; D-C23: set_initial_value(x, y) stores a non-constant value; per-type defaults reach new fluents
(hist (env (types (T _) (S T) (U _) (W T) (V W)) (eun T) (tytab) (simp)) (new p ((bool (b F)) ((int _ _) (i 0)))) (pre (add-fluent (x (int _ _) ()) _) (add-fluent (y (int _ _) ()) _) (set-init (fl (x (int _ _) ())) (fl (y (int _ _) ()))) (set-init (fl (x (int _ _) ())) (i 3)) (set-init (fl (x (int _ _) ())) (b T)) (add-fluent (b1 bool ()) _)) (post))
; ActionInstance: compatible constants only
(inst (env (types (T _) (S T) (U _) (W T) (V W)) (eun T) (tytab) (simp)) ((p0 bool) (p1 (int 0 3)) (p2 (user T))) ((b T) (i 3) (o s1 S)))
; ActionInstance: out of the bounds
(inst (env (types (T _) (S T) (U _) (W T) (V W)) (eun T) (tytab) (simp)) ((p1 (int 0 3))) ((i 4)))
