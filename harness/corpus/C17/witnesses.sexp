; C17 corpus: defect witness D-C17 (repaired by notes/patches/C17-linear-checker-divisor-sign.patch) and regression cases
; D-C17: z / pi with pi in [-5,-1] was reported increasing in z
(lin (types (T _)) (objects (t1 T) (t2 T)) none (div (fl (z (real _ _) ())) (p pi (int -5 -1))))
; D-C17 sibling: (pi * x) / pi is x, was reported decreasing in x
(lin (types (T _)) (objects (t1 T) (t2 T)) none (div (times (p pi (int -5 -1)) (fl (x (int _ _) ()))) (p pi (int -5 -1))))
; divisor negative by interval arithmetic: pk - 7 in [-6,-2]
(lin (types (T _)) (objects (t1 T) (t2 T)) none (div (fl (x (int _ _) ())) (minus (p pk (int 1 5)) (i 7))))
; divisor of unknown sign: both sets
(lin (types (T _)) (objects (t1 T) (t2 T)) none (div (minus (fl (x (int _ _) ())) (fl (y (int 0 10) ()))) (p pm (int -3 4))))
; constant negative divisor and rational divisor
(lin (types (T _)) (objects (t1 T) (t2 T)) none (div (fl (x (int _ _) ())) (r -1/2)))
; two negative factors cancel; nested product flattened by the simplifier
(lin (types (T _)) (objects (t1 T) (t2 T)) none (times (fl (z (real _ _) ())) (times (p pi (int -5 -1)) (p pn (real -7/2 -1/2)))))
; nested subtraction
(lin (types (T _)) (objects (t1 T) (t2 T)) none (minus (fl (x (int _ _) ())) (minus (fl (y (int 0 10) ())) (fl (z (real _ _) ())))))
; products of two fluent-dependent factors / fluent-dependent divisor
(lin (types (T _)) (objects (t1 T) (t2 T)) none (plus (times (fl (x (int _ _) ())) (minus (fl (y (int 0 10) ())) (fl (y (int 0 10) ())))) (p pj (int _ _))))
(lin (types (T _)) (objects (t1 T) (t2 T)) none (div (p pk (int 1 5)) (plus (fl (y (int 0 10) ())) (i 20))))
; 0 * x * y folds to the constant 0
(lin (types (T _)) (objects (t1 T) (t2 T)) none (times (i 0) (fl (x (int _ _) ())) (fl (y (int 0 10) ()))))
; a static negative fluent as a factor / divisor (replaced by its initial value)
(lin (types (T _)) (objects (t1 T) (t2 T)) (problem (fluents ((k (int -4 -2) ()) (i -3) static) ((x (int _ _) ()) _ dynamic)) (init)) (div (fl (x (int _ _) ())) (fl (k (int -4 -2) ()))))
(lin (types (T _)) (objects (t1 T) (t2 T)) (problem (fluents ((c (int 1 3) ((user T))) _ static) ((x (int _ _) ()) _ dynamic)) (init ((fl (c (int 1 3) ((user T))) (o t1 T)) (i 2)))) (times (fl (c (int 1 3) ((user T))) (o t2 T)) (fl (x (int _ _) ())) (fl (c (int 1 3) ((user T))) (o t1 T))))
; constants beyond the float range
(lin (types (T _)) (objects (t1 T) (t2 T)) none (times (fl (y (int 0 10) ())) (i -10000000000000000000000000000000000000000000000000000000000000000000000000000000000000000000000000000000000000000000000000000000000000000000000000000000000000000000000000000000000000000000000000000000000000000000000000000000000000000000000000000000000000000000000000000000000000000000000000000000000000000000000000000000000000000000000000000000000000000000000000000000000000000000000000000000000000000000000000000000000000000000000000000000000000)))
