; C17 corpus: the sign of a fluent-free factor / divisor decided by INTERVAL INFERENCE over bounded parameters
; (class of seeded change C17-2: TypeChecker.walk_minus upper bound a.upper - b.upper; LinearChecker._sign trusts the interval)
; (p - q) * f, p in [0,5], q in [0,10]: p - q in [-10,5], sign unknown -> f in both sets
(lin (types (T _)) (objects (t1 T) (t2 T)) none (times (minus (p p (int 0 5)) (p q (int 0 10))) (fl (f (int 0 3) ()))))
; g - (r - p) * f, r in [1,3], p in [0,5]: r - p in [-4,3]
(lin (types (T _)) (objects (t1 T) (t2 T)) none (minus (fl (g (int -2 2) ())) (times (minus (p r (int 1 3)) (p p (int 0 5))) (fl (f (int 0 3) ())))))
; f / (q - 11), q in [0,10]: divisor in [-11,-1], negative
(lin (types (T _)) (objects (t1 T) (t2 T)) none (div (fl (f (int 0 3) ())) (minus (p q (int 0 10)) (i 11))))
; (s - r) * f, s in [-3,-1], r in [1,3]: [-6,-2], negative
(lin (types (T _)) (objects (t1 T) (t2 T)) none (times (minus (p s (int -3 -1)) (p r (int 1 3))) (fl (f (int 0 3) ()))))
; tight: p - q with p in [6,9], q in [0,5]: [1,9] positive only because 6 - 5 = 1; and [5,9] - [0,5] touches 0
(lin (types (T _)) (objects (t1 T) (t2 T)) none (times (fl (f (int 0 3) ())) (minus (p p (int 6 9)) (p q (int 0 5)))))
(lin (types (T _)) (objects (t1 T) (t2 T)) none (times (fl (f (int 0 3) ())) (minus (p p (int 5 9)) (p q (int 0 5)))))
; tight on the other side: [0,4] - [5,9] = [-9,-1] negative, [0,5] - [5,9] touches 0
(lin (types (T _)) (objects (t1 T) (t2 T)) none (div (fl (f (int 0 3) ())) (minus (p p (int 0 4)) (p q (int 5 9)))))
(lin (types (T _)) (objects (t1 T) (t2 T)) none (div (fl (f (int 0 3) ())) (minus (p p (int 0 5)) (p q (int 5 9)))))
; product interval needs all four corner products: a*b + 2 with a in [1,3], b in [-4,-1] is in [-10,1]
(lin (types (T _)) (objects (t1 T) (t2 T)) none (times (fl (f (int 0 3) ())) (plus (times (p a (int 1 3)) (p b (int -4 -1))) (i 2))))
; divisor a*b with both factors straddling 0: [-8,12]
(lin (types (T _)) (objects (t1 T) (t2 T)) none (div (fl (f (int 0 3) ())) (times (p a (int -2 3)) (p b (int -1 4)))))
; a*b - c with a,b negative: [2,12] - [1,1]
(lin (types (T _)) (objects (t1 T) (t2 T)) none (times (minus (times (p a (int -3 -1)) (p b (int -4 -2))) (i 1)) (fl (f (int 0 3) ()))))
; 3-ary sum of parameters minus a constant: [1,9] - 1 touches 0, - 0 is positive
(lin (types (T _)) (objects (t1 T) (t2 T)) none (times (fl (f (int 0 3) ())) (minus (plus (p a (int 0 3)) (p b (int 1 2)) (p c (int 0 4))) (i 1))))
(lin (types (T _)) (objects (t1 T) (t2 T)) none (times (fl (f (int 0 3) ())) (plus (p a (int 0 3)) (p b (int 1 2)) (p c (int 0 4)))))
; quotient of a difference by a negative constant swaps the bounds: ([1,4] - [0,0]) / -2 in [-2,-1/2]
(lin (types (T _)) (objects (t1 T) (t2 T)) none (times (div (minus (p a (int 1 4)) (p z (int 0 0))) (i -2)) (fl (f (int 0 3) ()))))
; ... and by a point-typed parameter
(lin (types (T _)) (objects (t1 T) (t2 T)) none (div (fl (f (int 0 3) ())) (div (p a (int 1 4)) (p m (int -1 -1)))))
; touching 0: p in [0,5] is not strictly positive (factor and divisor)
(lin (types (T _)) (objects (t1 T) (t2 T)) none (times (p p (int 0 5)) (fl (f (int 0 3) ()))))
(lin (types (T _)) (objects (t1 T) (t2 T)) none (div (fl (f (int 0 3) ())) (p p (int -5 0))))
; one-sided types give no sign even when the finite bound is on the right side of 0
(lin (types (T _)) (objects (t1 T) (t2 T)) none (times (minus (i 0) (p a (int _ 2))) (fl (f (int 0 3) ()))))
(lin (types (T _)) (objects (t1 T) (t2 T)) none (times (p a (int 2 _)) (fl (f (int 0 3) ()))))
; mixed int / real difference
(lin (types (T _)) (objects (t1 T) (t2 T)) none (times (minus (p a (real -3/2 1)) (p b (int 2 4))) (fl (f (real 0 5/2) ()))))
(lin (types (T _)) (objects (t1 T) (t2 T)) none (times (minus (p b (int 2 4)) (p a (real -3/2 2))) (fl (f (real 0 5/2) ()))))
; the same parameter twice: p - p is 0 but its interval is [-5,5]
(lin (types (T _)) (objects (t1 T) (t2 T)) none (times (minus (p p (int 0 5)) (p p (int 0 5))) (fl (f (int 0 3) ()))))
; two interval-signed factors cancel: (a - b) * f * (c - d) with both differences negative
(lin (types (T _)) (objects (t1 T) (t2 T)) none (times (minus (p a (int 0 2)) (p b (int 3 5))) (fl (f (int 0 3) ())) (minus (p c (int -4 -3)) (p d (int -2 0)))))
