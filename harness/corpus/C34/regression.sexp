; D-C34 witness: chain t0<t1<t2 plus the redundant precedence (t0,t2): the unrepaired TotalOrder dropped (t0,t2) from partial_order()
(net (t0 t1 t2) ((lt (tm E (c t0) 0 1) (tm S (c t1) 0 1)) (lt (tm E (c t1) 0 1) (tm S (c t2) 0 1)) (lt (tm E (c t0) 0 1) (tm S (c t2) 0 1))))
(rel 3 0 11)
; empty network and single subtask are total orders
(net () ())
(net (a) ())
; self-precedence: a set of precedences, no linear ordering
(net (a b) ((lt (tm E (c a) 0 1) (tm S (c a) 0 1))))
; two-cycle
(rel 2 0 3)
; the precedence in its other spellings (GT, double negation, zero Fraction delay), deduplicated by add_constraint
(net (a b) ((gt (tm S (c b) 0 1) (tm E (c a) 0 1)) (not (not (lt (tm E (c a) 0 7) (tm S (c b) 0 1)))) (lt (tm E (c a) 0 1) (tm S (c b) 0 1))))
; a delayed constraint AFTER valid precedences, and BEFORE them
(net (a b c) ((lt (tm E (c a) 0 1) (tm S (c b) 0 1)) (lt (tm E (c b) 3 1) (tm S (c c) 0 1))))
(net (a b c) ((lt (tm E (c b) 0 1) (tm S (c c) -1 2)) (lt (tm E (c a) 0 1) (tm S (c b) 0 1))))
; <=, start-start, disjunction, comparison with a constant, container-less timepoint
(net (a b) ((le (tm E (c a) 0 1) (tm S (c b) 0 1))))
(net (a b) ((lt (tm S (c a) 0 1) (tm S (c b) 0 1))))
(net (a b) ((or (lt (tm E (c a) 0 1) (tm S (c b) 0 1)) (lt (tm E (c b) 0 1) (tm S (c a) 0 1)))))
(net (a b) ((lt (tm E (c a) 0 1) (int 5))))
(net (a b) ((lt (tm E (c) 0 1) (tm S (c b) 0 1))))
; non-temporal LT and TRUE do not matter
(net (a b) ((lt (int 1) (int 2)) (true) (lt (tm E (c a) 0 1) (tm S (c b) 0 1))))
; precedence on a foreign container (correspondence only)
(net (a b) ((lt (tm E (c zz) 0 1) (tm S (c a) 0 1)) (lt (tm E (c a) 0 1) (tm S (c b) 0 1))))
(net (a b) ((lt (tm E (c a) 0 1) (tm S (c zz) 0 1)) (lt (tm E (c a) 0 1) (tm S (c b) 0 1))))
; repeated identifier is rejected
(net (a b a) ())
