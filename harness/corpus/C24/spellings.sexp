; time points written in different accepted forms within one history (model Core/ConflictsTimed, payload head thist)
; shape of the seeded change C24-2: simulated effect set at the Timing, conflicting increase added at the Timepoint; and the reverse order
(thist da (timings (tm s - 0 1)) (ops (sim (timing s - 0 1 ctor int) (x)) (eff (timepoint s - tp) inc x N (int 1) T)))
(thist da (timings (tm s - 0 1)) (ops (eff (timepoint s - tp) inc x N (int 1) T) (sim (timing s - 0 1 ctor int) (x))))
; the same with a global time written as a plain number / Fraction / float
(thist da (timings (tm gs - 5 1)) (ops (sim (timing gs - 5 1 ctor int) (x z)) (eff (num 5 1 int) assign x N (int 1) T) (eff (num 5 1 frac) dec z N (int 2) T) (eff (num 5 1 float) assign y N (int 0) T)))
(thist da (timings (tm gs - 7 2)) (ops (eff (num 7 2 float) assign x N (int 1) T) (sim (timing gs - 7 2 ctor str) (x)) (eff (timing gs - 7 2 split frac) assign x N (int 2) T) (eff (num 7 2 frac) assign x N (int 1) T)))
; scheduling activity: activity.start (a Timepoint with container) vs StartTiming(container=...) vs StartTiming() (another time point)
(thist act (timings (tm s act1 0 1) (tm s - 0 1)) (ops (sim (timing s act1 0 1 ctor frac) (x)) (eff (timepoint s act1 attr) inc x N (int 1) T) (eff (timepoint s - tp) inc x N (int 1) T) (eff (timing s act1 0 1 attrplus int) assign x N (int 3) T)))
(thist act (timings (tm e act1 -2 1)) (ops (eff (timing e act1 -2 1 attrplus int) assign z N (int 1) T) (eff (timing e act1 -2 1 tpminus frac) assign z N (int 2) T) (sim (timing e act1 -2 1 minus float) (z)) (eff (timing e act1 -2 1 raw str) assign z N (int 1) T)))
; scheduling problem (base chronicle): number vs GlobalStartTiming vs the global-start Timepoint; near miss: the activity's start
(thist sp (timings (tm gs - 0 1) (tm s act1 0 1)) (ops (eff (num 0 1 int) assign x N (int 1) T) (eff (timepoint gs - tp) inc x N (int 1) T) (eff (timepoint s act1 attr) inc x N (int 1) T) (eff (timing gs - 0 1 ctor float) assign x N (int 2) T) (eff (timing s act1 0 1 ctor str) assign x N (int 2) T)))
; problem timed effects: one delay as int / Fraction / float / str
(thist pb (timings (tm gs - 5 1) (tm gs - 7 2)) (ops (eff (timing gs - 5 1 ctor int) assign x N (int 1) T) (eff (timing gs - 5 1 ctor frac) inc x N (int 1) T) (eff (timing gs - 7 2 ctor float) inc x N (int 1) T) (eff (timing gs - 7 2 plus frac) assign x N (int 1) T) (eff (timing gs - 5 1 split float) assign x N (int 1) T) (eff (timing gs - 5 1 raw str) assign x N (int 2) T)))
