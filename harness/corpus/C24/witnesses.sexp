; D-C24 witness: the rejected increase of x (conflict with the simulated effect) used to stay recorded in
; fluents_inc_dec; after the simulated effect is replaced, the assignment to x must be accepted
(hist ia (timings now) (ops (sim now (x)) (eff now inc x N (int 1) T) (sim now (y)) (eff now assign x N (int 1) T)))
; same residue made visible without a second simulated effect: bookkeeping after the rejected decrease
(hist ev (timings now) (ops (sim now (x z)) (eff now dec z N (sym x*2) T) (eff now assign y N (int 0) T)))
; durative action, two timings interleaved; the residue would be at start+1 only
(hist da (timings start start+1) (ops (sim start+1 (y)) (eff start inc y N (int 2) T) (eff start+1 inc y N (real 1 2) T) (eff start+1 inc y N (int 2) (c c1)) (sim start (y)) (eff start+1 assign x N (int 1) T)))
; same number as int and as (unnormalised) real constant is the same assignment; a third different value conflicts
(hist ia (timings now) (ops (eff now assign y N (int 1) T) (eff now assign y N (real 2 2) T) (eff now assign y N (real 1 2) T) (eff now assign y N (real 3 3) T)))
; conditional and Boolean effects are never tracked, also under a tautological condition
(hist ia (timings now) (ops (eff now assign x N (int 1) T) (eff now inc x N (int 1) (c taut)) (eff now assign x N (int 2) (c c1)) (eff now assign b B (bool T) T) (eff now assign b B (bool F) T) (sim now (b x))))
; two simulated effects at one time point: replacement (outside the symmetric class)
(hist ia (timings now) (ops (sim now (x)) (sim now (y)) (eff now assign x N (int 1) T)))
(hist ia (timings now) (ops (sim now (y)) (sim now (x)) (eff now assign x N (int 1) T)))
; problem timed effects
(hist pb (timings g5 g0) (ops (eff g5 assign x N (int 7) T) (eff g0 inc x N (int 1) T) (eff g5 inc x N (int 1) T) (eff g5 assign x N (int 7) T) (eff g0 assign x N (sym z+1) T) (eff g5 dec w_l1 N (int 3) T) (eff g5 assign w_l2 N (int 3) T) (eff g5 assign w_l1 N (int 3) T)))
; user-typed and non-constant values
(hist ia (timings now) (ops (eff now assign loc N (obj l1) T) (eff now assign loc N (obj l1) T) (eff now assign loc N (sym loc2) T) (eff now assign x N (sym z+1) T) (eff now assign x N (sym z+1) T) (eff now assign x N (sym z) T)))
