; C25 regression / witness cases (one per line).  No defect was found on the unchanged tree; these pin the corners
; that reading the code singled out.
; (1) _inc_check's `n.dst == y and n.bound == b` test does not look at the source node: another node with an edge of the
;     same bound into y (here c -> a with bound -1 while inserting b -> a with bound -1)
(hist (add 0 c a -1) (add 0 a c 1) (add 0 a b 2) (add 0 b a -1) (add 0 b a -2) (add 0 b a -3))
; (2) negative self loop, zero self loop, positive self loop
(hist (add 0 a a 0) (add 0 a a 3) (copy 0) (add 1 a a -1) (add 0 a b -2) (add 0 b b 0))
; (3) subsumption: looser re-insertion dropped, tighter one shadows, equal one dropped; get_constraints shows the newest only
(hist (add 0 a b 5) (add 0 a b 7) (add 0 a b 5) (add 0 a b 3) (add 0 a b 4) (add 0 b a -3) (add 0 b a -7/2))
; (4) copies diverge, copies of copies, insertion after inconsistency is ignored
(hist (add 0 b a -2) (copy 0) (add 1 a b 1) (add 1 c a 4) (add 0 c b -3) (copy 0) (copy 2) (add 2 a c 4) (add 3 a c 5) (add 0 a c 6))
; (5) long propagation chain lowered twice, rational and huge bounds, Fraction with denominator 1
(hist (add 0 b a -1/3) (add 0 c b -1/3) (add 0 d c -1/3) (add 0 e d -1/3) (add 0 a f -100000000000000000001) (add 0 a e 100000000000000000003) (add 0 f e 5/1) (add 0 a e 100000000000000000002))
; (6) zero-weight cycle (consistent, queue must drain) then the same cycle made negative
(hist (add 0 a b 2) (add 0 b c -1) (add 0 c a -1) (copy 0) (add 1 c a -2) (add 0 d a -3))
; (7) every one-step extension of a 3-cycle with slack 0
(tree (pre (a b 1) (b c 1) (c a -2)) (ext (a b 0) (a b 1) (b a -1) (b a -2) (a c 2) (a c 1) (c c -1) (c c 0) (a d -3) (d a -3) (d b 3)))
