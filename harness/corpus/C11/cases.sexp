; C11 corpus: defect witnesses (D-C11a-d,f,h repaired by notes/patches/C11-simplifier-soundness.patch; D-C11e known finding) and regression cases
; D-C11a exact integer division above 2**53 (was int(l / r) through float)
(simp (types (T _) (S T) (U _) (E _) (R T)) (objects (t1 T) (t2 T) (s1 S) (s2 S) (u1 U) (r1 R)) none (funs) (div (i 3458764513820540931) (i 3)))
; D-C11a with 10**30
(simp (types (T _) (S T) (U _) (E _) (R T)) (objects (t1 T) (t2 T) (s1 S) (s2 S) (u1 U) (r1 R)) none (funs) (le (div (i 7000000000000000000000000000000) (i 7)) (fl (x (int _ _) ()))))
; constants of 400 digits
(simp (types (T _) (S T) (U _) (E _) (R T)) (objects (t1 T) (t2 T) (s1 S) (s2 S) (u1 U) (r1 R)) none (funs) (le (plus (i 10000000000000000000000000000000000000000000000000000000000000000000000000000000000000000000000000000000000000000000000000000000000000000000000000000000000000000000000000000000000000000000000000000000000000000000000000000000000000000000000000000000000000000000000000000000000000000000000000000000000000000000000000000000000000000000000000000000000000000000000000000000000000000000000000000000000000000) (i 1)) (minus (i 10000000000000000000000000000000000000000000000000000000000000000000000000000000000000000000000000000000000000000000000000000000000000000000000000000000000000000000000000000000000000000000000000000000000000000000000000000000000000000000000000000000000000000000000000000000000000000000000000000000000000000000000000000000000000000000000000000000000000000000000000000000000000000000000000000000000000000) (i -1))))
; D-C11b v == nx(v): the value mentions the variable, no elimination
(simp (types (T _) (S T) (U _) (E _) (R T)) (objects (t1 T) (t2 T) (s1 S) (s2 S) (u1 U) (r1 R)) none (funs) (exists ((q1 (user S))) (and (eq (v q1 (user S)) (fl (nx (user S) ((user S))) (v q1 (user S)))) (fl (bs bool ((user S))) (v q1 (user S))))))
; D-C11c elimination followed by a constant fold (idempotence)
(simp (types (T _) (S T) (U _) (E _) (R T)) (objects (t1 T) (t2 T) (s1 S) (s2 S) (u1 U) (r1 R)) none (funs) (exists ((q1 (user S))) (and (eq (v q1 (user S)) (o s1 S)) (not (eq (v q1 (user S)) (o s2 S))))))
; D-C11c a second variable vanishes after the elimination
(simp (types (T _) (S T) (U _) (E _) (R T)) (objects (t1 T) (t2 T) (s1 S) (s2 S) (u1 U) (r1 R)) none (funs) (exists ((q1 (user S)) (q2 (user S))) (and (eq (o s1 S) (v q1 (user S))) (or (fl (bs bool ((user S))) (v q2 (user S))) (not (eq (v q1 (user S)) (o s2 S)))))))
; D-C11d value of a strict supertype: UPTypeError before the patch
(simp (types (T _) (S T) (U _) (E _) (R T)) (objects (t1 T) (t2 T) (s1 S) (s2 S) (u1 U) (r1 R)) none (funs) (exists ((q1 (user S))) (and (eq (v q1 (user S)) (p pt (user T))) (fl (bs bool ((user S))) (v q1 (user S))))))
; D-C11f e - (-c) with a sum on the left (was not idempotent)
(simp (types (T _) (S T) (U _) (E _) (R T)) (objects (t1 T) (t2 T) (s1 S) (s2 S) (u1 U) (r1 R)) none (funs) (minus (plus (fl (x (int _ _) ())) (i 2)) (i -3)))
; D-C11f nested
(simp (types (T _) (S T) (U _) (E _) (R T)) (objects (t1 T) (t2 T) (s1 S) (s2 S) (u1 U) (r1 R)) none (funs) (lt (minus (plus (fl (x (int _ _) ())) (fl (y (int _ _) ()))) (r -1/2)) (plus (minus (fl (x (int _ _) ())) (i -2)) (i 5))))
; D-C11h capture: a free variable of the value is rebound inside the body
(simp (types (T _) (S T) (U _) (E _) (R T)) (objects (t1 T) (t2 T) (s1 S) (s2 S) (u1 U) (r1 R)) none (funs) (forall ((q4 (user S))) (exists ((q1 (user S))) (and (eq (v q1 (user S)) (v q4 (user S))) (exists ((q4 (user S))) (fl (q2 bool ((user S) (user S))) (v q1 (user S)) (v q4 (user S))))))))
; D-C11e (known finding) quantifier over the object-less type E dropped
(simp (types (T _) (S T) (U _) (E _) (R T)) (objects (t1 T) (t2 T) (s1 S) (s2 S) (u1 U) (r1 R)) none (funs) (forall ((q1 (user E))) (and (fl (b0 bool ())) (eq (v q1 (user E)) (v q1 (user E))))))
; D-C11e exists
(simp (types (T _) (S T) (U _) (E _) (R T)) (objects (t1 T) (t2 T) (s1 S) (s2 S) (u1 U) (r1 R)) none (funs) (exists ((q1 (user E))) (fl (b0 bool ()))))
; sibling types: always false
(simp (types (T _) (S T) (U _) (E _) (R T)) (objects (t1 T) (t2 T) (s1 S) (s2 S) (u1 U) (r1 R)) none (funs) (eq (fl (nx (user S) ((user S))) (o s1 S)) (o r1 R)))
; nested elimination enabled by an outer one
(simp (types (T _) (S T) (U _) (E _) (R T)) (objects (t1 T) (t2 T) (s1 S) (s2 S) (u1 U) (r1 R)) none (funs) (exists ((q1 (user T))) (and (eq (v q1 (user T)) (o s1 S)) (exists ((q4 (user S))) (and (eq (v q4 (user S)) (v q1 (user T))) (fl (bs bool ((user S))) (v q4 (user S))))))))
; static fluent folded, then constant folding above it
(simp (types (T _) (S T) (U _) (E _) (R T)) (objects (t1 T) (t2 T) (s1 S) (s2 S) (u1 U) (r1 R)) (problem (fluents ((x (int _ _) ()) _ static) ((y (int _ _) ()) (i 7) dynamic)) (init ((fl (x (int _ _) ())) (i 1000000000000000000000000000000)))) (funs) (le (plus (fl (x (int _ _) ())) (i 1)) (times (i 2) (fl (y (int _ _) ())))))
; static fluent without initial value stays
(simp (types (T _) (S T) (U _) (E _) (R T)) (objects (t1 T) (t2 T) (s1 S) (s2 S) (u1 U) (r1 R)) (problem (fluents ((b0 bool ()) _ static) ((x (int _ _) ()) (i 0) static)) (init)) (funs) (and (fl (b0 bool ())) (le (fl (x (int _ _) ())) (i 1))))
; interpreted functions on constants
(simp (types (T _) (S T) (U _) (E _) (R T)) (objects (t1 T) (t2 T) (s1 S) (s2 S) (u1 U) (r1 R)) none (funs ((gb bool ((int _ _))) ((n 5)) (b T)) ((g (int _ _) ((int _ _))) ((n 4)) (i 9007199254740993))) (and (ifun (gb bool ((int _ _))) (plus (i 2) (i 3))) (le (ifun (g (int _ _) ((int _ _))) (i 4)) (fl (x (int _ _) ())))))
; interpreted function without table entry
(simp (types (T _) (S T) (U _) (E _) (R T)) (objects (t1 T) (t2 T) (s1 S) (s2 S) (u1 U) (r1 R)) none (funs) (ifun (gb bool ((int _ _))) (i 77)))
; division of constants by a zero that appears after folding
(simp (types (T _) (S T) (U _) (E _) (R T)) (objects (t1 T) (t2 T) (s1 S) (s2 S) (u1 U) (r1 R)) (problem (fluents ((x (int _ _) ()) _ static) ((y (int _ _) ()) _ dynamic)) (init ((fl (x (int _ _) ())) (i 0)))) (funs) (le (div (i 4) (fl (x (int _ _) ()))) (fl (y (int _ _) ()))))
; duplicate / complementary literals, flattening
(simp (types (T _) (S T) (U _) (E _) (R T)) (objects (t1 T) (t2 T) (s1 S) (s2 S) (u1 U) (r1 R)) none (funs) (and (fl (b0 bool ())) (and (fl (b1 bool ())) (fl (b0 bool ()))) (not (fl (b1 bool ())))))
; or: complementary after flattening
(simp (types (T _) (S T) (U _) (E _) (R T)) (objects (t1 T) (t2 T) (s1 S) (s2 S) (u1 U) (r1 R)) none (funs) (or (or (fl (b0 bool ())) (fl (b1 bool ()))) (not (fl (b0 bool ())))))
; temporal operators are only constant-folded
(simp (types (T _) (S T) (U _) (E _) (R T)) (objects (t1 T) (t2 T) (s1 S) (s2 S) (u1 U) (r1 R)) none (funs) (and (always (or (fl (b0 bool ())) (b T))) (sometime-after (b T) (fl (b0 bool ()))) (at-most-once (fl (b0 bool ())))))
; real accumulation keeps Fraction(1) a real
(simp (types (T _) (S T) (U _) (E _) (R T)) (objects (t1 T) (t2 T) (s1 S) (s2 S) (u1 U) (r1 R)) none (funs) (plus (r 1/2) (fl (x (int _ _) ())) (r 1/2)))
; times with zero
(simp (types (T _) (S T) (U _) (E _) (R T)) (objects (t1 T) (t2 T) (s1 S) (s2 S) (u1 U) (r1 R)) none (funs) (times (fl (x (int _ _) ())) (times (fl (y (int _ _) ())) (i 0)) (div (fl (x (int _ _) ())) (fl (y (int _ _) ())))))
