; the non-vacuity example of Props/C26.lean (open over-all condition, b between a's start and end)
(c26 (eps -) (fl (p0 F) (p1 F)) (acts (d a (dur 2 2 F F) (cond ((S 0) (E 0) T T (p0 T))) (eff ((S 0) (p0 T)) ((E 0) (p0 F)))) (i b (pre (p0 T)) (eff (p1 T)))) (teff) (tgoal) (goal (p1 T)) (plan (1 a 2) (2 b -)))
; the same, listed out of time order
(c26 (eps -) (fl (p0 F) (p1 F)) (acts (d a (dur 2 2 F F) (cond ((S 0) (E 0) T T (p0 T))) (eff ((S 0) (p0 T)) ((E 0) (p0 F)))) (i b (pre (p0 T)) (eff (p1 T)))) (teff) (tgoal) (goal (p1 T)) (plan (2 b -) (1 a 2)))
; test_ttp_to_stn.py's simultaneity problem: three simultaneous durative actions, ends interfere pairwise, timed effect at 5
(c26 (eps -) (fl (x T) (y T) (z T) (k F)) (acts (d a (dur 1 1 F F) (cond ((S 0) (E 0) F F (y T)) ((S 0) (S 0) F F (k T))) (eff ((E 0) (x F)))) (d b (dur 1 1 F F) (cond ((S 0) (E 0) F F (x T))) (eff ((E 0) (y F)))) (d c (dur 1 1 F F) (cond ((S 0) (E 0) F F (z T))) (eff ((E 0) (z F))))) (teff (5 (k T))) (tgoal) (goal (x F) (y F) (z F) (k T)) (plan (6 a 1) (6 b 1) (6 c 1)))
; zero-duration action whose start and end effects merge into one event (delete before add)
(c26 (eps -) (fl (p0 T)) (acts (d a1 (dur 0 0 F F) (cond) (eff ((S 0) (p0 F)) ((E 0) (p0 T))))) (teff) (tgoal) (goal (p0 T)) (plan (1 a1 0)))
; the same action three times, two of them simultaneous; intermediate effects; explicit small epsilon
(c26 (eps 1/40) (fl (p0 F) (n0 0)) (acts (d a0 (dur 1 2 F F) (cond ((S 1/4) (E 0) F T (n0 ge 0))) (eff ((S 1/4) (n0 inc 1)) ((E -1/4) (n0 inc 1)) ((E 0) (p0 T))))) (teff) (tgoal) (goal (n0 ge 6)) (plan (0 a0 1) (0 a0 2) (1/2 a0 3/2)))
; timed goal over a closed interval with a writer of its fluent inside, timed effect enabling an action
(c26 (eps -) (fl (p0 F) (p1 T)) (acts (i a0 (pre (p0 T)) (eff (p1 T)))) (teff (1 (p0 T))) (tgoal (1/2 3 F F (p1 T))) (goal) (plan (2 a0 -) (3/2 a0 -)))
; explicit epsilon exactly a third of the smallest gap, right-open timed goal (boundary of D-C26a, still inside the property)
(c26 (eps 1/4) (fl (n0 1)) (acts (i a0 (pre) (eff (n0 inc 1)))) (teff) (tgoal (1 7/4 F T (n0 ge 1))) (goal) (plan (1 a0 -)))
; D-C26b (fixed by notes/patches/C26-stn-conversion-environment.patch): a problem of its own Environment with a durative action and a timed effect
(c26 (eps -) (env F) (fl (p0 F) (p1 F)) (acts (d a (dur 2 2 F F) (cond ((S 0) (E 0) T T (p0 T))) (eff ((S 0) (p0 T)) ((E 0) (p0 F)))) (i b (pre (p0 T) (p1 T)) (eff))) (teff (1/2 (p1 T))) (tgoal) (goal) (plan (1 a 2) (2 b -)))
; half-open over-all conditions with a later writer of the condition's fluent that is otherwise free to move earlier:
; the reader at the CLOSED end must stay ordered before the writer (left-open/right-closed and left-closed/right-open)
(c26 (eps -) (fl (p T) (q F) (done F)) (acts (d hold (dur 5 5 F F) (cond ((S 0) (E 0) T F (p T))) (eff ((S 0) (q T)) ((E 0) (done T)))) (i drop (pre) (eff (p F)))) (teff) (tgoal) (goal (done T) (p F)) (plan (0 hold 5) (6 drop -)))
(c26 (eps -) (fl (p T) (q F) (done F)) (acts (d hold (dur 5 5 F F) (cond ((S 0) (E 0) F T (p T))) (eff ((S 0) (q T)) ((E 0) (done T)))) (i drop (pre) (eff (p F)))) (teff) (tgoal) (goal (done T) (p F)) (plan (0 hold 5) (6 drop -)))
(c26 (eps -) (fl (p F) (q F) (done F)) (acts (d hold (dur 5 5 F F) (cond ((S 0) (E 0) F T (p T))) (eff ((S 0) (q T)) ((E 0) (done T)))) (i raise (pre) (eff (p T)))) (teff) (tgoal) (goal (done T)) (plan (1 hold 5) (0 raise -)))
(c26 (eps -) (fl (p F) (q F) (done F)) (acts (d hold (dur 5 5 F F) (cond ((S 0) (E 0) T F (p T))) (eff ((S 0) (q T)) ((E 0) (done T)))) (i raise (pre) (eff (p T)))) (teff) (tgoal) (goal (done T)) (plan (1 hold 5) (1 raise -)))
