; D-C32a witnesses: an engine of the requested mode that is not a OneshotPlannerMixin and does not satisfy the requested
; optimality guarantee -> the error report asserted issubclass(EngineClass, OneshotPlannerMixin): AssertionError instead of
; UPNoSuitableEngineAvailableException (fixed by notes/patches/C32-no-suitable-engine-report.patch)
(sel (fac ((eng rep (replanner) (k (ACTION_BASED) none) () () (SEQUENTIAL_PLAN) () (id))) (pref rep)) (req replanner (k (ACTION_BASED) none) SOLVED_OPTIMALLY - - -))
(sel (fac ((eng rep (portfolio_selector) (k (ACTION_BASED) none) () () (SEQUENTIAL_PLAN) () (id))) (pref rep)) (req portfolio_selector (k (ACTION_BASED) none) SOLVED_OPTIMALLY - - -))
(sel (fac ((eng rep (plan_repairer) (k (ACTION_BASED) none) () () (SEQUENTIAL_PLAN) () (id))) (pref rep)) (req plan_repairer (k (ACTION_BASED) none) SOLVED_OPTIMALLY - - -))
(sel (fac ((eng rep (replanner) (k (ACTION_BASED) none) () () () () (id)) (eng one (oneshot_planner replanner) (k (ACTION_BASED) none) (SATISFICING) () () () (id))) (pref rep one)) (req replanner (k (ACTION_BASED NEGATIVE_CONDITIONS) 3) SATISFICING - - -))
