; inputs on which the unchanged tree (before notes/patches/C19-*.patch) violates C19; they pass on the repaired code
; quantifier-first-operand
(rt (aproblem (types (T _) (S T)) (fluents ((b0 bool ()) ()) ((bq bool ((user T))) (q0))) (objects (t1 T) (s1 S)) (init) (defaults (b0 (b F)) (bq (b F))) (actions) (timed-effects) (goals (and (forall ((k (user T))) (fl (bq bool ((user T))) (v k (user T)))) (fl (b0 bool ())))) (timed-goals) (invariants)))
; when-negated-compound
(rt (aproblem (types (T _) (S T)) (fluents ((b0 bool ()) ()) ((at (user T) ()) ())) (objects (t1 T) (s1 S)) (init ((fl (at (user T) ())) (o t1 T))) (defaults (b0 (b F))) (actions (inst a ((p (user T))) (pre) (effs (eff assign (fl (b0 bool ())) (b T) (not (eq (fl (at (user T) ())) (p p (user T)))) ())))) (timed-effects) (goals) (timed-goals) (invariants)))
; negative-int-bound
(rt (aproblem (types (T _) (S T)) (fluents ((x (int -2 3) ()) ())) (objects (t1 T) (s1 S)) (init) (defaults (x (i -2))) (actions (inst a () (pre (lt (fl (x (int -2 3) ())) (i 3))) (effs (eff increase (fl (x (int -2 3) ())) (i 1) (b T) ())))) (timed-effects) (goals (eq (fl (x (int -2 3) ())) (i 3))) (timed-goals) (invariants)))
; fractional-real-bound
(rt (aproblem (types (T _) (S T)) (fluents ((z (real 0 5/2) ()) ()) ((zz (real 0 _) ()) ()) ((zn (real _ 3) ()) ())) (objects (t1 T) (s1 S)) (init) (defaults (z (i 0)) (zz (r 7/3)) (zn (i -4))) (actions (inst a () (pre) (effs (eff increase (fl (z (real 0 5/2) ())) (r 1/2) (b T) ())))) (timed-effects) (goals (le (r 3/2) (fl (z (real 0 5/2) ())))) (timed-goals) (invariants)))
; iff-compound
(rt (aproblem (types (T _) (S T)) (fluents ((b0 bool ()) ()) ((b1 bool ()) ()) ((bq bool ((user T))) (q0))) (objects (t1 T) (s1 S)) (init) (defaults (b0 (b F)) (b1 (b T)) (bq (b F))) (actions (inst a () (pre (iff (implies (fl (b0 bool ())) (fl (b1 bool ()))) (fl (b0 bool ())))) (effs (eff assign (fl (b0 bool ())) (b T) (b T) ())))) (timed-effects) (goals (iff (and (fl (b0 bool ())) (fl (bq bool ((user T))) (o t1 T))) (or (fl (b1 bool ())) (fl (bq bool ((user T))) (o s1 S))))) (timed-goals) (invariants)))
; state-invariant
(rt (aproblem (types (T _) (S T)) (fluents ((xb (int 0 4) ()) ())) (objects (t1 T) (s1 S)) (init) (defaults (xb (i 0))) (actions (inst a () (pre) (effs (eff increase (fl (xb (int 0 4) ())) (i 2) (b T) ())))) (timed-effects) (goals (eq (fl (xb (int 0 4) ())) (i 2))) (timed-goals) (invariants (le (fl (xb (int 0 4) ())) (i 2)))))
