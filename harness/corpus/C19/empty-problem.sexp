; the problem without declarations: the writer prints no statement; before notes/patches/C19-empty-problem.patch the reader's grammar
; demanded at least one (read-error ParseException).  Passes on the repaired code.
(rt (aproblem (types) (fluents) (objects) (init) (defaults) (actions) (timed-effects) (goals) (timed-goals) (invariants)))
; one type and one object, nothing else
(rt (aproblem (types (T _)) (fluents) (objects (o1 T)) (init) (defaults) (actions) (timed-effects) (goals) (timed-goals) (invariants)))
