; smoke: literals, normal forms, errors that leave promoted arguments behind, XOr
(hist (Int 5) (Plus (r 0) (f 1 2) (s 4/2)) (Not (b T)) (Not (r 2)) (GE (r 0) (i 7)) (LE (i 7) (r 0)) (FluentExp b1 1 0 (L (O o1 0))) (Exists () (r 6)) (XOr (r 6) (r 2)) (FluentExp b2 2 1 (L (O o2 0))) (ObjectExp o2 1))
; the documented normalisations one by one
(hist (And) (Or) (Plus) (Times) (And (F b0 0 0)) (Or (L (F b0 0 1))) (Plus (i 3)) (Times (L (q 6 2))) (Not (F b0 0 0)) (Not (r 8)) (GT (F nb 0 0) (i 1)) (LT (i 1) (F nb 0 1)) (GE (F nb 0 0) (s 1.0)) (LE (f 1 1) (F nb 0 0)) (TRUE) (Bool T) (Int 0) (Int 1))
; one number, many spellings; Real() keeps integral fractions
(hist (Plus (i 2) (q 4 2)) (Plus (f 2 1) (s 2)) (Plus (s 2.0) (s 4/2)) (Plus (s +2) (s 002)) (Real 2 1) (Int 2) (Equals (r 4) (r 5)) (Plus (q 1 2) (f 1 2)) (Plus (s 0.5) (s 1/2)) (Plus (s 2/4) (s 0.50)) (Real 2 4))
; equal-but-distinct payload objects, same name with different types
(hist (FluentExp b0 0 0 (L)) (FluentExp b0 0 1 (L)) (And (F b0 0 0) (F b0 0 1)) (FluentExp x@bool 0 0 (L)) (FluentExp x@int 0 0 (L)) (ParameterExp x@P 0) (ParameterExp x@P 1) (VariableExp vl 0) (Exists ((vl 0) (vm 1)) (F b0 0 0)) (Exists ((vl 1) (vm 0)) (r 0)) (Forall ((vm 0) (vl 0)) (r 0)))
; errors raised after some arguments were promoted; the garbage nodes stay and are re-used
(hist (Plus (i 41) (s abc)) (Int 41) (LE (s 1/0) (i 42)) (LE (i 42) (s 1/0)) (Int 42) (And (b T) (F b1 1 0)) (FluentExp b1 1 0 (L (O o3 0) (O o2 0))) (ObjectExp o2 0) (Forall () (F b0 0 0)) (Plus (s "") (i 43)) (Int 43))
; XOr with repeated and complementary arguments
(hist (FluentExp b0 0 0 (L)) (Not (r 0)) (XOr (r 0) (r 0)) (XOr (r 0) (r 1)) (XOr (r 0) (r 1) (b T)) (XOr) (XOr (r 1)) (XOr (L (r 0) (F x@bool 0 0))))
; witness of the Int(bool) defect (as found: Int(True) poisons the constant 1 of the environment)
(hist (IntOfBool T) (Int 1) (Plus (F nb 0 0) (i 1)) (IntOfBool F) (Int 0) (Plus))
