; docstring example 1: {a->c, (c&b)->d, (a&b)->c} on a&b gives c
(subst (and (fl (b0 bool ())) (fl (b1 bool ()))) (((fl (b0 bool ())) (fl (b2 bool ())) T) ((and (fl (b2 bool ())) (fl (b1 bool ()))) (fl (b1 bool ())) T) ((and (fl (b0 bool ())) (fl (b1 bool ()))) (fl (b2 bool ())) T)))
; docstring example 2: {a->c, c->d} on a gives c
(subst (fl (b0 bool ())) (((fl (b0 bool ())) (fl (b1 bool ())) T) ((fl (b1 bool ())) (fl (b2 bool ())) T)))
; docstring example 3: incompatible pair is rejected
(subst (and (fl (b0 bool ())) (fl (b1 bool ()))) (((fl (b0 bool ())) (i 5) F) ((fl (b1 bool ())) (fl (b2 bool ())) T)))
; incompatible pair last
(subst (and (fl (b0 bool ())) (fl (b1 bool ()))) (((fl (b1 bool ())) (fl (b2 bool ())) T) ((fl (b0 bool ())) (i 5) F)))
; incompatible pair whose key does not occur
(subst (fl (b2 bool ())) (((fl (b1 bool ())) (fl (b2 bool ())) T) ((fl (x (int _ _) ())) (r 1/2) F)))
; empty map leaves a raw 1-ary And and a double negation alone
(subst (and (not (not (fl (b0 bool ()))))) ())
; non-empty map renormalises them through the manager
(subst (and (not (not (fl (b0 bool ()))))) (((fl (b1 bool ())) (fl (b2 bool ())) T)))
; double negation created by the value collapses
(subst (not (fl (b0 bool ()))) (((fl (b0 bool ())) (not (fl (b1 bool ()))) T)))
; key under the binder of its variable is inert, free occurrence is replaced
(subst (and (fl (bq bool ((user T))) (v q1 (user T))) (forall ((q1 (user T))) (or (fl (bq bool ((user T))) (v q1 (user T))) (fl (b0 bool ()))))) (((fl (bq bool ((user T))) (v q1 (user T))) (fl (b1 bool ())) T)))
; variable key: free occurrence replaced, bound ones not
(subst (and (fl (bq bool ((user T))) (v q1 (user T))) (exists ((q1 (user T))) (fl (bq bool ((user T))) (v q1 (user T))))) (((v q1 (user T)) (o t1 T) T)))
; all keys inert under the binder: body returned as is (raw double negation survives)
(subst (forall ((q1 (user T))) (not (not (fl (bq bool ((user T))) (v q1 (user T)))))) (((fl (bq bool ((user T))) (v q1 (user T))) (fl (b1 bool ())) T)))
; some key active under the binder: body renormalised
(subst (forall ((q1 (user T))) (not (not (fl (bq bool ((user T))) (v q1 (user T)))))) (((fl (bq bool ((user T))) (v q1 (user T))) (fl (b1 bool ())) T) ((fl (b2 bool ())) (fl (b0 bool ())) T)))
; the quantifier itself is a key (checked before its body)
(subst (and (forall ((q1 (user T))) (fl (bq bool ((user T))) (v q1 (user T)))) (fl (b0 bool ()))) (((forall ((q1 (user T))) (fl (bq bool ((user T))) (v q1 (user T)))) (fl (b1 bool ())) T) ((fl (b0 bool ())) (fl (b2 bool ())) T)))
; nested binders over the same variable
(subst (forall ((q1 (user S))) (or (fl (bs bool ((user S))) (v q1 (user S))) (exists ((q1 (user S))) (and (fl (bs bool ((user S))) (v q1 (user S))) (fl (b0 bool ())))))) (((fl (b0 bool ())) (fl (b1 bool ())) T) ((fl (bs bool ((user S))) (v q1 (user S))) (fl (b2 bool ())) T)))
; same name, different type: a different variable
(subst (forall ((q1 (user S))) (or (fl (bq bool ((user T))) (v q1 (user S))) (fl (bq bool ((user T))) (v q1 (user T))))) (((v q1 (user T)) (o t2 T) T) ((v q1 (user S)) (o s1 S) T)))
; nested keys: the outer one wins, the inner one applies elsewhere
(subst (and (le (plus (fl (x (int _ _) ())) (i 1)) (i 3)) (lt (fl (x (int _ _) ())) (i 2))) (((fl (x (int _ _) ())) (i 7) T) ((plus (fl (x (int _ _) ())) (i 1)) (fl (y (int _ _) ())) T)))
; value contains keys: inserted verbatim
(subst (or (fl (b0 bool ())) (fl (b1 bool ()))) (((fl (b0 bool ())) (and (fl (b1 bool ())) (fl (b0 bool ()))) T) ((fl (b1 bool ())) (fl (b0 bool ())) T)))
; D-C13a (fixed): the interior of a replaced key cannot be rebuilt, the key is replaced as a whole
(subst (le (fl (h (int _ _) ((int 0 5))) (fl (xb (int 0 10) ()))) (i 4)) (((le (fl (h (int _ _) ((int 0 5))) (fl (xb (int 0 10) ()))) (i 4)) (p pb bool) T) ((fl (xb (int 0 10) ())) (i 9) T)))
; D-C13a inside a conjunction and under a binder
(subst (forall ((w1 (user S))) (or (and (le (fl (h (int _ _) ((int 0 5))) (fl (xb (int 0 10) ()))) (i 3)) (fl (b0 bool ()))) (fl (bs bool ((user S))) (v w1 (user S))))) (((fl (xb (int 0 10) ())) (p pk (int 8 20)) T) ((le (fl (h (int _ _) ((int 0 5))) (fl (xb (int 0 10) ()))) (i 3)) (fl (b1 bool ())) T)))
; F-C13-capture (open finding): the free q1 of the value is captured
(subst (forall ((q1 (user S))) (p pb bool)) (((p pb bool) (fl (bq bool ((user T))) (v q1 (user S))) T)))
; grounding-style map: parameters and a ground fluent
(subst (and (fl (bq bool ((user T))) (p pt (user T))) (le (plus (fl (x (int _ _) ())) (p pj (int _ _))) (i 10)) (fl (bq bool ((user T))) (o t1 T))) (((p pt (user T)) (o s1 S) T) ((p pj (int _ _)) (i 4) T) ((fl (bq bool ((user T))) (o t1 T)) (b T) T)))
; subtype value for a supertype key is compatible, the converse is rejected
(subst (fl (bs bool ((user S))) (p ps (user S))) (((p ps (user S)) (o t1 T) F)))
; the whole expression is a key and also contains keys
(subst (implies (fl (b0 bool ())) (fl (b1 bool ()))) (((fl (b0 bool ())) (fl (b2 bool ())) T) ((implies (fl (b0 bool ())) (fl (b1 bool ()))) (fl (b0 bool ())) T)))
; Plus/Times collapse is not triggered by replacement (arity is preserved), raw 1-ary Plus is
(subst (le (plus (times (fl (x (int _ _) ())))) (i 1)) (((fl (x (int _ _) ())) (i 2) T)))
; {a->c, (c&b)->d} on a&b gives c&b: the rebuilt node is not looked up again
(subst (and (fl (b0 bool ())) (fl (b1 bool ()))) (((fl (b0 bool ())) (fl (b2 bool ())) T) ((and (fl (b2 bool ())) (fl (b1 bool ()))) (fl (b1 bool ())) T)))
; same below a negation and a binder
(subst (forall ((q1 (user T))) (not (or (fl (b0 bool ())) (fl (bq bool ((user T))) (v q1 (user T)))))) (((fl (b0 bool ())) (fl (b2 bool ())) T) ((or (fl (b2 bool ())) (fl (bq bool ((user T))) (v q1 (user T)))) (fl (b1 bool ())) T) ((not (fl (b1 bool ()))) (fl (b0 bool ())) T)))
