; D-C08a: grounding move(a_b, c) and move(a, b_c) (unrepaired: UPProblemDefinitionError "Name move_a_b_c already defined")
(compile grounder (problem p8 (types (T _)) (objects (a_b T) (c T) (a T) (b_c T)) (fluents ((f bool ((user T))) (b F))) (init) (actions (action move ((x (user T)) (y (user T))) (pre (not (fl (f bool ((user T))) (p y (user T))))) (effs (eff assign (fl (f bool ((user T))) (p x (user T))) (b T) (b T) ())))) (goals (fl (f bool ((user T))) (o a T))) (traj) (metrics)))
(fresh (init (object a_b) (object c) (object a) (object b_c) (action move) (fluent f) (type T)) (reqs (req move (a_b c) (none)) (req move (a b_c) (none)) (req move_a (b_c) (none)) (req move_a_b_c () (none))))
; same cause in NegativeConditionsRemover: fluents a, a_0, not_a all negated (unrepaired: "Name not_a_0 already defined")
(compile neg (problem p (types) (objects) (fluents ((a_0 bool ()) (b F)) ((a bool ()) (b F)) ((not_a bool ()) (b F))) (init) (actions (action b () (pre (not (fl (a_0 bool ()))) (not (fl (a bool ()))) (not (fl (not_a bool ())))) (effs (eff assign (fl (a_0 bool ())) (b T) (b T) ()) (eff assign (fl (a bool ())) (b T) (b T) ()) (eff assign (fl (not_a bool ())) (b T) (b T) ())))) (goals (fl (not_a bool ()))) (traj) (metrics)))
; names checked against one kind only / not at all: is_value_defined_<f> vs an object, hold-<i> vs a fluent
(compile undef (problem p (types (T _)) (objects (is_value_defined_x T)) (fluents ((x (int _ _) ()) _) ((q bool ((user T))) (b F))) (init) (actions (action a () (pre) (effs (eff assign (fl (x (int _ _) ())) (i 1) (b T) ())))) (goals (fl (q bool ((user T))) (o is_value_defined_x T))) (traj) (metrics)))
(compile traj (problem p (types) (objects) (fluents ((hold-0 bool ()) (b F)) ((q bool ()) (b F))) (init) (actions (action a () (pre) (effs (eff assign (fl (q bool ())) (b T) (b T) ()) (eff assign (fl (hold-0 bool ())) (b T) (b T) ())))) (goals (fl (q bool ()))) (traj (sometime (fl (q bool ()))) (sometime (fl (hold-0 bool ())))) (metrics)))
; D-C08b: a result with a problem and an action map-back must have a plan back-conversion (unrepaired: None)
(result problem (map (x (to o1)) (y drop) (z (to o2))) none (plan x y z x))
(result problem none none (plan))
(result none none none (plan x))
(result problem (map (x (to o1))) id (plan x))
; compilers creating fluents / metrics in the global environment instead of the problem's
(compile disj (problem p (types) (objects) (fluents ((b0 bool ()) (b T)) ((q bool ()) (b T))) (init) (actions (action a () (pre) (effs (eff assign (fl (q bool ())) (b T) (b T) ())))) (goals (or (fl (q bool ())) (fl (b0 bool ())))) (traj) (metrics)))
(compile grounder (problem p (types (T _)) (objects (o T)) (fluents ((q bool ((user T))) (b F))) (init) (actions (action a ((y (user T))) (pre) (effs (eff assign (fl (q bool ((user T))) (p y (user T))) (b T) (b T) ())))) (goals (fl (q bool ((user T))) (o o T))) (traj) (metrics (min-action-costs ((a (i 2))) (i 0)))))
; NamesExtractor had no case for trajectory operators (UsertypeFluentsRemover._get_names_in_problem)
(compile utf (problem p (types (T _) (S T)) (objects (t1 T) (s1 S)) (fluents ((xq (int -2 3) ((user T))) (i 0))) (init) (actions) (goals) (traj (always (forall ((k (user S))) (le (fl (xq (int -2 3) ((user T))) (v k (user S))) (i 2))))) (metrics)))
; the fake goal fluent of the disjunctive-conditions remover next to an object of that name
(compile disj (problem p (types (T _)) (objects (dcrm_fake_goal T)) (fluents ((q bool ()) (b F)) ((r bool ()) (b F))) (init) (actions (action a () (pre (or (fl (q bool ())) (not (fl (r bool ()))))) (effs (eff assign (fl (q bool ())) (b T) (b T) ())))) (goals (or (fl (q bool ())) (fl (r bool ())))) (traj) (metrics)))
(compile disj (problem p (types) (objects) (fluents ((q bool ()) (b F)) ((r bool ()) (b F))) (init) (actions (action dcrm_fake_action () (pre) (effs (eff assign (fl (q bool ())) (b T) (b T) ())))) (goals (or (fl (q bool ())) (fl (r bool ())))) (traj) (metrics)))
; the two temporal compilers on the durative reading: lock fluents of d2p next to a fluent named like one
(compile d2p (problem p (types) (objects) (fluents ((q bool ()) (b F)) ((q_read_lock bool ()) (b F)) ((alive bool ()) (b F)) ((gc bool ()) (b F))) (init) (actions (action a () (pre (fl (q_read_lock bool ()))) (effs (eff assign (fl (q bool ())) (b T) (b T) ())))) (goals (fl (q bool ()))) (traj) (metrics)))
(compile t2s (problem p (types (T _)) (objects (o T)) (fluents ((q bool ((user T))) (b F))) (init) (actions (action a ((y (user T))) (pre) (effs (eff assign (fl (q bool ((user T))) (p y (user T))) (b T) (b T) ())))) (goals (fl (q bool ((user T))) (o o T))) (traj) (metrics)))
