#!/bin/bash
# usage: harness/collect_mut.sh Cxx n   -> confirms a delivered seeded change in ITS scratch worktree /tmp/mut-Cxx-n (patch applied there):
# pinned suite passes with the change, demo fails with it and passes without; copies patch.diff/demo.py/meta.json to seeded/Cxx-n; removes the worktree.
PID=$1; N=$2; WT=/tmp/mut-$PID-$N; D=/verif/seeded/$PID-$N
[ -f $WT/MUTATION/patch.diff ] || { echo "no patch in $WT"; exit 2; }
cd $WT
git apply -R --check MUTATION/patch.diff 2>/dev/null || { git checkout -q -- unified_planning; git apply MUTATION/patch.diff || { echo "patch does not apply"; exit 2; }; }
PYTHONPATH=$WT /venv/bin/python MUTATION/demo.py > /dev/null 2>&1; WITH=$?
if [ -n "$SKIP_SUITE" ]; then SUITE="deferred (harness/recheck_suite.sh)"; else SUITE=$(/verif/harness/run_suite.sh $WT 2>&1 | grep -E "^baseline" | head -1); fi
git apply -R MUTATION/patch.diff
PYTHONPATH=$WT /venv/bin/python MUTATION/demo.py > /dev/null 2>&1; WITHOUT=$?
echo "$PID-$N: demo with change exit=$WITH, without exit=$WITHOUT; suite with change: $SUITE"
mkdir -p $D && cp MUTATION/patch.diff MUTATION/demo.py MUTATION/meta.json $D/
/venv/bin/python - "$D/meta.json" "$WITH" "$WITHOUT" "$SUITE" <<'PY'
import json, sys
p, w, wo, s = sys.argv[1:5]
m = json.load(open(p))
m["confirmed"] = {"demo_exit_with_change": int(w), "demo_exit_without_change": int(wo), "pinned_suite_with_change": s}
json.dump(m, open(p, "w"), indent=1)
PY
cd /verif; git -C /repo worktree remove --force $WT
