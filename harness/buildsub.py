"""C22 on the other problem classes: lock-step differential of a REAL original against its REAL clone for
ContingentProblem, HierarchicalProblem (both extend Problem: the building calls of buildlib plus their own
and durative actions) and MultiAgentProblem (its own small vocabulary).  The Lean model covers `Problem`
only; these cases are decided by the property's oracle.

  case ::= (sub contingent|hierarchical|multiagent ENV NEW (pre OP*) (post ITEM*))      ENV/NEW/ITEM as in buildlib
  extra OP ::= (c-unknown F) | (c-oneof F*) | (c-or F*)
             | (h-task NAME) | (h-method NAME TASK PRE|_) | (h-subtask TASK|ACTION IDENT)
             | (add-durative NAME ((P TYPE)*)) | (dur-eff NAME TIMING KIND F V C ((v TYPE)*)) | (dur-cond NAME TIMING E)
             | (ma-env-fluent REF D|_) | (ma-agent NAME) | (ma-agent-fluent AG REF D|_ T|F) | (ma-action AG NAME ((P TYPE)*))
             | (ma-act-pre AG ACT E) | (ma-act-eff AG ACT KIND F V C ((v TYPE)*)) | (ma-init F V) | (ma-goal E)
"""
import warnings
from collections import OrderedDict
from fractions import Fraction

warnings.simplefilter("ignore")
from unified_planning.model import DurativeAction, InstantaneousAction
from unified_planning.model.contingent import ContingentProblem
from unified_planning.model.htn import HierarchicalProblem, Method, Task
from unified_planning.model.multi_agent import Agent, MultiAgentProblem

import buildlib as bl
import sexp
import upp
from upx import q2s

B = sexp.B
U = bl.U

CLASSES = {"contingent": ContingentProblem, "hierarchical": HierarchicalProblem, "multiagent": MultiAgentProblem}


def new_problem(cls, ctx, new):
    defaults = OrderedDict((ctx.ty(t), ctx.expr(e)) for t, e in new[2])
    return CLASSES[cls](new[1], ctx.env, initial_defaults=defaults)


def _eff_fn(obj, kind):
    return {"assign": obj.add_effect, "increase": obj.add_increase_effect, "decrease": obj.add_decrease_effect}[kind]


def _do(ctx, P, op):
    h = op[0]
    if h == "c-unknown":
        P.add_unknown_initial_constraint(ctx.expr(op[1]))
    elif h == "c-oneof":
        P.add_oneof_initial_constraint([ctx.expr(f) for f in op[1:]])
    elif h == "c-or":
        P.add_or_initial_constraint([ctx.expr(f) for f in op[1:]])
    elif h == "h-task":
        P.add_task(Task(op[1], None, ctx.env))
    elif h == "h-method":
        m = Method(op[1], None, ctx.env)
        m.set_task(P.get_task(op[2]))
        if op[3] != "_":
            m.add_precondition(ctx.expr(op[3]))
        P.add_method(m)
    elif h == "h-subtask":
        t = P.get_task(op[1]) if P.has_task(op[1]) else P.action(op[1])
        P.task_network.add_subtask(t, ident=op[2])
    elif h == "add-durative":
        P.add_action(DurativeAction(op[1], OrderedDict((pn, ctx.ty(pt)) for pn, pt in op[2]), ctx.env))
    elif h == "dur-eff":
        a = P.action(op[1])
        _eff_fn(a, op[3])(bl.mk_timing(op[2]), ctx.expr(op[4]), ctx.expr(op[5]), ctx.expr(op[6]),
                          forall=tuple(ctx.var(n, t) for n, t in op[7]))
    elif h == "dur-cond":
        P.action(op[1]).add_condition(bl.mk_timing(op[2]), ctx.expr(op[3]))
    elif h == "ma-env-fluent":
        fl = ctx.fluent(op[1])
        if op[2] == "_":
            P.ma_environment.add_fluent(fl)
        else:
            P.ma_environment.add_fluent(fl, default_initial_value=ctx.expr(op[2]))
    elif h == "ma-agent":
        P.add_agent(Agent(op[1], P))
    elif h == "ma-agent-fluent":
        ag = P.agent(op[1])
        fn = ag.add_public_fluent if op[4] == "T" else ag.add_private_fluent
        if op[3] == "_":
            fn(ctx.fluent(op[2]))
        else:
            fn(ctx.fluent(op[2]), default_initial_value=ctx.expr(op[3]))
    elif h == "ma-action":
        P.agent(op[1]).add_action(InstantaneousAction(op[2], OrderedDict((pn, ctx.ty(pt)) for pn, pt in op[3]), ctx.env))
    elif h == "ma-act-pre":
        P.agent(op[1]).action(op[2]).add_precondition(ctx.expr(op[3]))
    elif h == "ma-act-eff":
        a = P.agent(op[1]).action(op[2])
        _eff_fn(a, op[3])(ctx.expr(op[4]), ctx.expr(op[5]), ctx.expr(op[6]), forall=tuple(ctx.var(n, t) for n, t in op[7]))
    elif h == "ma-init":
        P.set_initial_value(ctx.expr(op[1]), ctx.expr(op[2]))
    elif h == "ma-goal":
        P.add_goal(ctx.expr(op[1]))
    else:
        bl._do(ctx, P, op)


def apply_op(ctx, P, op):
    try:
        _do(ctx, P, op)
        return "ok"
    except Exception as e:   # noqa: BLE001
        return bl.classify(e)


def _book(a):
    fa, fi = getattr(a, "_fluents_assigned", {}), getattr(a, "_fluents_inc_dec", set())
    if isinstance(fi, dict):
        return [sorted((str(t), sorted((str(k), str(v)) for k, v in d.items())) for t, d in fa.items() if d),
                sorted((str(t), sorted(map(str, s))) for t, s in fi.items() if s)]
    return [sorted((str(k), str(v)) for k, v in fa.items()), sorted(map(str, fi))]


def snapshot(P):
    """everything observable (and the private conflict bookkeeping) of a problem of any class, as strings"""
    parts = [repr(P), str(P.kind)]
    if isinstance(P, MultiAgentProblem):
        parts.append(sorted(map(str, P.ma_environment.fluents_defaults.items())))
        parts.append(sorted(map(str, P.ma_environment.initial_defaults.items())))
        for ag in P.agents:
            parts.append([ag.name, sorted(map(str, ag.fluents_defaults.items())), sorted(map(str, ag.initial_defaults.items())),
                          [str(f) for f in ag.public_fluents], [[a.name] + _book(a) for a in ag.actions]])
        return parts
    parts.append(sorted(map(str, P.initial_defaults.items())))
    parts.append([str(P.epsilon), P.discrete_time, P.self_overlapping])
    parts.append([[a.name] + _book(a) for a in P.actions])
    parts.append(_book(P))
    parts.append([str(m) for m in P.quality_metrics])
    if isinstance(P, ContingentProblem):
        parts.append(sorted(map(str, P.hidden_fluents)))
    return parts


def _eq(a, b):
    """None if a == b and same kind, else why not"""
    try:
        if not (a == b):
            return "are not equal"
        if a.kind != b.kind:
            return "have different kinds"
    except Exception as e:   # noqa: BLE001
        return f"cannot be compared ({type(e).__name__}: {str(e)[:80]})"
    return None


def oracle(payload):
    _, cls, env, new, pre, post = payload
    ctx = bl.new_ctx(env)
    try:
        P = new_problem(cls, ctx, new)
    except Exception:   # noqa: BLE001
        return None
    for op in pre[1:]:
        apply_op(ctx, P, op)
    if _eq(P, P) is not None:
        return None      # the problem cannot even be compared with itself (e.g. MA problem without initial values)
    try:
        C = P.clone()
    except Exception as e:   # noqa: BLE001
        return f"{cls}: clone() raised {type(e).__name__}: {str(e)[:100]}"
    why = _eq(C, P)
    if why:
        return f"{cls}: clone() and the original {why}"
    for i, it in enumerate(post[1:]):
        h = it[0]
        if h == "both":
            cp, cc = apply_op(ctx, P, it[1]), apply_op(ctx, C, it[1])
            if cp != cc:
                return f"{cls}: post[{i}] {it[1][0]}: original -> {cp}, clone -> {cc}"
            if _eq(P, P) is not None:
                return None
            why = _eq(P, C)
            if why:
                return f"{cls}: after post[{i}] {it[1][0]} ({cp}) original and clone {why}"
        elif h in ("left", "right"):
            target, other = (P, C) if h == "left" else (C, P)
            before = snapshot(other)
            apply_op(ctx, target, it[1])
            if snapshot(other) != before:
                return f"{cls}: post[{i}] {it[1][0]} on the {'original' if h == 'left' else 'clone'} changed the other problem"
        elif h == "reclone":
            if _eq(P, P) is not None:
                return None
            try:
                C = P.clone()
            except Exception as e:   # noqa: BLE001
                return f"{cls}: post[{i}] clone() raised {type(e).__name__}: {str(e)[:100]}"
            why = _eq(C, P)
            if why:
                return f"{cls}: post[{i}] clone() of the edited original and the original {why}"
    return None


def shrink(payload):
    _, cls, env, new, pre, post = payload
    for i in range(len(post) - 1, 0, -1):
        lo, hi = bl.pair_span(post, i)
        yield ["sub", cls, env, new, pre, post[:lo] + post[hi:]]
    for i in range(len(pre) - 1, 0, -1):
        yield ["sub", cls, env, new, pre[:i] + pre[i + 1:], post]


# ----------------------------------------------------------------------------------------------
# generator
# ----------------------------------------------------------------------------------------------

class SubGen:
    def __init__(self, rng):
        self.rng = rng
        self.k = 0

    def case(self, n_post):
        self.k += 1
        cls = ["contingent", "hierarchical", "multiagent"][self.k % 3]
        if cls == "multiagent":
            return self.ma_case(n_post)
        r = self.rng
        g = bl.HistGen(r, malformed=0.2, ctor_bad=0.0)
        _, env, new, pre, post = g.case(n_post, single_sided=0.1, reclone=0.08)
        pre, post = pre[1:], post[1:]
        pg = g.pg
        # things the old field-by-field clones dropped: state invariants, time model, action-cost default, bookkeeping
        extra = [["add-traj", ["always", ["or", ["fl", pg.FL["b0"]], ["not", ["fl", pg.FL["b1"]]]]]]] if r.random() < 0.5 else []
        if r.random() < 0.5:
            extra.append(r.choice([["set-discrete", "T"], ["set-overlap", "T"], ["set-epsilon", "1/10"]]))
        if r.random() < 0.5:
            extra.append(["timed-eff", ["gs", "5"], "increase", ["fl", pg.FL["x"]], ["i", "1"], ["b", "T"], []])
        if r.random() < 0.5 and g.actions:
            extra.append(["add-metric", ["min-action-costs", [[next(iter(g.actions)), ["i", "2"]]], ["i", "7"]]])
        pre = pre + extra

        def special():
            k = r.random()
            if k < 0.35:
                self.k += 1
                n = f"d{self.k}"
                ops = [["add-durative", n, []]]
                t = r.choice([["s", "0"], ["e", "0"], ["s", "1"]])
                kind, f, v, c, vs = g.effect_parts([])
                ops.append(["dur-eff", n, t, kind, f, v, c, vs])
                kind, f, v, c, vs = g.effect_parts([])
                ops.append(["dur-eff", n, t, kind, f, v, c, vs])
                ops.append(["dur-cond", n, ["s", "0"], pg.cond([], (), 1)])
                return [o for o in ops if o[0] != "dur-eff" or g.ok(o[5], o[6])]
            bf = [["fl", pg.FL["b0"]], ["fl", pg.FL["b1"]], ["fl", pg.FL["bq"], ["o", "t1", "T"]], ["fl", pg.FL["bq"], ["o", "s1", "S"]]]
            if cls == "contingent":
                return [r.choice([["c-unknown", r.choice(bf)], ["c-oneof"] + r.sample(bf, 2), ["c-or"] + r.sample(bf, 2)])]
            self.k += 1
            tn = f"task{r.choice([1, 2, 3])}"
            return [r.choice([["h-task", tn], ["h-method", f"m{self.k}", tn, r.choice(["_", pg.cond([], (), 1)])],
                              ["h-subtask", tn, f"st{self.k}"]])]
        out, half_open = [], False
        for j, it in enumerate(post):
            out.append(it)
            if half_open:
                half_open = False        # `it` is the second half of a single-sided pair
            else:
                half_open = it[0] in ("left", "right") and j + 1 < len(post) and post[j + 1][0] in ("left", "right") \
                    and post[j + 1][0] != it[0] and post[j + 1][1] == it[1]
            if not half_open and r.random() < 0.25:
                for o in special():
                    if r.random() < 0.15:
                        out += [["left", o], ["right", o]]
                    else:
                        out.append(["both", o])
        if r.random() < 0.5:
            pre = pre + [o for _ in range(2) for o in special()]
        return ["sub", cls, env, new, ["pre"] + pre, ["post"] + out]

    # -- multi-agent ----------------------------------------------------------------------------------
    MA_TYPES = [["T", "_"], ["S", "T"], ["U", "_"]]
    ENV_FL = [["e0", "bool", []], ["e1", ["int", "0", "10"], []], ["e2", "bool", [U("S")]], ["e3", bl.INT, []], ["e4", U("T"), []]]
    AG_FL = [["af0", "bool", []], ["af1", ["int", "0", "10"], [U("T")]], ["af2", U("T"), []], ["af3", bl.REAL, []]]

    def ma_case(self, n_post):
        r = self.rng
        pool = [["bool", ["b", "F"]], [["int", "0", "10"], ["i", "0"]], [bl.INT, ["i", "0"]], [bl.REAL, ["r", "1/2"]],
                [U("T"), ["o", "s1", "S"]]]
        defaults = [p for p in pool if r.random() < 0.6]
        has_default = {sexp.dumps(t) for t, _ in defaults}
        consts = {"bool": ["b", "T"], sexp.dumps(["int", "0", "10"]): ["i", "3"], sexp.dumps(bl.INT): ["i", "-4"],
                  sexp.dumps(bl.REAL): ["i", "2"], sexp.dumps(U("T")): ["o", "t1", "T"]}

        def dflt(ref):
            k = sexp.dumps(ref[1]) if ref[1] != "bool" else "bool"
            if k in has_default or (ref[1] == "bool" and "bool" in has_default):
                if r.random() < 0.6:
                    return "_"
            return consts[k]
        objs = [["add-object", n, t] for n, t in [("t1", "T"), ("s1", "S"), ("s2", "S"), ("u1", "U")]]
        agents, state = [], {"env": [], "ag": {}, "acts": {}}

        def op():
            k = r.random()
            if k < 0.15 or not agents:
                if len(agents) < 3:
                    n = f"ag{len(agents)}"
                    agents.append(n)
                    state["ag"][n], state["acts"][n] = [], []
                    return ["ma-agent", n]
            if k < 0.3:
                ref = r.choice(self.ENV_FL)
                state["env"].append(ref)
                return ["ma-env-fluent", ref, dflt(ref)]
            ag = r.choice(agents)
            if k < 0.45:
                ref = r.choice(self.AG_FL)
                state["ag"][ag].append(ref)
                return ["ma-agent-fluent", ag, ref, dflt(ref), B(r.random() < 0.5)]
            if k < 0.55:
                n = f"act{len(state['acts'][ag])}"
                state["acts"][ag].append(n)
                return ["ma-action", ag, n, r.choice([[], [["p0", U("T")]]])]
            fls = [f for f in state["env"] + state["ag"][ag] if not f[2]]
            if k < 0.85 and state["acts"][ag] and fls:
                f = r.choice(fls)
                kind = "assign" if f[1] == "bool" or f[1][0] == "user" or r.random() < 0.5 else r.choice(["increase", "decrease"])
                v = consts[sexp.dumps(f[1]) if f[1] != "bool" else "bool"] if kind == "assign" else ["i", "1"]
                if r.random() < 0.15:
                    v = ["b", "T"] if f[1] != "bool" else ["i", "1"]
                return ["ma-act-eff", ag, r.choice(state["acts"][ag]), kind, ["fl", f], v, ["b", "T"], []]
            envb = [f for f in state["env"] if f[1] == "bool" and not f[2]]
            if k < 0.92 and envb:
                return ["ma-goal", ["fl", r.choice(envb)]]
            if state["env"]:
                f = r.choice([f for f in state["env"] if not f[2]] or [None])
                if f is not None:
                    return ["ma-init", ["fl", f], consts[sexp.dumps(f[1]) if f[1] != "bool" else "bool"]]
            return ["add-object", f"o{r.randint(1, 4)}", r.choice(["T", "S", "U"])]
        pre = objs + [op() for _ in range(r.choice([4, 8, 12]))]
        post = []
        for _ in range(n_post):
            k = r.random()
            if k < 0.08:
                post.append(["reclone"])
            elif k < 0.18:
                o = op()
                post += [["left", o], ["right", o]]
            else:
                post.append(["both", op()])
        env = ["env", ["types"] + self.MA_TYPES, ["eun", B(r.random() < 0.8)], ["tytab"], ["simp"]]
        return ["sub", "multiagent", env, ["new", "m", defaults], ["pre"] + pre, ["post"] + post]
