"""Helper of property C02 (only): histories in which `get_applicable_actions` is used as what it is — an
ITERATOR that a client may consume partially, drop, interleave with other iterators and other queries.

Extends the op language of simlib / Drv/C01.lean (model side: Drv/C02.lean, Core/SimIter.lean):

  (open i)    it = sim.get_applicable_actions(state i)   -> iter                 (addressed by the number of this op)
  (next j)    next(it_j)                                  -> (action (obj*)) | end | (raise e)
  (close j)   it_j.close()          (break / any() / next()+garbage collection)  -> closed
  (throw j)   it_j.throw(exc)       (the consuming loop body raised)             -> closed
  (drain j)   list(it_j)                                  -> (drained ((action (obj*))*) end|(raise e))

  IterReal            simlib.Real + the table of iterators of the current run
  iter_interleave_ops random histories over the extended alphabet (drawn from the rng given)
  analyse_c02         the property on the real code for such a history (written from the property text)
  iter_tags           which of the new shapes a history exercises (evidence distribution)
"""
import warnings

warnings.simplefilter("ignore")
from unified_planning.exceptions import UPStateMissingFluentError

import sexp
import simlib
from simlib import REPLACE_DIRTY_SIM, TOLERATED, _slotview

ITER_HEADS = ("open", "next", "close", "throw", "drain")


class _Abandon(Exception):
    """what the body of a consuming `for` loop raises"""


def is_iter_op(op):
    return op[0] in ITER_HEADS


class IterReal(simlib.Real):
    def __init__(self, ps, fns=()):
        super().__init__(ps, fns)
        self.iters = {}
        self.cap = len(self.instances) + 8

    def _inst(self, x):
        a, ps_ = x
        return [a.name, [p.object().name for p in ps_]]

    def iter_query(self, sim, j, op, slots, iters):
        """one iterator op (op number j) on the given simulator and iterator table"""
        h = op[0]
        if h == "open":
            i = int(op[1])
            s = slots[i] if i < len(slots) else None
            if s is None:
                return "no-state"
            try:
                iters[j] = iter(sim.get_applicable_actions(s))
            except Exception as e:
                return self.exc(e)
            return "iter"
        it = iters.get(int(op[1]))
        if it is None:
            return "no-iter"
        if h == "next":
            try:
                return self._inst(next(it))
            except StopIteration:
                return "end"
            except Exception as e:
                return self.exc(e)
        if h in ("close", "throw"):
            if not hasattr(it, "close"):
                # not a generator: dropping the reference is all a client can do
                iters[int(op[1])] = iter(())
                return "closed"
            try:
                if h == "close":
                    it.close()
                else:
                    try:
                        got = it.throw(_Abandon())
                    except (_Abandon, StopIteration):
                        return "closed"
                    return ["yielded", self._inst(got)]
            except Exception as e:
                return self.exc(e)
            return "closed"
        if h == "drain":
            items = []
            while True:
                try:
                    items.append(self._inst(next(it)))
                except StopIteration:
                    return ["drained", items, "end"]
                except Exception as e:
                    return ["drained", items, self.exc(e)]
                if len(items) > self.cap:
                    return ["drained", items, ["raise", "endless"]]
        raise ValueError(op)

    def query_at(self, sim, j, op, slots, iters):
        if is_iter_op(op):
            return self.iter_query(sim, j, op, slots, iters), None
        return self.query(sim, op, slots)

    def run(self, ops):
        """as simlib.Real.run, with the table of iterators of this run (all on self.sim)"""
        try:
            s0 = self.sim.get_initial_state()
        except Exception:
            s0 = None
        if REPLACE_DIRTY_SIM and self.dirty(self.sim):
            self.new_sim()
            self.replaced += 1
        self.iters = {}
        slots, out = [s0], []
        for j, op in enumerate(ops, start=1):
            a, st = self.query_at(self.sim, j, op, slots, self.iters)
            out.append(a)
            slots.append(st)
            if REPLACE_DIRTY_SIM and self.dirty(self.sim):
                self.new_sim()
                self.replaced += 1
        return out, slots


def make_real(ps, fns=()):
    """simlib.make_real for IterReal"""
    from unified_planning.exceptions import UPProblemDefinitionError, UPUsageError
    try:
        r = IterReal(ps, fns)
    except UPUsageError:
        simlib.KEPT_OUT["unsupported-kind"] += 1
        raise simlib.Skip("unsupported kind")
    try:
        r.sim.get_initial_state()
    except UPProblemDefinitionError:
        simlib.KEPT_OUT["initial-violates-invariants"] += 1
        raise simlib.Skip("initial state violates invariants")
    except Exception:
        pass
    if REPLACE_DIRTY_SIM and r.dirty(r.sim):
        r.new_sim()
    return r


# ------------------------------------------------------------------------------------------------
# generation
# ------------------------------------------------------------------------------------------------

def iter_interleave_ops(real, rng, n_ops):
    """random history over the five queries, re-readings, and iterator operations: enumerations that are left after k
    elements (dropped silently, closed, or left by an exception), several enumerations — of one state and of different
    states — pulled alternately, other queries between two `next`, complete enumerations after incomplete ones.
    Only `apply` / `init` are executed here (to know the states); every enumeration happens first in impl()."""
    ops = [["init"]]
    ans, sl = real.run(ops)
    if sl[1] is None:
        return ops
    states = {1: sl[1]}
    live = [1]
    handles = []          # [op number of the open, state index]
    enumerated = []       # state indices on which some enumeration was started

    def push(op):
        ops.append(op)
        return len(ops)

    def do_apply(op):
        a, s2 = real.query(real.sim, op, _slotview(states))
        if REPLACE_DIRTY_SIM and real.dirty(real.sim):
            real.new_sim()
        if s2 is not None:
            states[len(ops)] = s2
            live.append(len(ops))

    def pick_state():
        return rng.choice(live[-4:]) if rng.random() < 0.7 else rng.choice(live)

    def open_on(i):
        j = push(["open", str(i)])
        handles.append([j, i])
        enumerated.append(i)
        return j

    def finish(hd):
        """leave the enumeration: silently, by close(), by an exception; sometimes keep asking it afterwards"""
        k = rng.random()
        if k < 0.4:
            pass
        elif k < 0.7:
            push(["close", str(hd[0])])
        else:
            push(["throw", str(hd[0])])
        if rng.random() < 0.25:
            push(["next", str(hd[0])])
        handles.remove(hd)

    app_cache = {}

    def applicable_of(i):
        """instances applicable in state i according to the GENERATION simulator (a complete enumeration on real.sim,
        which is not the simulator instance impl() runs the history on)"""
        if i not in app_cache:
            try:
                app_cache[i] = [(a.name, [p.object().name for p in ps_]) for a, ps_ in real.sim.get_applicable_actions(states[i])]
            except Exception:
                app_cache[i] = []
            if REPLACE_DIRTY_SIM and real.dirty(real.sim):
                real.new_sim()
        return app_cache[i]

    def pick_instance(i):
        """mostly a random ground instance (usually not applicable), sometimes an applicable one (new states)"""
        cand = applicable_of(i) if rng.random() < 0.4 else []
        return rng.choice(cand) if cand else rng.choice(real.instances)

    # a few successful applies first in most histories, so that there are DIFFERENT states to enumerate
    if real.instances and rng.random() < 0.65:
        for _ in range(rng.choice([1, 2, 3, 4])):
            i0 = rng.choice(live)
            cand = applicable_of(i0)
            an, args = rng.choice(cand) if cand and rng.random() < 0.85 else rng.choice(real.instances)
            push(["apply", str(i0), an, list(args)])
            do_apply(ops[-1])
    # the FIRST enumeration this simulator instance is asked for is often one that is not completed
    if rng.random() < 0.7:
        j = open_on(pick_state())
        for _ in range(rng.choice([0, 1, 1, 1, 2, 2, 3])):
            push(["next", str(j)])
        if rng.random() < 0.6:
            finish(handles[-1])
    while len(ops) < n_ops:
        i = pick_state()
        k = rng.random()
        if k < 0.24 and real.instances:
            an, args = pick_instance(i)
            pair = [["isapp", str(i), an, list(args)], ["apply", str(i), an, list(args)]]
            if rng.random() < 0.5:
                pair.reverse()
            for op in pair:
                push(op)
                if op[0] == "apply":
                    do_apply(op)
        elif k < 0.31:
            push(["applicable", str(rng.choice(enumerated) if enumerated and rng.random() < 0.6 else i)])
        elif k < 0.33:
            push(["init"])
            a, s2 = real.query(real.sim, ops[-1], _slotview(states))
            if s2 is not None:
                states[len(ops)] = s2
                live.append(len(ops))
        elif k < 0.40:
            push(["goal", str(i)])
            push(["ugoals", str(i)])
        elif k < 0.44:
            push(["ugoals", str(i)])
        elif k < 0.54:
            push(["dump", str(i)])
        else:
            # iterator operations
            if not handles or (len(handles) < 4 and rng.random() < 0.3):
                others = [x for x in live if all(x != hd_[1] for hd_ in handles)]
                r = rng.random()
                if handles and r < 0.4:
                    open_on(rng.choice(handles)[1])       # a second enumeration of a state being enumerated
                elif handles and others and r < 0.8:
                    open_on(rng.choice(others))           # an enumeration of another state at the same time
                else:
                    open_on(i)
                continue
            if len(live) >= 2 and rng.random() < 0.12:
                # two enumerations of DIFFERENT states, both suspended in the middle, pulled alternately, then completed
                i1, i2 = rng.sample(live, 2)
                j1 = open_on(i1)
                push(["next", str(j1)])
                j2 = open_on(i2)
                for _ in range(rng.choice([1, 2, 3])):
                    push(["next", str(j2)])
                    push(["next", str(j1)])
                if rng.random() < 0.7:
                    push(["drain", str(j1)])
                    push(["drain", str(j2)])
                    handles[:] = [x for x in handles if x[0] not in (j1, j2)]
                continue
            hd = rng.choice(handles)
            r = rng.random()
            if r < 0.50:
                push(["next", str(hd[0])])
            elif r < 0.70 and len(handles) >= 2:
                # element by element from two enumerations
                rest = [x for x in handles if x is not hd]
                diff = [x for x in rest if x[1] != hd[1]]
                other = rng.choice(diff) if diff and rng.random() < 0.6 else rng.choice(rest)
                for _ in range(rng.choice([1, 2, 3])):
                    push(["next", str(hd[0])])
                    push(["next", str(other[0])])
            elif r < 0.80:
                push(["drain", str(hd[0])])
                if rng.random() < 0.3:
                    push(["next", str(hd[0])])
                handles.remove(hd)
            else:
                finish(hd)
    # complete enumerations after all the incomplete ones, on the states that were being enumerated
    seen = []
    for i in reversed(enumerated):
        if i not in seen:
            seen.append(i)
    for i in seen[:3]:
        if rng.random() < 0.5:
            push(["applicable", str(i)])
        else:
            j = push(["open", str(i)])
            push(["drain", str(j)])
    # final re-reading of every state
    for i in live:
        push(["dump", str(i)])
    return ops


# ------------------------------------------------------------------------------------------------
# which shapes a history exercises (from the ops and the answers of the real run)
# ------------------------------------------------------------------------------------------------

def handle_histories(ops, answers):
    """{op number of an open: (state index, [(op number, head, answer)...])} for the opens that created an iterator"""
    hs = {}
    for j, (op, a) in enumerate(zip(ops, answers), start=1):
        if op[0] == "open":
            if a == "iter":
                hs[j] = (int(op[1]), [])
        elif op[0] in ITER_HEADS:
            k = int(op[1])
            if k in hs:
                hs[k][1].append((j, op[0], a))
    return hs


def _is_item(a):
    return isinstance(a, list) and len(a) == 2 and isinstance(a[0], str) and a[0] not in ("raise", "yielded", "tolerated")


def iter_tags(ops, answers):
    tags = set()
    hs = handle_histories(ops, answers)
    if not hs:
        return tags
    tags.add("iter:used")
    # when does each enumeration end (if ever): op number of the first end/raise/close/throw/drain
    enum_starts = []     # (op number, kind) of every enumeration start: open or applicable
    for j, op in enumerate(ops, start=1):
        if op[0] == "applicable" or (op[0] == "open" and j in hs):
            enum_starts.append(j)
    for k, (i, acts) in hs.items():
        complete_at = None       # op number at which the enumeration was complete (it reported its end), if ever
        left = False             # the client closed it / threw into it before that
        pulled = 0
        for (j, h, a) in acts:
            if h == "next" and _is_item(a):
                pulled += 1
            elif h in ("close", "throw"):
                left = True
                break
            elif h in ("drain", "next"):
                complete_at = j
                break
        if complete_at is None:
            tags.add("iter:left-incomplete")
            if pulled:
                tags.add("iter:take-k-then-drop")
            if not left:
                tags.add("iter:dropped-silently")
        # another enumeration is started while this one is incomplete (suspended or abandoned)
        later = [e for e in enum_starts if e > k and (complete_at is None or e < complete_at)]
        if later:
            tags.add("iter:enumeration-started-while-another-incomplete")
            if k == enum_starts[0]:
                tags.add("iter:first-enumeration-incomplete-when-next-starts")
        for (j, h, a) in acts:
            if h == "throw":
                tags.add("iter:left-by-exception")
            if h == "close":
                tags.add("iter:closed")
            if h == "next" and isinstance(a, list) and a and a[0] == "raise":
                tags.add("iter:next-raised")
        # operations of others between the first and the last `next` of this handle
        nx = [j for (j, h, a) in acts if h == "next"]
        if len(nx) >= 2:
            between = [ops[j - 1] for j in range(nx[0] + 1, nx[-1]) if j not in nx]
            if any(o[0] == "next" for o in between):
                tags.add("iter:two-enumerations-alternating")
                if any(o[0] == "next" and hs.get(int(o[1]), (None,))[0] not in (None, i) for o in between):
                    tags.add("iter:alternating-on-different-states")
                if any(o[0] == "next" and hs.get(int(o[1]), (None,))[0] == i for o in between):
                    tags.add("iter:alternating-on-one-state")
            if any(o[0] in ("apply", "isapp", "goal", "ugoals", "applicable") for o in between):
                tags.add("iter:other-queries-between-nexts")
    if len({i for i, _ in hs.values()}) >= 2:
        tags.add("iter:several-states")
    return tags


# ------------------------------------------------------------------------------------------------
# the property on the real code
# ------------------------------------------------------------------------------------------------

def analyse_c02(pl):
    """C02 on the real code for a history that may contain iterator operations:
      * is_applicable == (apply is not None); is_goal == (get_unsatisfied_goals returns []);
      * every complete get_applicable_actions == the instances on which apply succeeds;
      * every iterator: each element it yields is an instance on which apply succeeds, no element twice, and when it
        reports the end (not closed / left by the client before) it has yielded all of them;
      * answering a query changes neither the states nor the answer to any later query: every complete answer == the same
        query on a FRESH simulator; what an iterator answers == what an iterator of the same state answers to the same
        operations on a FRESH simulator that is asked nothing else; every state re-reads as when it was created."""
    ps, fns, ops = pl[1], pl[2][1:], pl[3][1:]
    real = IterReal(ps, fns)
    answers, slots = real.run(ops)
    created = {}
    for j, (op, a) in enumerate(zip(ops, answers), start=1):
        if op[0] in ("init", "apply") and slots[j] is not None:
            created[j] = a
    try:
        created[0] = real.dump(slots[0]) if slots[0] is not None else None
    except Exception:
        created[0] = None
    if created[0] is None:
        del created[0]
    box = [real.fresh()]

    def aux():
        if REPLACE_DIRTY_SIM and real.dirty(box[0]):
            box[0] = real.fresh()
        return box[0]

    want_cache = {}

    def succeeding(i):
        """instances on which apply succeeds in state i (asked on the auxiliary simulator), or an error string"""
        if i not in want_cache:
            want = []
            s = slots[i]
            for an, args in real.instances:
                try:
                    if aux().apply(s, real.P.action(an), real.params(args)) is not None:
                        want.append([an, list(args)])
                except Exception as e:
                    want = f"apply {an}{args} raised {type(e).__name__}"
                    break
            want_cache[i] = want
        return want_cache[i]

    hs = handle_histories(ops, answers)
    for j, (op, a) in enumerate(zip(ops, answers), start=1):
        h = op[0]
        if h == "init":
            continue
        if h in ITER_HEADS:
            if h == "open":
                if isinstance(a, list):
                    return f"get_applicable_actions raised {a[1]} when called"
                i = int(op[1])
            else:
                k = int(op[1])
                if k not in hs:
                    continue
                i = hs[k][0]
            # the state the enumeration is about still reads as when it was created
            if i in created and slots[i] is not None and real.dump(slots[i]) != created[i]:
                return f"state {i} changed after {sexp.dumps(op)}"
            continue
        i = int(op[1])
        s = slots[i] if i < len(slots) else None
        if s is None:
            continue
        tolerated = a == TOLERATED
        fa, _ = real.query(real.fresh(), op, slots)
        if fa != a and not tolerated:
            return (f"answer depends on the history of the simulator: {sexp.dumps(op)} -> {sexp.dumps(a)[:200]} after earlier "
                    f"queries, {sexp.dumps(fa)[:200]} on a fresh simulator")
        if i in created and real.dump(s) != created[i]:
            return f"state {i} changed after {sexp.dumps(op)}"
        if h in ("apply", "isapp"):
            act, par = real.P.action(op[2]), real.params(op[3])
            try:
                ia = aux().is_applicable(s, act, par)
                ap = aux().apply(s, act, par)
            except Exception as e:
                return f"{h} {op[2]}{op[3]}: raised {type(e).__name__}"
            if ia != (ap is not None):
                return f"is_applicable={ia} but apply returns {'a state' if ap is not None else 'None'} for {op[2]}{op[3]} in state {i}"
        elif h == "applicable" and not tolerated:
            want = succeeding(i)
            if isinstance(want, str):
                return want
            if a != want:
                return f"get_applicable_actions in state {i} = {sexp.dumps(a)}, apply succeeds exactly on {sexp.dumps(want)}"
        elif h in ("goal", "ugoals"):
            try:
                ig = aux().is_goal(s)
            except Exception as e:
                return f"is_goal raised {type(e).__name__}"
            try:
                ug = aux().get_unsatisfied_goals(s)
                empty = len(ug) == 0
            except UPStateMissingFluentError:
                empty = False
            except Exception as e:
                return f"get_unsatisfied_goals raised {type(e).__name__}"
            if ig != empty:
                return f"is_goal={ig} but get_unsatisfied_goals returns {'[]' if empty else 'a non-empty list / raises'} in state {i}"
    # the iterators, one by one
    for k, (i, acts) in hs.items():
        if slots[i] is None:
            continue
        yielded = []
        ended = False        # reported the end by itself
        left = False         # closed / thrown into by the client
        for (j, h, a) in acts:
            if h == "next":
                if _is_item(a):
                    if ended or left:
                        return f"iterator of op {k} (state {i}) yields {sexp.dumps(a)} after it had finished"
                    yielded.append(a)
                elif a == "end":
                    ended = ended or not left
                else:
                    return f"next on the iterator of op {k} (state {i}) raised {sexp.dumps(a)}"
            elif h == "drain":
                if a[2] != "end":
                    return f"enumeration of op {k} (state {i}) raised {sexp.dumps(a[2])}"
                if (ended or left) and a[1]:
                    return f"iterator of op {k} (state {i}) yields {sexp.dumps(a[1])} after it had finished"
                yielded += a[1]
                ended = ended or not left
            elif h in ("close", "throw"):
                if a != "closed":
                    return f"{h} on the iterator of op {k} (state {i}) answered {sexp.dumps(a)}"
                left = left or not ended
        want = succeeding(i)
        if isinstance(want, str):
            return want
        keys = [sexp.dumps(y) for y in yielded]
        if len(set(keys)) != len(keys):
            return f"get_applicable_actions (op {k}, state {i}) yields an instance twice: {sexp.dumps(yielded)}"
        wk = {sexp.dumps(w) for w in want}
        bad = [y for y in yielded if sexp.dumps(y) not in wk]
        if bad:
            return f"get_applicable_actions (op {k}, state {i}) yields {sexp.dumps(bad[0])} on which apply does not succeed"
        if ended and set(keys) != wk:
            missing = [w for w in want if sexp.dumps(w) not in set(keys)]
            return (f"get_applicable_actions (op {k}, state {i}) ended after {sexp.dumps(yielded)}; apply also succeeds on "
                    f"{sexp.dumps(missing)}")
        # the same operations on an iterator of a fresh simulator that is asked nothing else
        fresh, fit = real.fresh(), {}
        fa = [real.iter_query(fresh, k, ["open", str(i)], slots, fit)]
        fa += [real.iter_query(fresh, j, [h, str(k)], slots, fit) for (j, h, a) in acts]
        got = ["iter"] + [a for (_, _, a) in acts]
        if fa != got:
            d = next(n for n in range(len(got)) if fa[n] != got[n])
            what = "open" if d == 0 else f"{acts[d - 1][1]} (op {acts[d - 1][0]})"
            return (f"answer depends on the history of the simulator: iterator of op {k} on state {i} answers {sexp.dumps(got[d])[:200]} "
                    f"to its {what}; an iterator of that state on a fresh simulator answers {sexp.dumps(fa[d])[:200]}")
    for k, d in created.items():
        if slots[k] is not None and real.dump(slots[k]) != d:
            return f"state {k} reads differently at the end of the history"
    return None
