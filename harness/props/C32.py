"""C32 — Factory engine selection honours every requested requirement."""
import sys
import types
import warnings

warnings.simplefilter("ignore")
import unified_planning as up
from unified_planning.environment import Environment
from unified_planning.engines.factory import Factory, DEFAULT_ENGINES
from unified_planning.engines.engine import Engine, OperationMode
from unified_planning.engines import mixins
from unified_planning.engines.mixins.action_selector import ActionSelectorMixin
from unified_planning.engines.mixins.oneshot_planner import OptimalityGuarantee
from unified_planning.engines.mixins.anytime_planner import AnytimeGuarantee
from unified_planning.engines.mixins.compiler import CompilationKind
from unified_planning.plans import PlanKind
from unified_planning.model.problem_kind import ProblemKind, all_features
from unified_planning.model.problem_kind_versioning import FEATURES_VERSIONS, LATEST_PROBLEM_KIND_VERSION
from unified_planning.exceptions import (UPNoSuitableEngineAvailableException,
                                         UPNoRequestedEngineAvailableException)

ID = "C32"
GEN = ["Features"]
CORR_NAME = "selected-engine-or-error"
RULE = ("a FRESH real Factory per case; 2-6 synthetic engine classes (random operation-mode mixins, supported kind, "
        "guarantees, plan kinds, compilation kinds, declared resulting kind) registered with add_engine next to the "
        "built-in registry; a random preference list over synthetic and built-in names (subsets, permutations, "
        "duplicates, the factory's own default list, rarely an unregistered name); requests = every operation mode x "
        "random kind (versions None/1..latest) x the requirements the mode admits (about 12% ill-shaped ones, 5% by "
        "name); pipelines of 1-3 compilation kinds over synthetic compilers with clone/unset/set transformers and the "
        "built-in compilers (their resulting_problem_kind tabulated by reflection), on kinds of every version; a "
        "deterministic sweep gives every built-in compiler its own supported kind, at the latest version and expressed "
        "at each older explicit version (incl. the deprecated number features at version 1). Compared: _get_engine_class, the "
        "public entry point (OneshotPlanner/AnytimePlanner/PlanValidator/Compiler/SequentialSimulator/PlanRepairer/"
        "ActionSelector/PortfolioSelector) and get_all_applicable_engines -> selected name(s) or error class. "
        "Non-trivial = an engine other than the first of the preference list is selected, or the no-suitable-engine "
        "error is raised although some listed engine implements the mode, or a pipeline of >= 2 stages / a failing pipeline.")
ASSUMPTIONS = [
    "'registered engine' in the third clause is read as 'engine named in the preference list': an engine left out of "
    "the list is documented (preference_list setter) never to be selected automatically",
    "selection by name is documented to bypass the checks; the property is about requests without a name "
    "(by-name requests are still compared with the model)",
    "the third clause is demanded for requests the public entry points can express (the mode/requirement table in the "
    "docstring of get_all_applicable_engines) and for preference lists of registered names; other requests fail an "
    "assert / KeyError in the code and in the model alike",
    "engine classes get is_<mode>() from the corresponding mixin (EngineMeta), so the issubclass asserts that follow "
    "a successful is_<mode>() test are not modelled",
    "meta-engines (names with '[...]') are kept out of the generated preference lists: their supports() is not "
    "`kind <= supported_kind()`",
    "Factory.Replanner is observed through _get_engine_class only: _get_engine adds a usage check on quality metrics "
    "for that mode which is outside this property",
    "pipeline cases use kinds without features deprecated at the kind's version: ProblemKind.__le__ strips such "
    "features from its operands in place, so a later stage would see a kind that depends on the earlier comparisons",
]
MODELLED = ["modelled by hand (tied by correspondence): Factory._engine_satisfies_conditions, _get_engine_class, "
            "get_all_applicable_engines, the compilers-pipeline branch of _get_engine; ProblemKind.__le__ as in C33 "
            "(tables regenerated from source)",
            "engine classes are records of their static predicates, read from the real classes by reflection for the "
            "built-in engines; Python dict/list semantics; importlib registration of classes"]
BUDGET_S = {"quick": 60, "thorough": 600}

MODES = [om.value for om in OperationMode]
MIXIN = {
    "oneshot_planner": mixins.OneshotPlannerMixin, "anytime_planner": mixins.AnytimePlannerMixin,
    "plan_validator": mixins.PlanValidatorMixin, "portfolio_selector": mixins.PortfolioSelectorMixin,
    "compiler": mixins.CompilerMixin, "sequential_simulator": mixins.SequentialSimulatorMixin,
    "replanner": mixins.ReplannerMixin, "plan_repairer": mixins.PlanRepairerMixin,
    "action_selector": ActionSelectorMixin,
}
# which optional requirements each operation mode admits (docstring of get_all_applicable_engines)
ADMITS = {
    "oneshot_planner": {"opt"}, "replanner": {"opt"}, "portfolio_selector": {"opt"},
    "plan_validator": {"plan"}, "compiler": {"comp"}, "anytime_planner": {"any"},
    "plan_repairer": {"plan", "opt"}, "sequential_simulator": set(), "action_selector": set(),
}
OPTS = [g.name for g in OptimalityGuarantee]
ANYS = [g.name for g in AnytimeGuarantee]
PLANS = [p.name for p in PlanKind]
COMPS = [c.name for c in CompilationKind]
FEATS = sorted(all_features)
DEPRECATED = sorted(f for f, (a, d) in FEATURES_VERSIONS.items() if d is not None)
NEWER = sorted(f for f, (a, d) in FEATURES_VERSIONS.items() if a > 1)
VERSIONS = [None] + list(range(1, LATEST_PROBLEM_KIND_VERSION + 1))
SYNTH_MODULE = "upverif_c32_synthetic_engines"
ENV = Environment()   # a Factory only keeps a reference to its environment; every case gets its own Factory(ENV)


def added(f):
    return FEATURES_VERSIONS.get(f, (1, None))[0]


def valid_at(f, v):
    a, d = FEATURES_VERSIONS.get(f, (1, None))
    return a <= v and (d is None or d > v)


# ------------------------------------------------------------------------------------------------
# s-expression <-> python data
# ------------------------------------------------------------------------------------------------

def enc_kind(k):
    fs, v = k
    return ["k", sorted(fs), "none" if v is None else str(v)]


def dec_kind(e):
    return (set(e[1]), None if e[2] == "none" else int(e[2]))


def mk(k):
    fs, v = k
    return ProblemKind(set(fs), version=v)


def kind_of(pk):
    return (set(pk.features), pk._version)


def opt_atom(x):
    return "-" if x is None else x


def dec_req(e):
    # (req mode K opt comp plan any)
    un = lambda a: None if a == "-" else a
    return {"mode": e[1], "kind": dec_kind(e[2]), "opt": un(e[3]), "comp": un(e[4]), "plan": un(e[5]), "any": un(e[6])}


def dec_tr(e):
    if e[0] == "id":
        return ("id",)
    if e[0] == "rules":
        return ("rules", set(e[1][1:]), set(e[2][1:]))
    if e[0] == "table":
        return ("table", [(row[0], dec_kind(row[1]), ("raises", row[2][1]) if row[2][0] == "raises" else dec_kind(row[2]))
                          for row in e[1:]])
    raise ValueError("transformer")


def dec_engine(e):
    # (eng name (modes) K (opts) (anys) (plans) (comps) TR)
    return {"name": e[1], "modes": list(e[2]), "kind": dec_kind(e[3]), "opts": list(e[4]), "anys": list(e[5]),
            "plans": list(e[6]), "comps": list(e[7]), "tr": dec_tr(e[8])}


def dec_factory(e):
    return [dec_engine(x) for x in e[1]], list(e[2][1:])


def apply_rules(k, rem, add):
    fs, v = k
    return ((set(fs) - set(rem)) | set(add), v)


# ------------------------------------------------------------------------------------------------
# real engine classes
# ------------------------------------------------------------------------------------------------

def synth_module():
    m = sys.modules.get(SYNTH_MODULE)
    if m is None:
        m = types.ModuleType(SYNTH_MODULE)
        sys.modules[SYNTH_MODULE] = m
    return m


def make_class(spec):
    """a real Engine subclass deriving from the mixins of its operation modes"""
    name = spec["name"]
    feats, ver = set(spec["kind"][0]), spec["kind"][1]
    opts, anys, plans, comps, tr = set(spec["opts"]), set(spec["anys"]), set(spec["plans"]), set(spec["comps"]), spec["tr"]

    def supported_kind():
        return ProblemKind(set(feats), version=ver)

    def supports(problem_kind):
        return problem_kind <= supported_kind()

    def resulting_problem_kind(problem_kind, compilation_kind=None):
        # the usual shape in the library: clone(), unset_*(…), set_*(…)
        if tr[0] == "id":
            return problem_kind.clone()
        if tr[0] == "rules":
            return ProblemKind((set(problem_kind.features) - tr[1]) | tr[2], version=problem_kind._version)
        raise AssertionError("table transformers belong to built-in engines")

    d = {
        "__init__": lambda self, *a, **kw: None,
        "name": property(lambda self: name),
        "supported_kind": staticmethod(supported_kind),
        "supports": staticmethod(supports),
        "satisfies": staticmethod(lambda g: g.name in opts),
        "ensures": staticmethod(lambda g: g.name in anys),
        "supports_plan": staticmethod(lambda p: p.name in plans),
        "supports_compilation": staticmethod(lambda c: c.name in comps),
        "resulting_problem_kind": staticmethod(resulting_problem_kind),
        "_upverif_name": name,
    }
    cls = type(Engine)("Synth_" + name, (Engine,) + tuple(MIXIN[m] for m in spec["modes"]), d)
    cls.__abstractmethods__ = frozenset()
    return cls


_REFLECT = {}


def reflect(name, cls):
    """the record of a registered class, read through the same static methods the factory calls
    (cached per class: the classes of the library are fixed within one run)"""
    key = (name, cls)
    if key not in _REFLECT:
        _REFLECT[key] = _reflect(name, cls)
    return _REFLECT[key]


def _reflect(name, cls):
    sk = cls.supported_kind()
    return {"name": name, "modes": [m for m in MODES if getattr(cls, "is_" + m)()],
            "kind": kind_of(sk),
            "opts": [g.name for g in OptimalityGuarantee if hasattr(cls, "satisfies") and cls.satisfies(g)],
            "anys": [g.name for g in AnytimeGuarantee if hasattr(cls, "ensures") and cls.ensures(g)],
            "plans": [p.name for p in PlanKind if hasattr(cls, "supports_plan") and cls.supports_plan(p)],
            "comps": [c.name for c in CompilationKind if hasattr(cls, "supports_compilation") and cls.supports_compilation(c)]}


def tabulate(cls, kin, ck):
    """one row of a built-in compiler's declared resulting kind (or the exception it raises)"""
    try:
        return kind_of(cls.resulting_problem_kind(mk(kin), CompilationKind[ck]))
    except Exception as ex:
        return ("raises", type(ex).__name__)


_BASE = {}


def base_factory_info():
    """names / records of the built-in (non-meta, in-library) engines of a fresh factory"""
    if not _BASE:
        f = Factory(ENV)
        names = [n for n in f.engines if "[" not in n and n in DEFAULT_ENGINES
                 and DEFAULT_ENGINES[n][0].startswith("unified_planning.")]
        _BASE["names"] = sorted(names)
        _BASE["records"] = {n: reflect(n, f.engine(n)) for n in names}
        _BASE["default_pref"] = [n for n in f.preference_list if n in names]
    return _BASE


class Stale(Exception):
    pass


def build(fac):
    """fresh real Factory with the case's synthetic engines registered and its preference list set.
    Returns (factory, {class -> registry name})."""
    engines, pref = fac
    f = Factory(ENV)
    builtin = set(f.engines)
    back = {}
    mod = synth_module()
    for spec in engines:
        n = spec["name"]
        if n in builtin:
            cls = f.engine(n)
            rec = reflect(n, cls)
            for key in ("modes", "opts", "anys", "plans", "comps"):
                if sorted(rec[key]) != sorted(spec[key]):
                    raise Stale(f"{n}.{key}")
            if (rec["kind"][0], rec["kind"][1]) != (spec["kind"][0], spec["kind"][1]):
                raise Stale(f"{n}.kind")
            if spec["tr"][0] == "table":
                for ck, kin, kout in spec["tr"][1]:
                    if tabulate(cls, kin, ck) != kout:
                        raise Stale(f"{n}.resulting_problem_kind")
        else:
            cls = make_class(spec)
            setattr(mod, cls.__name__, cls)
            f.add_engine(n, SYNTH_MODULE, cls.__name__)
        back[cls] = n
    f.preference_list = list(pref)
    return f, back


def outcome(back, thunk, many=False):
    try:
        res = thunk()
    except UPNoSuitableEngineAvailableException:
        return "no-suitable"
    except UPNoRequestedEngineAvailableException:
        return "no-requested"
    except AssertionError:
        return "assertion"
    except KeyError:
        return "key-error"
    except Exception as e:  # anything else is a disagreement by construction
        return ["other", type(e).__name__]
    if many:
        return res
    cls = res if isinstance(res, type) else type(res)
    return ["sel", back.get(cls, "?" + cls.__name__)]


def enum_args(r):
    return dict(
        optimality_guarantee=None if r["opt"] is None else OptimalityGuarantee[r["opt"]],
        compilation_kind=None if r["comp"] is None else CompilationKind[r["comp"]],
        plan_kind=None if r["plan"] is None else PlanKind[r["plan"]],
        anytime_guarantee=None if r["any"] is None else AnytimeGuarantee[r["any"]])


def well_shaped(r):
    given = {x for x in ("opt", "comp", "plan", "any") if r[x] is not None}
    return given <= ADMITS[r["mode"]]


class _Problem(up.model.Problem):
    """an (empty) real problem reporting the case's kind: SequentialSimulator / ActionSelector take the kind from
    their `problem` argument, and built-in simulators need a real problem to be instantiated"""

    def __init__(self, kind):
        super().__init__("c32")
        self._c32_kind = kind

    @property
    def kind(self):
        return self._c32_kind


def public_call(f, r):
    a = enum_args(r)
    k = mk(r["kind"])
    m = r["mode"]
    if m == "oneshot_planner":
        og = a["optimality_guarantee"]
        return f.OneshotPlanner(problem_kind=k, optimality_guarantee=None if og is None else og.name.lower())
    if m == "anytime_planner":
        return f.AnytimePlanner(problem_kind=k, anytime_guarantee=a["anytime_guarantee"])
    if m == "plan_validator":
        return f.PlanValidator(problem_kind=k, plan_kind=a["plan_kind"])
    if m == "compiler":
        return f.Compiler(problem_kind=k, compilation_kind=a["compilation_kind"])
    if m == "sequential_simulator":
        return f.SequentialSimulator(_Problem(k))
    if m == "action_selector":
        return f.ActionSelector(_Problem(k))
    if m == "plan_repairer":
        return f.PlanRepairer(problem_kind=k, plan_kind=a["plan_kind"], optimality_guarantee=a["optimality_guarantee"])
    if m == "portfolio_selector":
        return f.PortfolioSelector(problem_kind=k, optimality_guarantee=a["optimality_guarantee"])
    raise ValueError(m)


def impl(payload):
    try:
        f, back = build(dec_factory(payload[1]))
    except Stale as e:
        return ["stale-builtin-record", str(e)]
    tag = payload[0]
    if tag == "sel":
        r = dec_req(payload[2])
        a = enum_args(r)
        mode = OperationMode(r["mode"])
        cls = outcome(back, lambda: f._get_engine_class(mode, None, mk(r["kind"]), a["optimality_guarantee"],
                                                        a["compilation_kind"], a["plan_kind"], a["anytime_guarantee"]))
        if well_shaped(r) and r["mode"] != "replanner":
            pub = outcome(back, lambda: public_call(f, r))
        else:
            pub = "n/a"
        al = outcome(back, lambda: f.get_all_applicable_engines(mk(r["kind"]), mode, **a), many=True)
        al = ["ok"] + list(al) if isinstance(al, list) and (not al or al[0] != "other") else ["err", al]
        return [["cls", cls], ["pub", pub], ["all", al]]
    if tag == "byname":
        r = dec_req(payload[2])
        a = enum_args(r)
        return outcome(back, lambda: f._get_engine_class(OperationMode(r["mode"]), payload[3], mk(r["kind"]),
                                                         a["optimality_guarantee"], a["compilation_kind"],
                                                         a["plan_kind"], a["anytime_guarantee"]))
    if tag == "pipe":
        k = dec_kind(payload[2])
        cks = [CompilationKind[c] for c in payload[3]]
        res = outcome(back, lambda: f.Compiler(problem_kind=mk(k), compilation_kinds=cks), many=True)
        if isinstance(res, (str, list)):
            return ["err", res]
        return ["ok"] + [back.get(type(c), "?" + type(c).__name__) for c in res._compilers]
    raise ValueError(tag)


# ------------------------------------------------------------------------------------------------
# the property itself, on the real code
# ------------------------------------------------------------------------------------------------

def qualifies(cls, r, kind):
    """does the real class implement the mode, support the kind and every requested requirement?"""
    a = enum_args(r)
    if not getattr(cls, "is_" + r["mode"])():
        return False
    if not cls.supports(mk(kind)):
        return False
    for val, meth in ((a["optimality_guarantee"], "satisfies"), (a["compilation_kind"], "supports_compilation"),
                      (a["plan_kind"], "supports_plan"), (a["anytime_guarantee"], "ensures")):
        if val is not None and not (hasattr(cls, meth) and getattr(cls, meth)(val)):
            return False
    return True


def oracle(payload):
    try:
        f, back = build(dec_factory(payload[1]))
    except Stale:
        return None
    tag = payload[0]
    registered = all(n in f.engines for n in f.preference_list)
    if tag == "sel":
        r = dec_req(payload[2])
        a = enum_args(r)
        mode = OperationMode(r["mode"])
        calls = [("_get_engine_class", lambda: f._get_engine_class(
            mode, None, mk(r["kind"]), a["optimality_guarantee"], a["compilation_kind"], a["plan_kind"],
            a["anytime_guarantee"]))]
        if well_shaped(r) and r["mode"] != "replanner":
            calls.append(("public entry point", lambda: public_call(f, r)))
        none_qualifies = registered and well_shaped(r) and not any(
            qualifies(f.engine(n), r, r["kind"]) for n in f.preference_list)
        for what, thunk in calls:
            try:
                res = thunk()
            except UPNoSuitableEngineAvailableException:
                continue
            except Exception as e:
                if none_qualifies:
                    return f"{what}: no engine qualifies but {type(e).__name__} is raised instead of the no-suitable-engine error"
                if registered and well_shaped(r):
                    return f"{what}: {type(e).__name__} is raised: neither an engine nor the no-suitable-engine error"
                continue
            cls = res if isinstance(res, type) else type(res)
            if none_qualifies:
                return f"{what}: an engine is returned although none qualifies"
            if not qualifies(cls, r, r["kind"]):
                return f"{what}: returned engine {back.get(cls, cls.__name__)} does not support the kind / a requested requirement"
        return None
    if tag == "pipe":
        k = dec_kind(payload[2])
        cks = [CompilationKind[c] for c in payload[3]]
        stage1 = None
        if cks and registered:
            r1 = {"mode": "compiler", "kind": k, "opt": None, "comp": cks[0].name, "plan": None, "any": None}
            stage1 = any(qualifies(f.engine(n), r1, k) for n in f.preference_list)
        try:
            res = f.Compiler(problem_kind=mk(k), compilation_kinds=cks)
        except UPNoSuitableEngineAvailableException:
            return None
        except Exception as e:
            if stage1 is False:
                return f"pipeline: no compiler qualifies for the first stage but {type(e).__name__} is raised"
            if registered:
                return f"pipeline: {type(e).__name__} is raised: neither a pipeline nor the no-suitable-engine error"
            return None
        if stage1 is False:
            return "pipeline: a pipeline is returned although no compiler qualifies for the first stage"
        cur = mk(k)
        if len(res._compilers) != len(cks):
            return "pipeline: number of compilers differs from the number of requested compilation kinds"
        for i, (c, ck) in enumerate(zip(res._compilers, cks)):
            cls = type(c)
            if not cls.is_compiler() or not cls.supports_compilation(ck):
                return f"pipeline: stage {i} compiler does not support {ck.name}"
            if not cls.supports(ProblemKind(set(cur.features), version=cur._version)):
                return f"pipeline: stage {i} compiler does not support the kind produced by the compilers before it"
            cur = cls.resulting_problem_kind(ProblemKind(set(cur.features), version=cur._version), ck)
        return None
    return None


# ------------------------------------------------------------------------------------------------
# generator
# ------------------------------------------------------------------------------------------------

def rand_feats(rng, allow_deprecated):
    k = rng.choice([0, 1, 1, 2, 3, 5])
    pool = FEATS
    r = rng.random()
    if r < 0.35:
        pool = NEWER + DEPRECATED + ["ACTION_BASED", "ACTIONS_COST", "CONTINUOUS_TIME", "NEGATIVE_CONDITIONS"]
    elif r < 0.7:
        pool = ["ACTION_BASED", "NEGATIVE_CONDITIONS", "CONDITIONAL_EFFECTS", "DISJUNCTIVE_CONDITIONS", "FLAT_TYPING",
                "HIERARCHICAL_TYPING", "EQUALITIES", "EXISTENTIAL_CONDITIONS", "ACTIONS_COST", "INT_FLUENTS",
                "STATE_INVARIANTS", "BOUNDED_TYPES", "CONTINUOUS_TIME"]
    fs = set(rng.choice(pool) for _ in range(k))
    if not allow_deprecated:
        fs -= set(DEPRECATED)
    return fs


def fit_version(rng, fs, v):
    """make (fs, v) constructible: every feature must exist at an explicit version"""
    if v is None:
        return (fs, None)
    need = max([added(f) for f in fs] + [1])
    if need > v:
        v = rng.choice([x for x in VERSIONS if x is not None and x >= need])
    return (fs, v)


def rand_kind(rng, clean=False):
    v = rng.choice(VERSIONS)
    fs = rand_feats(rng, allow_deprecated=not clean)
    if clean:
        # deprecated features only where they are valid: explicit version 1 (and none added later)
        if v == 1 and rng.random() < 0.4:
            fs = set(f for f in fs if added(f) <= 1) | set(rng.sample(DEPRECATED, rng.randint(1, len(DEPRECATED))))
    return fit_version(rng, fs, v)


def sub(rng, xs, p):
    return [x for x in xs if rng.random() < p]


def synth_engine(rng, name, req, clean=False, compiler_bias=False):
    mode = req["mode"]
    modes = set(sub(rng, MODES, 0.12))
    if rng.random() < 0.75:
        modes.add(mode)
    if compiler_bias and rng.random() < 0.9:
        modes.add("compiler")
    # supported kind: mostly a superset of the requested one
    fs, v = set(req["kind"][0]), req["kind"][1]
    r = rng.random()
    if r < 0.6:
        sk = set(fs) | rand_feats(rng, allow_deprecated=not clean)
    elif r < 0.8:
        sk = set(f for f in fs if rng.random() < 0.7) | rand_feats(rng, allow_deprecated=not clean)
    else:
        sk = rand_feats(rng, allow_deprecated=not clean)
    sv = rng.choice(VERSIONS) if rng.random() < 0.6 else v
    if clean:
        sk = set(f for f in sk if f not in DEPRECATED or sv == 1)
        if sv == 1:
            sk = set(f for f in sk if added(f) <= 1)
    kind = fit_version(rng, sk, sv)
    if clean and kind[1] is not None:
        kind = (set(f for f in kind[0] if valid_at(f, kind[1])), kind[1])
    if clean and kind[1] is None:
        kind = (kind[0] - set(DEPRECATED), None)

    def around(pool, wanted, p):
        out = set(sub(rng, pool, 0.25))
        if wanted is not None and rng.random() < p:
            out.add(wanted)
        return sorted(out)
    return {"name": name, "modes": [m for m in MODES if m in modes], "kind": kind,
            "opts": around(OPTS, req["opt"], 0.65), "anys": around(ANYS, req["any"], 0.65),
            "plans": around(PLANS, req["plan"], 0.65), "comps": around(COMPS, req["comp"], 0.65), "tr": ("id",)}


def enc_tr(tr):
    if tr[0] == "id":
        return ["id"]
    if tr[0] == "rules":
        return ["rules", ["rem"] + sorted(tr[1]), ["add"] + sorted(tr[2])]
    return ["table"] + [[ck, enc_kind(kin), list(kout) if kout[0] == "raises" else enc_kind(kout)]
                        for ck, kin, kout in tr[1]]


def enc_engine(e):
    return ["eng", e["name"], list(e["modes"]), enc_kind(e["kind"]), sorted(e["opts"]), sorted(e["anys"]),
            sorted(e["plans"]), sorted(e["comps"]), enc_tr(e["tr"])]


def enc_factory(engines, pref):
    return ["fac", [enc_engine(e) for e in engines], ["pref"] + list(pref)]


def enc_req(r):
    return ["req", r["mode"], enc_kind(r["kind"]), opt_atom(r["opt"]), opt_atom(r["comp"]), opt_atom(r["plan"]),
            opt_atom(r["any"])]


def rand_request(rng):
    mode = rng.choice(MODES)
    r = {"mode": mode, "kind": rand_kind(rng), "opt": None, "comp": None, "plan": None, "any": None}
    pools = {"opt": OPTS, "comp": COMPS[:8], "plan": PLANS[:4], "any": ANYS}
    for x in sorted(ADMITS[mode]):
        if rng.random() < 0.7:
            r[x] = rng.choice(pools[x])
    if rng.random() < 0.12:   # ill-shaped: a requirement the mode does not admit
        x = rng.choice(sorted(set(pools) - ADMITS[mode]))
        r[x] = rng.choice(pools[x])
    return r


def pick_builtins(rng, req, base):
    """built-in engines worth listing for this request: those of the requested mode first"""
    same = [n for n in base["names"] if req["mode"] in base["records"][n]["modes"]]
    out = set(sub(rng, same, 0.5)) | set(sub(rng, base["names"], 0.08))
    return sorted(out)


def rand_pref(rng, names):
    r = rng.random()
    if r < 0.5:
        pref = list(names)
        rng.shuffle(pref)
    elif r < 0.85:
        pref = [n for n in names if rng.random() < 0.7]
        rng.shuffle(pref)
    else:
        pref = [rng.choice(names) for _ in range(rng.randint(0, len(names) + 2))] if names else []
    return pref


def sel_case(rng, base):
    req = rand_request(rng)
    n = rng.randint(2, 6)
    engines = [synth_engine(rng, f"s{i}", req) for i in range(n)]
    bis = pick_builtins(rng, req, base) if rng.random() < 0.35 else []
    if rng.random() < 0.06:
        # the factory's own default preference list, synthetic engines appended as add_engine does
        bis = list(base["names"])
        pref = list(base["default_pref"]) + [e["name"] for e in engines]
    else:
        pref = rand_pref(rng, [e["name"] for e in engines] + bis)
    engines += [dict(base["records"][b], tr=("id",)) for b in bis]
    if rng.random() < 0.03:
        pref.insert(rng.randint(0, len(pref)), "ghost")
    fac = enc_factory(engines, pref)
    if rng.random() < 0.05:
        name = rng.choice([e["name"] for e in engines] + ["ghost"])
        return ["byname", fac, enc_req(req), name]
    return ["sel", fac, enc_req(req)]


def compiler_rules(rng, req_kind):
    """a declared resulting kind: remove some features, add some that exist at the kind's explicit version"""
    v = req_kind[1]
    rem = set(sub(rng, sorted(req_kind[0]), 0.4)) | set(sub(rng, FEATS, 0.02))
    addable = [f for f in FEATS if f not in DEPRECATED and (v is None or added(f) <= v)]
    add = set(rng.sample(addable, rng.choice([0, 0, 1, 2])))
    return ("rules", rem, add)


def pipe_case(rng, base, with_builtins):
    bi_comp = [n for n in base["names"] if "compiler" in base["records"][n]["modes"]]
    if with_builtins and bi_comp:
        # kinds of action-based problems the built-in compilers are about
        chosen = rng.sample(bi_comp, min(len(bi_comp), rng.randint(2, 5)))
        cks = []
        for b in chosen[:rng.randint(1, 3)]:
            cks.append(rng.choice(base["records"][b]["comps"]))
        v = rng.choice(VERSIONS)
        pool = ["ACTION_BASED", "NEGATIVE_CONDITIONS", "CONDITIONAL_EFFECTS", "DISJUNCTIVE_CONDITIONS", "FLAT_TYPING",
                "HIERARCHICAL_TYPING", "EQUALITIES", "EXISTENTIAL_CONDITIONS", "UNIVERSAL_CONDITIONS", "ACTIONS_COST",
                "BOUNDED_TYPES", "STATE_INVARIANTS", "OBJECT_FLUENTS", "CONTINUOUS_TIME", "TIMED_GOALS", "SIMULATED_EFFECTS",
                "STATIC_FLUENTS_IN_ACTIONS_COST", "FORALL_EFFECTS", "INTERPRETED_FUNCTIONS_IN_CONDITIONS", "PLAN_LENGTH"]
        fs = set(["ACTION_BASED"] if rng.random() < 0.9 else []) | set(sub(rng, pool, 0.3))
        if rng.random() < 0.2:
            fs |= rand_feats(rng, allow_deprecated=False)
        if v == 1 and rng.random() < 0.4:
            # the deprecated way of describing numbers, valid at version 1 only (the upgrade rewrites it)
            fs |= set(rng.sample(DEPRECATED, rng.randint(1, len(DEPRECATED))))
        kind = fit_version(rng, fs, v)
    else:
        chosen = []
        cks = [rng.choice(COMPS[:6]) for _ in range(rng.randint(1, 3))]
        kind = rand_kind(rng, clean=True)
        if rng.random() < 0.5:
            kind = (kind[0] | {"ACTION_BASED"}, kind[1])
    engines = []
    for i in range(rng.randint(2, 6)):
        req = {"mode": "compiler", "kind": kind, "opt": None, "comp": rng.choice(cks), "plan": None, "any": None}
        e = synth_engine(rng, f"s{i}", req, clean=True, compiler_bias=True)
        e["tr"] = compiler_rules(rng, kind) if rng.random() < 0.85 else ("id",)
        engines.append(e)
    names = [e["name"] for e in engines] + chosen
    pref = rand_pref(rng, names)
    if with_builtins and rng.random() < 0.3:
        chosen = [n for n in base["names"]]
        pref = list(base["default_pref"]) + [e["name"] for e in engines if rng.random() < 0.5]
    return finish_pipe(base, engines, chosen, pref, kind, cks)


def finish_pipe(base, engines, chosen, pref, kind, cks):
    """tabulate the built-in compilers' declared resulting kinds on every kind a stage can see, and encode"""
    bi = {b: dict(base["records"][b], tr=("table", [])) for b in chosen}
    f0 = Factory(ENV) if bi else None
    level = [kind]
    for si, ck in enumerate(cks):
        nxt = []
        for k in level:
            for e in engines:
                if ck in e["comps"] and "compiler" in e["modes"]:
                    out = k if e["tr"][0] == "id" else apply_rules(k, e["tr"][1], e["tr"][2])
                    if out not in nxt:
                        nxt.append(out)
            for b, rec in bi.items():
                if ck in rec["comps"]:
                    out = tabulate(f0.engine(b), k, ck)
                    row = (ck, k, out)
                    if row not in rec["tr"][1]:
                        rec["tr"][1].append(row)
                    if out[0] != "raises" and out not in nxt:
                        nxt.append(out)
        if len(nxt) > 10:
            cks = cks[:si + 1]
            break
        level = nxt
    all_engines = engines + [bi[b] for b in chosen]
    return ["pipe", enc_factory(all_engines, pref), enc_kind(kind), list(cks)]


def chain_case(rng, base):
    """3-4 stage pipelines over dedicated synthetic compilers in which an EARLY stage adds a feature that a LATER stage
    may not support and intermediate stages keep: whether the pipeline exists depends on chaining every declared
    resulting kind from the previous stage's (not from the requested kind)."""
    n = rng.choice([3, 3, 4])
    cks = rng.sample(COMPS, n)
    v = rng.choice([None, LATEST_PROBLEM_KIND_VERSION])
    pool = [f for f in FEATS if f not in DEPRECATED]
    base_fs = set(rng.sample(pool, rng.randint(1, 4))) | {"ACTION_BASED"}
    kind = fit_version(rng, base_fs, v)
    extra = [f for f in pool if f not in kind[0]]
    f_add = rng.sample(extra, 2)
    engines = []
    cur = set(kind[0])
    for i, ck in enumerate(cks):
        for j in range(rng.choice([1, 2])):
            sup = set(cur) | set(rng.sample(pool, rng.randint(0, 3)))
            if i == 0:
                tr = ("rules", set(sub(rng, sorted(cur - {"ACTION_BASED"}), 0.3)), {f_add[0]} if j == 0 else set(f_add))
            elif i < n - 1:
                tr = ("id",) if rng.random() < 0.5 else ("rules", set(sub(rng, sorted(kind[0] - {"ACTION_BASED"}), 0.5)), set())
            else:
                tr = ("id",)
                if rng.random() < 0.6:      # the last stage does not support what the first stage added
                    sup -= set(f_add)
            if i > 0 and i < n - 1:
                sup |= set(f_add)
            engines.append({"name": f"c{i}_{j}", "modes": ["compiler"], "kind": (sup, kind[1] if kind[1] is not None else None),
                            "opts": [], "anys": [], "plans": [], "comps": [ck], "tr": tr})
        if i == 0:
            cur = set(cur) | set(f_add)
    pref = [e["name"] for e in engines]
    rng.shuffle(pref)
    return finish_pipe(base, engines, [], pref, kind, cks)


def builtin_sweep(base, full):
    """deterministic: every built-in compiler on its own full supported kind, alone and followed by every other
    built-in compilation kind, under the factory's default preference list (exercises each declared
    resulting_problem_kind through the pipeline branch)"""
    comp = [n for n in base["names"] if "compiler" in base["records"][n]["modes"]]
    all_cks = sorted({c for n in comp for c in base["records"][n]["comps"]})
    for n in comp:
        rec = base["records"][n]
        for ck in rec["comps"]:
            yield finish_pipe(base, [], list(base["names"]), list(base["default_pref"]), rec["kind"], [ck])
            follow = [c for c in all_cks if c != ck]
            if not full and follow:   # quick tier: three follow-up kinds per compiler, rotating through all of them
                i = all_cks.index(ck)
                follow = [follow[(3 * i + j) % len(follow)] for j in range(3)]
            for ck2 in follow:
                yield finish_pipe(base, [], list(base["names"]), list(base["default_pref"]), rec["kind"], [ck, ck2])


def old_version_sweep(base, full):
    """deterministic: every built-in compiler on its own supported kind expressed at each OLDER explicit version (the
    features that exist and are valid there; at version 1 also with the deprecated number features), alone and followed
    by another built-in compilation kind, under the factory's default preference list: the declared resulting kinds of
    the built-in compilers add features that do not exist at those versions"""
    comp = [n for n in base["names"] if "compiler" in base["records"][n]["modes"]]
    all_cks = sorted({c for n in comp for c in base["records"][n]["comps"]})
    for n in comp:
        rec = base["records"][n]
        for v in range(1, LATEST_PROBLEM_KIND_VERSION):
            fs = set(f for f in rec["kind"][0] if valid_at(f, v))
            variants = [fs]
            if v == 1 and ({"INT_FLUENTS", "REAL_FLUENTS"} & set(rec["kind"][0])):
                variants.append(fs | set(DEPRECATED))
            for ck in rec["comps"]:
                for vi, kfs in enumerate(variants):
                    yield finish_pipe(base, [], list(base["names"]), list(base["default_pref"]), (set(kfs), v), [ck])
                    follow = [c for c in all_cks if c != ck]
                    if not full and follow:
                        i = all_cks.index(ck)
                        follow = [follow[(5 * i + v + vi) % len(follow)]]
                    for ck2 in follow:
                        yield finish_pipe(base, [], list(base["names"]), list(base["default_pref"]), (set(kfs), v), [ck, ck2])


def cases(rng, tier):
    base = base_factory_info()
    for c in builtin_sweep(base, tier != "quick"):
        yield c
    for c in old_version_sweep(base, tier != "quick"):
        yield c
    for i in range(60 if tier == "quick" else 1500):
        yield chain_case(rng, base)
    n = 640 if tier == "quick" else 12000
    for i in range(n):
        r = rng.random()
        if r < 0.68:
            yield sel_case(rng, base)
        elif r < 0.86:
            yield pipe_case(rng, base, with_builtins=False)
        else:
            yield pipe_case(rng, base, with_builtins=True)


# ------------------------------------------------------------------------------------------------
# evidence helpers
# ------------------------------------------------------------------------------------------------

def _modes_in_pref(payload, mode):
    engines, pref = dec_factory(payload[1])
    by = {e["name"]: e for e in engines}
    return [n for n in pref if n in by and mode in by[n]["modes"]]


def nontrivial(payload, ans):
    tag = payload[0]
    if tag == "sel":
        d = {x[0]: x[1] for x in ans}
        pref = payload[1][2][1:]
        if isinstance(d["cls"], list) and d["cls"][0] == "sel":
            return bool(pref) and pref[0] != d["cls"][1]
        if d["cls"] == "no-suitable":
            return bool(_modes_in_pref(payload, payload[2][1]))
        return False
    if tag == "pipe":
        return ans[0] == "err" or len(ans) > 2
    return False


def stats(payload, ans):
    tag = payload[0]
    if tag == "sel":
        d = {x[0]: x[1] for x in ans}
        r = dec_req(payload[2])
        o = d["cls"][0] if isinstance(d["cls"], list) else d["cls"]
        t = ["sel", "mode:" + r["mode"], "cls:" + o, "shaped" if well_shaped(r) else "ill-shaped"]
        if d["pub"] != "n/a":
            t.append("public-entry-point")
        if any(n in base_factory_info()["names"] for n in payload[1][2][1:]):
            t.append("pref-has-builtin")
        return t
    if tag == "pipe":
        t = ["pipe", "pipe-len:" + str(len(payload[3]))]
        t.append("pipe:ok-stages:" + str(len(ans) - 1) if ans[0] == "ok" else "pipe:" + str(ans[1]))
        if ans[0] == "ok" and any(n in base_factory_info()["names"] for n in ans[1:]):
            t.append("pipe-selects-builtin")
        if any(e[8][0] == "table" for e in payload[1][1]):
            t.append("pipe-builtin-compilers")
            t.append("pipe-builtin-compilers:kind-version-" + payload[2][2])
        return t
    return [tag, "byname:" + (ans[0] if isinstance(ans, list) else ans)]


def shrink(payload):
    fac = payload[1]
    engines, pref = fac[1], fac[2][1:]

    def with_fac(es, ps):
        out = list(payload)
        out[1] = ["fac", es, ["pref"] + ps]
        return out
    for i in range(len(pref)):
        yield with_fac(engines, pref[:i] + pref[i + 1:])
    for i in range(len(engines)):
        if engines[i][1] not in pref:
            yield with_fac(engines[:i] + engines[i + 1:], pref)
    if payload[0] == "pipe":
        cks = payload[3]
        for i in range(len(cks)):
            out = list(payload)
            out[3] = cks[:i] + cks[i + 1:]
            yield out
        for f in payload[2][1]:
            out = list(payload)
            out[2] = ["k", [g for g in payload[2][1] if g != f], payload[2][2]]
            yield out
    else:
        req = payload[2]
        for i in (3, 4, 5, 6):
            if req[i] != "-":
                out = list(payload)
                out[2] = req[:i] + ["-"] + req[i + 1:]
                yield out
        for f in req[2][1]:
            out = list(payload)
            out[2] = req[:2] + [["k", [g for g in req[2][1] if g != f], req[2][2]]] + req[3:]
            yield out
    for i, e in enumerate(engines):
        if e[8][0] == "table":
            continue
        for f in e[3][1]:
            ne = list(e)
            ne[3] = ["k", [g for g in e[3][1] if g != f], e[3][2]]
            yield with_fac(engines[:i] + [ne] + engines[i + 1:], pref)
        for j in (2, 4, 5, 6, 7):
            for x in e[j]:
                ne = list(e)
                ne[j] = [y for y in e[j] if y != x]
                yield with_fac(engines[:i] + [ne] + engines[i + 1:], pref)


MANIFEST = {
    "level_text": ("Lean 4 theorems (Props/C32.lean) prove for EVERY registry of engine classes (arbitrary predicates), "
                   "preference list, problem kind and request: the engine returned without a name is registered, "
                   "implements the mode, supports the kind and every requested requirement, and is the first such entry "
                   "of the preference list; on requests the public entry points can make, over registered names, the "
                   "factory returns an engine whenever one qualifies and raises the no-suitable-engine error exactly "
                   "when none does (never an assertion failure); get_all_applicable_engines lists exactly the "
                   "qualifying entries; every compiler of a requested pipeline supports its compilation kind and the "
                   "kind declared by the compilers before it, and a pipeline request either succeeds or raises the "
                   "no-suitable-engine error. The model (Core/Factory.lean) is tied to engines/factory.py by a "
                   "differential correspondence check on fresh real factories plus a direct oracle of the property."),
    "level_note": ("Trusted: Lean kernel; axioms propext, Quot.sound (Classical.choice if reported); harness/translate.py "
                   "for the feature tables; the correspondence harness. Modelled not verified: the engine classes "
                   "themselves (records of their static predicates), Python dict/list/importlib semantics. The model "
                   "mirrors the code after notes/patches/C32-no-suitable-engine-report.patch."),
    "technique": "Lean 4 proof over an executable model + model/code correspondence on synthetic and built-in engine registries",
    "design_ref": "DESIGN.md §5 C32",
}
