"""C12 — NNF and DNF conversions are equivalent and in normal form."""
import hashlib
import itertools
import random
import warnings

warnings.simplefilter("ignore")
from unified_planning.model.walkers.dnf import Dnf, Nnf

import pyden
import sexp
import upx

ID = "C12"
GEN = []
CORR_NAME = "nnf-and-dnf-output"
RULE = ("Boolean expressions: exhaustive over all shapes up to size 3 (quick) / 4 (thorough) with and/or/not/implies/iff "
        "over 3 Boolean fluents, 2 numeric comparisons and the constant atoms 1<=2, 3<=2, plus random larger ones from the "
        "typed grammar (nested same-operator nodes, duplicate/complementary literals, quantified atoms). Each expression is "
        "run through Nnf.get_nnf_expression and Dnf.get_dnf_expression; the produced expressions are compared syntactically "
        "with the model (the DNF model receives, as a table, the answers the real Simplifier gave on the conjunctions the "
        "walker asked about). Non-trivial = the result differs from the input and the input has a connective under a negation, "
        "an implies/iff, or an AND above an OR.")
ASSUMPTIONS = ["normal-form shape is demanded for quantifier-free inputs only (the property's quantifier); with quantified atoms "
               "only equivalence is judged",
               "the simplifier used inside Dnf.walk_and is property C11's: the DNF model takes its answers as an input table "
               "(dnf_equiv is proved for every simplifier that preserves defined Boolean values)",
               "equivalence is judged on interpretations that are total on the expression's atoms (strict semantics otherwise)"]
MODELLED = ["modelled by hand: Nnf.get_nnf_expression (both as recursion and as the explicit two-stack machine, proved equal), "
            "Dnf.walk_and/walk_or/walk_all/get_dnf_expression, itertools.product order; not modelled: DagWalker memoisation "
            "inside Dnf (property C14), the Simplifier (property C11)"]

B0, B1, B2 = ["fl", ["b0", "bool", []]], ["fl", ["b1", "bool", []]], ["fl", ["b2", "bool", []]]
X, Y = ["fl", ["x", ["int", "_", "_"], []]], ["fl", ["y", ["int", "_", "_"], []]]
ATOMS = [B0, B1, B2, ["le", X, ["i", "3"]], ["lt", Y, X], ["le", ["i", "1"], ["i", "2"]], ["le", ["i", "3"], ["i", "2"]]]
OBJ = {"T": ["t1", "t2", "s1", "s2"], "S": ["s1", "s2"], "U": ["u1"], "E": []}


def shapes(n, atoms):
    """all formulas with exactly n connective nodes"""
    if n == 0:
        for a in atoms:
            yield a
        return
    for s in shapes(n - 1, atoms):
        yield ["not", s]
    for k in range(0, n):
        for a in shapes(k, atoms):
            for b in shapes(n - 1 - k, atoms):
                for op in ("and", "or", "implies", "iff"):
                    yield [op, a, b]


def shapes_ao(n, atoms):
    """formulas with exactly n connective nodes from and/or/not"""
    if n == 0:
        for a in atoms:
            yield a
        return
    for s in shapes_ao(n - 1, atoms):
        yield ["not", s]
    for k in range(0, n):
        for a in shapes_ao(k, atoms):
            for b in shapes_ao(n - 1 - k, atoms):
                for op in ("and", "or"):
                    yield [op, a, b]


def cases(rng, tier):
    small = ATOMS[:3] + ATOMS[5:]
    # exhaustive part
    for n in range(0, 3):
        for s in shapes(n, (small[:3] if tier == "quick" else small) if n == 2 else ATOMS):
            yield ["nnf", s]
            yield ["dnf", s]
    if tier == "thorough":
        for s in shapes(3, [B0, B1, ATOMS[5]]):
            yield ["nnf", s]
            yield ["dnf", s]
    # nested constant-only structure (depth 3, and/or/not): tautological / contradictory sub-conjunctions at every
    # position, including operands that are themselves conjunctions of constant atoms
    for s in shapes_ao(3, [ATOMS[5], B0]):
        yield ["dnf", s]
    for s in shapes_ao(2, [ATOMS[5], ATOMS[6], B0, B1]):
        yield ["dnf", s]
    # ternary and nested same-operator nodes
    for a, b, c in itertools.permutations(ATOMS[:3] + ATOMS[5:6], 3):
        for op in ("and", "or"):
            yield ["dnf", [op, a, ["not", [op, b, c, a]], ["implies", c, b]]]
            yield ["nnf", ["not", [op, a, [op, b, ["not", c]], ["iff", a, c]]]]
    n = 300 if tier == "quick" else 6000
    for i in range(n):
        g = upx.ExprGen(rng, big=False, quantifiers=(i % 10 == 0), ifuns=False, params=False)
        g.empty_type = False   # no quantifier over the object-less type E: that is C11's known finding D-C11e
        e = g.boolean(rng.choice([2, 3, 3, 4]))
        if not _well_formed(e):   # the typed grammar can produce ill-typed equalities; the property is about expressions
            continue
        yield [rng.choice(["nnf", "dnf", "dnf"]), e]


class _Rec:
    def __init__(self, real):
        self.real, self.table = real, []

    def simplify(self, e):
        r = self.real.simplify(e)
        self.table.append([upx.enc_expr(e), upx.enc_expr(r)])
        return r


_CACHE = {}


def _run(payload):
    k = sexp.dumps(payload)
    if k not in _CACHE:
        if len(_CACHE) > 4:
            _CACHE.clear()
        try:
            _CACHE[k] = ("ok", _run_uncached(payload))
        except Exception as ex:
            _CACHE[k] = ("err", ex)
    tag, v = _CACHE[k]
    if tag == "err":
        raise v
    return v


def _well_formed(e):
    try:
        upx.Ctx(upx.ExprGen.TYPES).expr(e)
        return True
    except Exception:
        return False


def _run_uncached(payload):
    ctx = upx.Ctx(upx.ExprGen.TYPES)
    e = ctx.expr(payload[1])
    if payload[0] == "nnf":
        return ctx, e, Nnf(ctx.env).get_nnf_expression(e), None
    d = Dnf(ctx.env)
    rec = _Rec(d._simplifier)
    d._simplifier = rec
    return ctx, e, d.get_dnf_expression(e), rec.table


def canon(payload):
    """the dnf payload sent to the model carries the simplifier table observed on the real run"""
    return payload


def impl(payload):
    try:
        ctx, e, r, table = _run(payload)
    except Exception as ex:
        return ["error", type(ex).__name__]
    if payload[0] == "nnf":
        return ["res", upx.enc_expr(r), "T"]
    return ["res", upx.enc_expr(r)]


def model_payload(payload):  # optional hook honoured by run_check.to_model
    """run_check sends this (not `payload`) to the driver when defined"""
    if payload[0] == "nnf":
        return payload
    try:
        _, _, _, table = _run(payload)
    except Exception:
        table = []
    seen, rows = set(), []
    for i, o in table:
        k = sexp.dumps(i)
        if k not in seen:
            seen.add(k)
            rows.append([i, o])
    return ["dnf", payload[1], ["table"] + rows]


def _connective(s):
    return isinstance(s, list) and s and s[0] in ("and", "or", "not", "implies", "iff")


def nontrivial(payload, ans):
    if ans[0] != "res" or ans[1] == payload[1]:
        return False
    txt = sexp.dumps(payload[1])
    return "(not (" in txt.replace("(not (fl", "").replace("(not (le", "").replace("(not (lt", "") + "" or "implies" in txt or "iff" in txt or ("(and" in txt and "(or" in txt)


def stats(payload, ans):
    t = [payload[0]]
    if ans[0] != "res":
        t.append("error")
    elif ans[1] == ["b", "T"]:
        t.append("result-true")
    elif ans[1] == ["b", "F"]:
        t.append("result-false")
    return t


def _is_atom(s):
    return not (isinstance(s, list) and s and s[0] in ("and", "or", "not", "implies", "iff"))


def _is_lit(s):
    return _is_atom(s) or (s[0] == "not" and len(s) == 2 and _is_atom(s[1]))


def _is_nnf(s):
    if isinstance(s, list) and s and s[0] in ("and", "or"):
        return all(_is_nnf(a) for a in s[1:])
    return _is_lit(s)


def _is_dnf(s):
    def conj(c):
        return _is_lit(c) or (c[0] == "and" and all(_is_lit(l) for l in c[1:]))
    if isinstance(s, list) and s and s[0] == "or":
        return all(conj(c) for c in s[1:])
    return conj(s)


def oracle(payload):
    """the property on the real code: same truth value under every sampled total interpretation (all of
    them when the atoms are few), and the normal-form shape."""
    try:
        ctx, e, r, _ = _run(payload)
    except Exception as ex:
        return f"conversion raised {type(ex).__name__}: {str(ex)[:200]}"
    src, out = payload[1], upx.enc_expr(r)
    quantified = "(exists " in sexp.dumps(src) or "(forall " in sexp.dumps(src)
    # the property quantifies over quantifier-free Boolean expressions; with a quantified atom the simplifier may
    # unwrap a quantifier whose variable does not occur (Forall q.(a -> b) |-> a -> b), so only equivalence is judged
    if quantified:
        pass
    elif payload[0] == "nnf" and not _is_nnf(out):
        return "result is not in negation normal form"
    elif payload[0] == "dnf" and not _is_dnf(out):
        return "result is not a disjunction of conjunctions of literals"
    names = upx.free_names(["and", src, out])
    seed = int(hashlib.sha1(sexp.dumps(payload).encode()).hexdigest()[:8], 16)
    rng = random.Random(seed)
    for k in range(24):
        I = pyden.random_interp(rng, names, OBJ)
        a, b = pyden.den(src, I), pyden.den(out, I)
        if a is not None and a[0] == "b" and a != b:
            return f"value changed under interpretation #{k}: {a} -> {b}"
    return None


def shrink(payload):
    e = payload[1]

    def subs(s):
        if isinstance(s, list) and s and s[0] in ("and", "or", "not", "implies", "iff"):
            for i in range(1, len(s)):
                yield s[i]
                for t in subs(s[i]):
                    yield s[:i] + [t] + s[i + 1:]
            if s[0] in ("and", "or") and len(s) > 3:
                for i in range(1, len(s)):
                    yield s[:i] + s[i + 1:]
    for c in subs(e):
        yield [payload[0], c]


MANIFEST = {
    "level_text": ("Lean 4 theorems (Props/C12.lean), for every expression and interpretation: NNF has exactly the Boolean meaning "
                   "of its input (both polarities), contains negation only in front of atoms, and the two-stack machine the Python "
                   "code runs is proved to compute the recursion in exactly nnfCost(e) iterations; DNF preserves every defined "
                   "Boolean value for any simplifier with C11's soundness property, a TRUE conjunct makes the result TRUE and a "
                   "FALSE one is dropped, and the result is an Or of Ands of literals when the simplifier keeps literal "
                   "conjunctions in that form. Tied to the code by syntactic comparison of the real Nnf/Dnf outputs with the "
                   "model on exhaustive small formulas plus random ones, and by a truth-table oracle on the real outputs."),
    "level_note": ("Trusted: Lean kernel; axioms propext/Quot.sound/Classical.choice at most; correspondence harness; the reference "
                   "denotation Core/Den.lean. The simplifier inside Dnf is a parameter (its answers are fed to the model as a table); "
                   "its soundness is C11's theorem, not re-proved here."),
    "technique": "Lean 4 proof (structural/functional induction, stack-machine refinement) + model/code correspondence",
    "design_ref": "DESIGN.md §5 C12",
}
