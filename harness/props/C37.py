"""C37 — Multi-agent compilers preserve each agent's action semantics."""
import hashlib
import itertools
import signal
import warnings
from fractions import Fraction

warnings.simplefilter("ignore")

import sexp
import upx
import pyden

ID = "C37"
GEN = []
CORR_NAME = "ma-compiled-problem+reference-successor"
RULE = ("one case = one generated multi-agent problem (1-3 agents, each 1-3 Boolean / int[0,2] fluents, public or private, fluent "
        "names shared between agents, 0-2 environment fluents; ground instantaneous actions whose conditions mix own bare "
        "fluents, self-Dot, Dot on other agents' public fluents, environment fluents, integer comparisons, and/or/not/implies/"
        "iff, constants and duplicated literals; unconditional and conditional assign/increase/decrease effects on own and "
        "environment fluents (the library cannot build an effect on a Dot target); shared goals over Dot and environment fluents, ~half of them disjunctive) run through "
        "MAConditionalEffectsRemover or MADisjunctiveConditionsRemover; targeted families planted on every run: static "
        "conflict among the effects a subset selects — unconditional vs conditional and conditional vs conditional, assignment vs "
        "assignment (constant and fluent-valued, so that the values may coincide in some states) and assignment vs increase/"
        "decrease, 7 fixed + 14 randomised shapes (the variant is dropped: repair d88a7f6) —, conditional increase under a "
        "disjunction, effect-less variants, disjunctive shared goal with >= 2 agents, tautological / contradictory "
        "conditions, equal actions in two agents; and a FORALL family (user type T with 2 objects, sometimes a subtype with a "
        "third; fluents at(T), cnt(T), link(T,T); conditional forall effects whose condition mentions the bound variable — the "
        "ones _instances_of_conditional_effect expands —, conditional forall effects with a closed condition and unconditional "
        "ones — both kept —, ground conditional effects on instances of the same fluents, Dot conditions on the bound "
        "variable). Compared: the whole compiled problem (environment fluents, per agent "
        "fluents and the ordered list of compiled actions with exact fresh names, map-back target, ordered preconditions and "
        "effects, the goals) after rewriting Dot(ag, f) to the qualified fluent ag.f, plus the reference successor of every "
        "original action and the truth of every goal in 3 sampled states. Non-trivial = the compiler really splits: some action "
        "gets >= 2 variants, or a goal is replaced by a fake fluent.")
ASSUMPTIONS = [
    "reference semantics (the library has no multi-agent simulator; Spec/MASuccessor.lean): global state over the agent-indexed "
    "name space; Dot(ag, f) is ag's fluent f; a bare fluent in an agent's action is the agent's own fluent when it declares one, "
    "else an environment fluent; shared goals are read in the global name space (bare = environment), as in the documented "
    "examples (docs/notebooks/09, 10)",
    "expressions are evaluated strictly (a fluent without value makes a condition unsatisfied); states are total over the declared "
    "fluents and well-typed, so every condition of a generated problem is defined",
    "actions have no parameters (both compilers pass parameters through unchanged) and no quantified conditions; fluents "
    "have arity 0 except in the forall family, whose fluents take objects of user types; a forall effect stands for its "
    "instances over all objects of its variables' types (MASpec.successorIn; every generated type has an object); the "
    "exhaustive state enumeration needs a finite ground name space (more than 1500 states: an evenly spaced sample)",
    "bounded types are not enforced by the reference successor (the removers never touch values)",
    "names do not contain '.', agents' fluents do not reuse environment fluent names (MultiAgentProblem.has_name forbids it)",
    "problems with agent-specific goals are outside supported_kind() of both compilers and are not generated",
    "equivalence of goals 'up to the DNF split': the original goals hold in a state iff the compiled goals hold after executing, "
    "from that state, the fake actions applicable in it (they write fake fluents only); every other compiled action resets "
    "every fake fluent",
    "known findings inherited from the single-agent helpers (cf. C07-static-conflict-coinciding-values, C06-dcr-overlapping-"
    "disjuncts, C07-noop-variant-pruned) are attributed by cause predicates evaluated IN THE FAILING STATE: "
    "D-C37-coinciding-values (completeness only: no variant is applicable although the original is, and two FIRING assignments "
    "of the original to one non-Boolean fluent have different value expressions — not equal constants — with the same value "
    "in that state: the variant is dropped for the static conflict), D-C37-overlapping-disjuncts (conditional increase/"
    "decrease split over >= 2 DNF disjuncts), D-C37-effectless-variant (nothing fires in that state: variants without effects "
    "are dropped).  A variant that is applicable where the original is not, or yields another successor, is never attributed "
    "for conditional-effects removal (the former finding D-C37-conflicting-variant is fixed in /repo by d88a7f6)",
]
MODELLED = [
    "modelled by hand (tied by correspondence): MAConditionalEffectsRemover._compile, ConditionalEffectsRemover."
    "_create_unconditional_actions (instantaneous branch, as repaired by d88a7f6: a variant whose selected effects "
    "conflict is dropped), _instances_of_conditional_effect (eacfe5f) with Effect.expand_effect — the model of these "
    "two is SHARED with C06/C07 (Core/Compile/CER.lean cerExpand, Sim.expandEffect) —, powerset, add_precondition, check_conflicting_effects, "
    "check_and_simplify_preconditions, get_fresh_name + MultiAgentProblem.has_name, MADisjunctiveConditionsRemover._compile and "
    "_ma_goals_without_disjunctions_adding_new_elements, DisjunctiveConditionsRemover._create_non_disjunctive_actions / "
    "_create_new_action_with_given_precond (instantaneous branch), replace_action map-back",
    "the simplifier and the DNF walker are parameters of the theorems (hypotheses SimpSound = C11's theorem, DnfSound = C12's "
    "theorem, which is instantiated from C12.dnf_equiv); the driver instantiates them with C11's / C12's verified models",
    "Dot(ag, f(args)) is rewritten to the fluent application ag.f(args) on both sides before comparing (the walkers treat a DOT "
    "node as an opaque atom)",
    "not modelled: durative actions, metrics, initial values (cloned verbatim), MA-PDDL writer",
]
EXTRA_PROPS = ["UPVerif.Props.C37Cer"]
BUDGET_S = {"quick": 50, "thorough": 500}
SEARCH_S = {"quick": 40, "thorough": 240}

MAX_STATES = 1500


# ------------------------------------------------------------------------------------------------
# watchdog (a mutated /repo may loop)
# ------------------------------------------------------------------------------------------------

class _Timeout(Exception):
    pass


def _alarm(signum, frame):
    raise _Timeout()


def guarded(f, secs=20):
    def g(*a, **k):
        old = signal.signal(signal.SIGALRM, _alarm)
        signal.alarm(secs)
        try:
            return f(*a, **k)
        finally:
            signal.alarm(0)
            signal.signal(signal.SIGALRM, old)
    return g


# ------------------------------------------------------------------------------------------------
# s-expression helpers
# ------------------------------------------------------------------------------------------------

BOOL = "bool"
INT02 = ["int", "0", "2"]
T, F = ["b", "T"], ["b", "F"]


def ref(name, ty):
    return [name, ty, []]


def fl(name, ty):
    return ["fl", ref(name, ty)]


def dot(ag, e):
    return ["dot", ag, e]


def undot(e):
    """Dot(ag, f(args)) -> ag.f(args): the agent-indexed name space (same rewriting as MA.undot in Lean)"""
    if not isinstance(e, list) or not e:
        return e
    if e[0] == "dot":
        inner = undot(e[2])
        if inner[0] == "fl":
            r = inner[1]
            return ["fl", [e[1] + "." + r[0], r[1], r[2]]] + inner[2:]
        return ["dot", e[1], inner]
    if e[0] in ("fl", "ifun"):
        return [e[0], e[1]] + [undot(a) for a in e[2:]]
    if e[0] in ("exists", "forall"):
        return [e[0], e[1], undot(e[2])]
    if e[0] in ("b", "i", "r", "o", "p", "v", "timing", "present"):
        return e
    return [e[0]] + [undot(a) for a in e[1:]]


def get(ps, key):
    for x in ps[2:]:
        if isinstance(x, list) and x and x[0] == key:
            return x[1:]
    raise KeyError(key)


def get_opt(ps, key):
    try:
        return get(ps, key)
    except KeyError:
        return []


def objs_of(ps):
    """{user type: [objects of the type or a descendant, declaration order]} — `problem.objects(type)`"""
    tys, objs = get_opt(ps, "types"), get_opt(ps, "objects")
    father = {n: (None if f == "_" else f) for n, f in tys}

    def sub(t, u):
        while t is not None:
            if t == u:
                return True
            t = father.get(t)
        return False
    return {t: [o for o, ot in objs if sub(ot, t)] for t in father}


def ty_objs(objs, t):
    return objs.get(t[1], []) if isinstance(t, list) and t[0] == "user" else []


def agents_of(ps):
    return [{"name": a[1], "fluents": a[2][1:], "actions": a[3][1:]} for a in get(ps, "agents")]


# ------------------------------------------------------------------------------------------------
# real problems
# ------------------------------------------------------------------------------------------------

def build(ps):
    """wire format -> real MultiAgentProblem (fresh environment)"""
    from unified_planning.model import InstantaneousAction, Effect, EffectKind
    from unified_planning.model.multi_agent import MultiAgentProblem, Agent
    ctx = upx.Ctx([(n, None if f == "_" else f) for n, f in get_opt(ps, "types")])
    ctx.env.error_used_name = True
    P = MultiAgentProblem(ps[1], ctx.env)
    for o, t in get_opt(ps, "objects"):
        P.add_object(ctx.obj(o, t))
    dv = lambda d: None if d == "_" else ctx.expr(d)
    for r, d in get(ps, "env"):
        P.ma_environment.add_fluent(ctx.fluent(r), default_initial_value=dv(d))
    kinds = {"assign": EffectKind.ASSIGN, "increase": EffectKind.INCREASE, "decrease": EffectKind.DECREASE}
    for a in agents_of(ps):
        ag = Agent(a["name"], P)
        for r, d, pub in a["fluents"]:
            (ag.add_public_fluent if pub == "T" else ag.add_private_fluent)(ctx.fluent(r), default_initial_value=dv(d))
        for act in a["actions"]:
            A = InstantaneousAction(act[1], _env=ctx.env)
            for p in act[3][1:]:
                A.add_precondition(ctx.expr(p))
            for e in act[4][1:]:
                fe, v, c = ctx.expr(e[2]), ctx.expr(e[3]), ctx.expr(e[4])
                if not fe.type.is_compatible(v.type):
                    raise ValueError("ill-typed effect")
                eff = Effect(fe, v, c, kinds[e[1]], tuple(ctx.var(n, t) for n, t in e[5]))
                if [[x.name, upx.enc_ty(x.type)] for x in eff.forall] != e[5]:
                    raise ValueError("forall list is not the one the library stores")
                A._add_effect_instance(eff)
            ag.add_action(A)
        P.add_agent(ag)
    for g in get(ps, "goals"):
        P.add_goal(ctx.expr(g))
    return ctx, P


def enc_e(e):
    return undot(upx.enc_expr(e))


def enc_effect(e):
    kind = "assign" if e.is_assignment() else "increase" if e.is_increase() else "decrease"
    return ["eff", kind, enc_e(e.fluent), enc_e(e.value), enc_e(e.condition), [[v.name, upx.enc_ty(v.type)] for v in e.forall]]


def enc_action(a):
    return ["action", a.name, [[p.name, upx.enc_ty(p.type)] for p in a.parameters],
            ["pre"] + [enc_e(p) for p in a.preconditions], ["effs"] + [enc_effect(e) for e in a.effects]]


def enc_decl(f, d):
    return [[f.name, upx.enc_ty(f.type), [upx.enc_ty(p.type) for p in f.signature]], "_" if d is None else enc_e(d)]


def enc_compiled(res):
    from unified_planning.plans import ActionInstance
    P = res.problem
    ags = []
    for ag in P.agents:
        acts = []
        for a in ag.actions:
            back = res.map_back_action_instance(ActionInstance(a, (), ag))
            if back is None:
                o = "_"
            else:
                o = [back.action.name]
                if back.agent is None or back.agent.name != ag.name:
                    o = ["other-agent", back.action.name]
            acts.append(["cact", o, enc_action(a)])
        fls = [enc_decl(f, ag.fluents_defaults.get(f)) + ["T" if f in ag.public_fluents else "F"] for f in ag.fluents]
        ags.append(["agent", ag.name, ["fluents"] + fls, ["actions"] + acts])
    env = [enc_decl(f, P.ma_environment.fluents_defaults.get(f)) for f in P.ma_environment.fluents]
    return ["compiled", P.name, ["env"] + env, ["agents"] + ags, ["goals"] + [enc_e(g) for g in P.goals]]


def run_compiler(which, P):
    from unified_planning.engines import CompilationKind
    if which == "cond":
        from unified_planning.engines.compilers.ma_conditional_effects_remover import MAConditionalEffectsRemover as C
        kind = CompilationKind.CONDITIONAL_EFFECTS_REMOVING
    else:
        from unified_planning.engines.compilers.ma_disjunctive_conditions_remover import MADisjunctiveConditionsRemover as C
        kind = CompilationKind.DISJUNCTIVE_CONDITIONS_REMOVING
    c = C()
    if not c.supports(P.kind):
        raise ValueError("unsupported kind")
    return c.compile(P, kind)


_cache = {}


def compiled_of(payload):
    """(status, compiled-sexp | detail); cached per payload"""
    k = sexp.dumps(payload[:3])
    if k in _cache:
        return _cache[k]
    if len(_cache) > 3000:
        _cache.clear()
    from unified_planning.exceptions import UPConflictingEffectsException
    try:
        ctx, P = build(payload[2])
    except Exception as e:
        r = ("unbuildable", type(e).__name__)
        _cache[k] = r
        return r
    try:
        res = guarded(run_compiler)(payload[1], P)
        r = ("ok", enc_compiled(res))
    except UPConflictingEffectsException:
        r = ("raise", "conflict")
    except _Timeout:
        r = ("raise", "timeout")
    except ValueError as e:
        r = ("unsupported", str(e)) if "unsupported" in str(e) else ("raise", "ValueError")
    except Exception as e:
        r = ("raise", type(e).__name__)
    _cache[k] = r
    return r


# ------------------------------------------------------------------------------------------------
# the reference semantics (independent Python twin of Spec/MASuccessor.lean, written from its header)
# ------------------------------------------------------------------------------------------------

def kstr(r):
    return sexp.dumps(r)


def ground_args(r, objs):
    """argument tuples of the ground instances of the fluent `r`: itertools.product over problem.objects(type)"""
    return [tuple(("o", o) for o in combo) for combo in itertools.product(*[ty_objs(objs, t) for t in r[2]])]


def all_keys(env, agents, objs=None):
    """declared ground fluents of the agent-indexed name space, canonical order: [((keystring, args), type)]"""
    objs = objs or {}
    out = [((kstr(r), vs), r[1]) for r, _ in env for vs in ground_args(r, objs)]
    for a in agents:
        for f in a["fluents"]:
            r = f[0]
            out += [((kstr([a["name"] + "." + r[0], r[1], r[2]]), vs), r[1]) for vs in ground_args(r, objs)]
    return out


def kfmt(k):
    r = sexp.loads(k[0])
    return r[0] + ("(" + ",".join(v[1] for v in k[1]) + ")" if k[1] else "")


class ViewFl:
    """what agent `ag` reads: own bare fluents resolve to ag.f, everything else as written"""

    def __init__(self, ag, own, g, objs=None):
        self.ag, self.own, self.g, self.objs = ag, own, g, objs or {}

    def resolve(self, k):
        if k in self.own:
            r = sexp.loads(k)
            return kstr([self.ag + "." + r[0], r[1], r[2]])
        return k

    def get(self, kv, default=None):
        k, vs = kv
        return self.g.get((self.resolve(k), tuple(vs)))


def value(e, view):
    return pyden.den(undot(e), {"fl": view, "fn": {}, "par": {}, "dom": {}})


def holds(e, view):
    return value(e, view) == ("b", True)


def subst_vars(e, rho):
    """replace the variables bound by `rho` ({(name, typekey): object name}) by object constants"""
    if not isinstance(e, list) or not e:
        return e
    if e[0] == "v":
        o = rho.get((e[1], kstr(e[2])))
        return e if o is None else ["o", o, e[2][1]]
    if e[0] in ("b", "i", "r", "o", "p"):
        return e
    if e[0] in ("fl", "ifun"):
        return [e[0], e[1]] + [subst_vars(a, rho) for a in e[2:]]
    if e[0] in ("exists", "forall"):
        inner = {k: v for k, v in rho.items() if k not in [(n, kstr(t)) for n, t in e[1]]}
        return [e[0], e[1], subst_vars(e[2], inner)]
    if e[0] == "dot":
        return ["dot", e[1], subst_vars(e[2], rho)]
    return [e[0]] + [subst_vars(a, rho) for a in e[1:]]


def instances(effs, objs):
    """a forall effect stands for its instances over all objects of its variables' types (first variable outermost)"""
    out = []
    for e in effs:
        if not e[5]:
            out.append(e)
            continue
        for combo in itertools.product(*[ty_objs(objs, t) for _, t in e[5]]):
            rho = {(n, kstr(t)): o for (n, t), o in zip(e[5], combo)}
            out.append(["eff", e[1], subst_vars(e[2], rho), subst_vars(e[3], rho), subst_vars(e[4], rho), []])
    return out


def target(fe, view):
    """global key of the ground fluent application `fe` for the agent of `view` (None: an argument is undefined)"""
    fe = undot(fe)
    if fe[0] != "fl":
        return None
    args = [value(a, view) for a in fe[2:]]
    if any(x is None for x in args):
        return None
    return (view.resolve(kstr(fe[1])), tuple(args))


def fired(effs, view):
    """list of (global key, kind, value) of the firing effect instances, or None when something is undefined"""
    out = []
    for e in instances(effs, view.objs):
        _, kind, fe, v, c, fa = e
        k = target(fe, view)
        if k is None:
            return None
        if c != T:
            cv = value(c, view)
            if cv is None or cv[0] != "b":
                return None
            if not cv[1]:
                continue
        val = value(v, view)
        if val is None:
            return None
        if kind == "assign":
            if undot(fe)[1][1] == BOOL:
                if val[0] != "b":
                    return None
                out.append((k, "setB", val[1]))
            else:
                out.append((k, "setV", val))
        else:
            if val[0] != "n":
                return None
            out.append((k, "delta", val[1] if kind == "increase" else -val[1]))
    return out


def successor(pre, effs, view, g):
    """documented successor: None = inapplicable, else the new global state (dict)"""
    if not all(holds(p, view) for p in pre):
        return None
    F = fired(effs, view)
    if F is None:
        return None
    new = dict(g)
    for k in set(f[0] for f in F):
        bs = [f[2] for f in F if f[0] == k and f[1] == "setB"]
        vs = [f[2] for f in F if f[0] == k and f[1] == "setV"]
        ds = [f[2] for f in F if f[0] == k and f[1] == "delta"]
        if any(v != vs[0] for v in vs):
            return None
        if (bs or vs) and ds:
            return None
        if ds:
            cur = g.get(k)
            if cur is None or cur[0] != "n":
                return None
            new[k] = ("n", cur[1] + sum(ds, Fraction(0)))
        elif bs:
            new[k] = ("b", any(bs))
        elif vs:
            new[k] = vs[0]
    return new


def domain(ty):
    if ty == BOOL:
        return [("b", False), ("b", True)]
    if isinstance(ty, list) and ty[0] == "int" and ty[1] != "_" and ty[2] != "_":
        return [("n", Fraction(i)) for i in range(int(ty[1]), int(ty[2]) + 1)]
    raise ValueError(f"no finite domain for {ty}")


def all_states(keys, limit=MAX_STATES):
    doms = [domain(t) for _, t in keys]
    total = 1
    for d in doms:
        total *= len(d)
    step = max(1, total // limit)
    for i, combo in enumerate(itertools.product(*doms)):
        if i % step == 0:
            yield {k: v for (k, _), v in zip(keys, combo)}


def view_of(agent, g, objs=None):
    return ViewFl(agent["name"], set(kstr(f[0]) for f in agent["fluents"]), g, objs)


GOAL_VIEW = lambda g: ViewFl("", set(), g)


def sem_of(ps, vals):
    """twin of Drv.C37.semOf"""
    env, agents, objs = get(ps, "env"), agents_of(ps), objs_of(ps)
    keys = all_keys(env, agents, objs)
    g = {k: pyden.val_of_sexp(v) for (k, _), v in zip(keys, vals)}
    out = ["st"]
    for a in agents:
        view = view_of(a, g, objs)
        for act in a["actions"]:
            s = successor(act[3][1:], act[4][1:], view, g)
            out.append("none" if s is None else [pyden.val_sexp(s.get(k)) for k, _ in keys])
    out.append(["goals"] + ["T" if holds(gl, GOAL_VIEW(g)) else "F" for gl in get(ps, "goals")])
    return out


# ------------------------------------------------------------------------------------------------
# impl / compare
# ------------------------------------------------------------------------------------------------

def impl(payload):
    st, c = compiled_of(payload)
    if st == "ok":
        r = c
    elif st == "raise":
        r = ["raise", c]
    else:
        return [st]
    sem = ["sem"] + [sem_of(payload[2], vs) for vs in payload[3][1:]]
    return [payload[1], r, sem]


def compare(m, a):
    """the whole answer, literally: (cond|disj  compiled-problem | (raise …)  (sem …))"""
    return m == a


# ------------------------------------------------------------------------------------------------
# analysis shared by oracle / stats / known_cause
# ------------------------------------------------------------------------------------------------

def orig_actions(ps):
    return [(a, act) for a in agents_of(ps) for act in a["actions"]]


def variants_of(comp, agent_name, act_name):
    for ag in comp[3][1:]:
        if ag[1] == agent_name:
            return [c[2] for c in ag[3][1:] if c[1] == [act_name]]
    return []


def is_cond(e):
    return e[4] != T


def dnf_lits(e):
    """disjunctive normal form of a ground formula as a list of conjunctions (sets of (atom-string, polarity)); semantic helper
    of the cause predicates only"""
    def nnf(e, pos):
        h = e[0]
        if h == "not":
            return nnf(e[1], not pos)
        if h == "and" or h == "or":
            k = h if pos else ("or" if h == "and" else "and")
            return [k] + [nnf(a, pos) for a in e[1:]]
        if h == "implies":
            return nnf(["or", ["not", e[1]], e[2]], pos)
        if h == "iff":
            return nnf(["and", ["implies", e[1], e[2]], ["implies", e[2], e[1]]], pos)
        if h == "b":
            return ["b", "T" if (e[1] == "T") == pos else "F"]
        return ["lit", sexp.dumps(e), pos]

    def go(e):
        if e[0] == "lit":
            return [frozenset([(e[1], e[2])])]
        if e[0] == "b":
            return [frozenset()] if e[1] == "T" else []
        if e[0] == "or":
            return [c for a in e[1:] for c in go(a)]
        res = [frozenset()]
        for a in e[1:]:
            res = [c | d for c in res for d in go(a)]
        return [c for c in res if not any((x, not p) in c for x, p in c)]
    return go(nnf(e, True))


def is_const(v):
    return isinstance(v, list) and v and v[0] in ("b", "i", "r", "o")


def compat_values(v, w):
    """check_conflicting_effects accepts a second assignment iff the value expressions are equal or equal constants"""
    v, w = undot(v), undot(w)
    if v == w:
        return True
    if is_const(v) and is_const(w) and v[0] in ("i", "r") and w[0] in ("i", "r"):
        return Fraction(v[1]) == Fraction(w[1])
    return False


def clash(e, f):
    """the unconditional copies of e and f cannot both be added to one action (effect.py check_conflicting_effects)"""
    if undot(e[2]) != undot(f[2]) or undot(e[2])[1][1] == BOOL:
        return False
    if e[1] == "assign" and f[1] == "assign":
        return not compat_values(e[3], f[3])
    return e[1] == "assign" or f[1] == "assign"


def shape_static_conflict(ps):
    """some subset of the conditional effects of an action selects two clashing effects (statistics only)"""
    objs = objs_of(ps)
    for a, act in orig_actions(ps):
        effs = instances(act[4][1:], objs)
        for i, e in enumerate(effs):
            for f in effs[i + 1:]:
                if (is_cond(e) or is_cond(f)) and clash(e, f):
                    return True
    return False


def coincide_in_state(act, view):
    """twin of MA.coincide (Lemmas/MAConflict.lean) — the cause of D-C37-coinciding-values IN ONE STATE: two firing assignments
    to one non-Boolean fluent whose value expressions are incompatible for the static check but have the same value here"""
    effs = instances(act[4][1:], view.objs)
    for e in effs:
        for f in effs:
            if e is f or e[1] != "assign" or f[1] != "assign":
                continue
            if undot(e[2])[1][1] == BOOL or compat_values(e[3], f[3]):
                continue
            if target(e[2], view) is None or target(e[2], view) != target(f[2], view):
                continue
            if not (holds(e[4], view) and holds(f[4], view)):
                continue
            if value(e[3], view) == value(f[3], view):
                return True
    return False


def cause_coincide(ps):
    """structural part of the cause of D-C37-coinciding-values: an action with two assignments (not both unconditional) to
    one non-Boolean fluent with different value expressions that are not both constants (forall effects: their instances)"""
    objs = objs_of(ps)
    for a, act in orig_actions(ps):
        effs = instances(act[4][1:], objs)
        for i, e in enumerate(effs):
            for f in effs[i + 1:]:
                if (is_cond(e) or is_cond(f)) and e[1] == "assign" and f[1] == "assign" and clash(e, f) \
                        and not (is_const(undot(e[3])) and is_const(undot(f[3]))):
                    return True
    return False


def cause_overlap(ps):
    """D-C37-overlapping-disjuncts: a conditional increase/decrease whose condition has >= 2 DNF disjuncts"""
    for a, act in orig_actions(ps):
        for e in act[4][1:]:
            if is_cond(e) and e[1] != "assign" and len(dnf_lits(undot(e[4]))) >= 2:
                return True
    return False


def cause_noop(ps, which):
    """D-C37-effectless-variant: some variant of an action has no effect at all: no unconditional effect (cond: and at least
    one conditional one; disj: every conditional effect's condition can be false)"""
    for a, act in orig_actions(ps):
        effs = act[4][1:]
        if not any(not is_cond(e) for e in effs):
            return True
    return False


def known_cause(payload):
    """the oracle tags a failure with the finding whose cause it observed in the failing state; the structural predicate
    has to agree"""
    ps, which = payload[2], payload[1]
    v = oracle(payload)
    if not v:
        return None
    if which == "cond" and v.startswith("D-C37-coinciding-values ") and cause_coincide(ps):
        return "D-C37-coinciding-values"
    if which == "disj" and v.startswith("D-C37-overlapping-disjuncts ") and cause_overlap(ps):
        return "D-C37-overlapping-disjuncts"
    if v.startswith("D-C37-effectless-variant ") and cause_noop(ps, which):
        return "D-C37-effectless-variant"
    return None


# ------------------------------------------------------------------------------------------------
# the property itself, on the real code
# ------------------------------------------------------------------------------------------------

def oracle(payload):
    k = "O" + sexp.dumps(payload[:3])
    if k not in _cache:
        _cache[k] = guarded(_oracle, 60)(payload)
    return _cache[k]


def _oracle(payload):
    which, ps = payload[1], payload[2]
    st, comp = compiled_of(payload)
    if st in ("unbuildable", "unsupported"):
        return None
    if st == "raise":
        # inside the supported kind the compiler has to produce a result (that it does so at all is C08's property);
        # there is nothing to compare
        return None if comp == "conflict" else f"compiler raised {comp}"
    env, agents, objs = get(ps, "env"), agents_of(ps), objs_of(ps)
    cenv = comp[2][1:]
    cagents = [{"name": a[1], "fluents": a[2][1:], "actions": a[3][1:]} for a in comp[3][1:]]
    okeys = all_keys(env, agents, objs)
    ckeys = all_keys(cenv, cagents, objs)
    okeyset = set(k for k, _ in okeys)
    fake_keys = [k for k, _ in ckeys if k not in okeyset]
    # -- map back -------------------------------------------------------------------------------
    if [a["name"] for a in cagents] != [a["name"] for a in agents]:
        return "map-back: agents changed"
    for a, ca in zip(agents, cagents):
        names = [act[1] for act in a["actions"]]
        for c in ca["actions"]:
            o = c[1]
            if o == "_":
                if which == "cond":
                    return f"map-back: {ca['name']}.{c[2][1]} maps back to nothing"
            elif len(o) != 1 or o[0] not in names:
                return f"map-back: {ca['name']}.{c[2][1]} does not map back to an action of its agent"
    fake_actions = [(ca, c[2]) for ca in cagents for c in ca["actions"] if c[1] == "_"]
    # -- per state ------------------------------------------------------------------------------
    goals, cgoals = get(ps, "goals"), comp[4][1:]
    tagged = []

    def fail(msg):
        """failures that carry the tag of an inherited finding are remembered; anything else is returned at once"""
        if msg.startswith("D-C37-"):
            if len(tagged) < 1:
                tagged.append(msg)
            return None
        return msg
    for g0 in all_states(okeys):
        for fake_val in ((False,) if not fake_keys else (True, False)):
            g = dict(g0)
            for k in fake_keys:
                g[k] = ("b", fake_val)
            for a, ca in zip(agents, cagents):
                view, cview = view_of(a, g, objs), view_of(ca, g, objs)
                for act in a["actions"]:
                    orig = successor(act[3][1:], act[4][1:], view, g)
                    vs = variants_of(comp, a["name"], act[1])
                    app = []
                    for v in vs:
                        s = successor(v[3][1:], v[4][1:], cview, g)
                        if s is not None:
                            app.append((v, s))
                    where = f"{a['name']}.{act[1]} in state {sorted((kfmt(k), str(x[1])) for k, x in g0.items())}"
                    for v, s in app:
                        if any(k not in g for k in s):
                            return f"variant {v[1]} of {where} writes a fluent that is not declared: {sorted(kfmt(k) for k in s if k not in g)}"
                        if orig is None:
                            return f"soundness: variant {v[1]} applicable, original {where} is not"
                        if any(s[k] != orig[k] for k in okeyset):
                            tag = "" if which == "cond" else "D-C37-overlapping-disjuncts "
                            r = fail(f"{tag}successor: variant {v[1]} of {where} yields another successor")
                            if r:
                                return r
                            continue
                        if any(s[k] != ("b", False) for k in fake_keys):
                            return f"fake fluents not reset by variant {v[1]} of {where}"
                    if orig is not None and not app:
                        # nothing fired: the dropped effect-less variant; otherwise, for conditional effects, a variant
                        # dropped for a static conflict although the two value expressions coincide in THIS state;
                        # attribution needs the structural cause predicate too
                        tag = "D-C37-effectless-variant " if fired(act[4][1:], view) == [] else (
                            "D-C37-coinciding-values " if which == "cond" and coincide_in_state(act, view) else "")
                        r = fail(f"{tag}completeness: original {where} applicable, no variant is")
                        if r:
                            return r
                    if which == "cond" and len(app) > 1:
                        return f"exactly-one: {len(app)} variants of {where} applicable"
        # -- goals ------------------------------------------------------------------------------
        g = dict(g0)
        for k in fake_keys:
            g[k] = ("b", False)
        og = all(holds(x, GOAL_VIEW(g)) for x in goals)
        g2 = dict(g)
        for ca, fa in fake_actions:
            s = successor(fa[3][1:], fa[4][1:], view_of(ca, g, objs), g)
            if s is not None:
                for k in s:
                    if k not in g:
                        return f"goals: fake action {fa[1]} writes a fluent that is not declared: {kfmt(k)}"
                    if s[k] != g[k]:
                        if k not in fake_keys:
                            return f"goals: fake action {fa[1]} changes {kfmt(k)}"
                        g2[k] = s[k]
        cg = all(holds(x, GOAL_VIEW(g2)) for x in cgoals)
        if og != cg:
            return (f"goals: original goals {'hold' if og else 'do not hold'}, compiled goals {'hold' if cg else 'do not hold'} "
                    f"in state {sorted((kfmt(k), str(x[1])) for k, x in g0.items())}")
    return tagged[0] if tagged else None


# ------------------------------------------------------------------------------------------------
# generator
# ------------------------------------------------------------------------------------------------

class Gen:
    def __init__(self, rng):
        self.rng = rng

    def signature(self):
        rng = self.rng
        n_ag = rng.choice([1, 2, 2, 2, 2, 3])
        env = []
        for name, ty in rng.sample([("e", BOOL), ("n", INT02), ("w", BOOL)], rng.choice([0, 1, 1, 2])):
            env.append([ref(name, ty), T if ty == BOOL and rng.random() < 0.3 else (F if ty == BOOL else ["i", "0"])])
        agents = []
        pool = [("p", BOOL), ("q", BOOL), ("x", INT02), ("r", BOOL), ("y", INT02)]
        budget = 7 - len(env)
        for i in range(n_ag):
            k = max(1, min(rng.choice([1, 2, 2, 3]), budget - (n_ag - i - 1)))
            budget -= k
            fls = []
            for name, ty in rng.sample(pool[:4] if rng.random() < 0.8 else pool, k):
                fls.append([ref(name, ty), F if ty == BOOL else ["i", "0"], "T" if rng.random() < 0.6 else "F"])
            agents.append({"name": f"a{i + 1}", "fluents": fls, "actions": []})
        return env, agents

    # atoms agent `a` may mention --------------------------------------------------------------
    def readable(self, a, agents, env, ty):
        rng = self.rng
        out = []
        for f in a["fluents"]:
            if f[0][1] == ty:
                out.append(["fl", f[0]])
                if rng.random() < 0.25:
                    out.append(dot(a["name"], ["fl", f[0]]))
        for b in agents:
            if b is not a:
                for f in b["fluents"]:
                    if f[0][1] == ty and f[2] == "T":
                        out.append(dot(b["name"], ["fl", f[0]]))
        for r, _ in env:
            if r[1] == ty:
                out.append(["fl", r])
        return out

    def goal_atoms(self, agents, env, ty):
        out = [dot(b["name"], ["fl", f[0]]) for b in agents for f in b["fluents"] if f[0][1] == ty]
        out += [["fl", r] for r, _ in env if r[1] == ty]
        return out

    def cond(self, bools, ints, depth):
        rng = self.rng
        r = rng.random()
        if depth <= 0 or r < 0.3:
            r2 = rng.random()
            if ints and r2 < 0.3:
                x = rng.choice(ints)
                c = ["i", str(rng.randint(0, 2))]
                return rng.choice([["le", x, c], ["lt", c, x], ["eq", x, c], ["le", ["plus", x, ["i", "1"]], ["i", "2"]]])
            if r2 < 0.36:
                return rng.choice([T, F])
            if bools:
                return rng.choice(bools)
            return T
        if r < 0.45:
            return ["not", self.cond(bools, ints, depth - 1)]
        if r < 0.72:
            k = rng.choice([2, 2, 3])
            args = [self.cond(bools, ints, depth - 1) for _ in range(k)]
            if rng.random() < 0.15:
                args.append(args[0])
            return ["or"] + args
        if r < 0.9:
            k = rng.choice([2, 2, 3])
            return ["and"] + [self.cond(bools, ints, depth - 1) for _ in range(k)]
        if r < 0.95:
            return ["implies", self.cond(bools, ints, depth - 1), self.cond(bools, ints, depth - 1)]
        return ["iff", self.cond(bools, ints, depth - 1), self.cond(bools, ints, depth - 1)]

    def effect(self, a, agents, env, bools, ints, taken, p_cond):
        """taken: undotted target -> ("assign", value) | "incdec" for UNCONDITIONAL non-Boolean effects (static consistency)"""
        rng = self.rng
        # an effect can only be built on a bare fluent: Effect.__init__ raises KeyError on a Dot target (although add_effect
        # advertises it), so agents write their own and the environment's fluents and READ the others' through Dot
        targets = [["fl", f[0]] for f in a["fluents"]] + [["fl", r] for r, _ in env]
        t = rng.choice(targets)
        ty = undot(t)[1][1]
        c = self.cond(bools, ints, rng.choice([0, 1, 1, 2])) if rng.random() < p_cond else T
        if c == T and rng.random() < 0.0:
            pass
        if ty == BOOL:
            v = rng.choice([T, T, F, F] + (bools[:1] if rng.random() < 0.3 else []))
            return ["eff", "assign", t, v, c, []]
        kind = rng.choice(["assign", "assign", "increase", "decrease"])
        v = ["i", str(rng.randint(0, 2))] if kind == "assign" else ["i", "1"]
        if kind == "assign" and ints and rng.random() < 0.2:
            v = rng.choice(ints)
        if c == T:
            key = sexp.dumps(undot(t))
            prev = taken.get(key)
            if kind == "assign":
                if prev == "incdec" or (prev is not None and prev != ("assign", sexp.dumps(undot(v)))):
                    return None
                taken[key] = ("assign", sexp.dumps(undot(v)))
            else:
                if prev is not None and prev != "incdec":
                    return None
                taken[key] = "incdec"
        return ["eff", kind, t, v, c, []]

    def action(self, name, a, agents, env, which):
        rng = self.rng
        bools = self.readable(a, agents, env, BOOL)
        ints = self.readable(a, agents, env, INT02)
        pre = [self.cond(bools, ints, rng.choice([1, 2, 2, 3] if which == "disj" else [0, 1, 2]))
               for _ in range(rng.choice([0, 1, 1, 2]))]
        p_cond = rng.choice([0.0, 0.5, 0.8]) if which == "cond" else rng.choice([0.0, 0.3, 0.6])
        effs, taken = [], {}
        for _ in range(rng.choice([1, 1, 2, 2, 3, 4])):
            e = self.effect(a, agents, env, bools, ints, taken, p_cond)
            if e is not None and (which != "cond" or sum(1 for x in effs if is_cond(x)) < 3 or not is_cond(e)):
                effs.append(e)
        return ["action", name, [], ["pre"] + pre, ["effs"] + effs]

    def goals(self, agents, env, which):
        rng = self.rng
        bools, ints = self.goal_atoms(agents, env, BOOL), self.goal_atoms(agents, env, INT02)
        out = []
        for _ in range(rng.choice([0, 1, 1, 2, 3])):
            out.append(self.cond(bools, ints, rng.choice([0, 1, 2] if which == "disj" else [0, 1])))
        if out and rng.random() < 0.2:
            out.append(out[0])
        return out

    def problem(self, which, name="p"):
        rng = self.rng
        env, agents = self.signature()
        anames = ["act", "go", "act_0", "ma_dcrm_fake_action", "go_1"]
        for a in agents:
            for j in range(rng.choice([0, 1, 1, 2, 2, 3])):
                nm = rng.choice(anames[:3]) if rng.random() < 0.8 else rng.choice(anames)
                if nm in [x[1] for x in a["actions"]] or nm in [f[0][0] for f in a["fluents"]]:
                    continue
                a["actions"].append(self.action(nm, a, agents, env, which))
        if len(agents) >= 2 and agents[0]["actions"] and rng.random() < 0.15:
            # the same action (same body over fluents both agents declare alike) in two agents
            act = agents[0]["actions"][0]
            own0 = [sexp.dumps(f[0]) for f in agents[0]["fluents"]]
            own1 = [sexp.dumps(f[0]) for f in agents[1]["fluents"]]
            if all(x in own1 for x in own0) and act[1] not in [x[1] for x in agents[1]["actions"]]:
                agents[1]["actions"].append(act)
        return mk_problem(name, env, agents, self.goals(agents, env, which))


def canon_action(act):
    """the action as the library stores it: add_precondition drops TRUE and duplicates"""
    pre = []
    for p in act[3][1:]:
        if p != T and p not in pre:
            pre.append(p)
    return act[:3] + [["pre"] + pre, act[4]]


def mk_problem(name, env, agents, goals, types=None, objects=None):
    """payloads describe problems AS STORED by the library: add_goal drops TRUE; user types / objects are optional"""
    tys = [["types"] + list(types), ["objects"] + list(objects or [])] if types else []
    return ["maproblem", name] + tys + [
        ["env"] + env,
        ["agents"] + [["agent", a["name"], ["fluents"] + a["fluents"], ["actions"] + [canon_action(x) for x in a["actions"]]]
                      for a in agents],
        ["goals"] + [g for g in goals if g != T]]


def sample_states(rng, ps, n=3):
    keys = all_keys(get(ps, "env"), agents_of(ps), objs_of(ps))
    out = []
    for _ in range(n):
        out.append([pyden.val_sexp(rng.choice(domain(t))) for _, t in keys])
    return ["states"] + out


def planted(rng):
    """shape-targeted families (every run)"""
    P, Q, X = ref("p", BOOL), ref("q", BOOL), ref("x", INT02)
    E = ref("e", BOOL)
    fp, fq, fx, fe = ["fl", P], ["fl", Q], ["fl", X], ["fl", E]
    two = lambda acts1, acts2, goals, env=(): mk_problem(
        "p", [[E, F]] if env == () else list(env),
        [{"name": "a1", "fluents": [[P, F, "T"], [Q, F, "F"], [X, ["i", "0"], "F"]], "actions": acts1},
         {"name": "a2", "fluents": [[P, F, "T"], [X, ["i", "0"], "T"]], "actions": acts2}], goals)
    eff = lambda k, t, v, c=T: ["eff", k, t, v, c, []]
    act = lambda n, pre, effs: ["action", n, [], ["pre"] + pre, ["effs"] + effs]
    i = lambda z: ["i", str(z)]
    out = []
    # static conflict among the effects a subset selects (d88a7f6: the variant is dropped)
    #   unconditional vs conditional assignment of different constants: never coincide
    out.append(("cond", two([act("act", [], [eff("assign", fx, i(1)), eff("assign", fx, i(2), fp)])], [], [])))
    #   increase vs conditional assignment
    out.append(("cond", two([act("act", [], [eff("increase", fx, i(1)), eff("assign", fx, i(2), dot("a2", fp))])], [], [])))
    #   two conditional assignments (the conflict arises in the subsets that select both) beside a Boolean effect
    out.append(("cond", two([act("act", [fq], [eff("assign", fx, i(1), fp), eff("assign", fx, i(2), fq), eff("assign", fe, T)])], [], [])))
    #   the same value twice: no conflict at all
    out.append(("cond", two([act("act", [], [eff("assign", fx, i(1)), eff("assign", fx, i(1), fp)])], [], [])))
    #   fluent-valued: `x := 1; x := x if p` and `x := a2.x if p; x := 2 if q` — the values coincide in some states
    out.append(("cond", two([act("act", [], [eff("assign", fx, i(1)), eff("assign", fx, fx, fp)])], [], [])))
    out.append(("cond", two([act("act", [], [eff("assign", fx, dot("a2", fx), fp), eff("assign", fx, i(2), fq), eff("assign", fq, T)])], [], [])))
    #   a conflict behind an earlier accepted selected effect (the loop is left in the middle: `break`)
    out.append(("cond", two([act("act", [], [eff("assign", fq, T, fp), eff("decrease", fx, i(1), fq), eff("assign", fx, i(0), ["not", fp]),
                                              eff("assign", fe, T, fq)])], [], [])))
    # effect-less variants
    out.append(("cond", two([act("act", [], [eff("assign", fq, T, fp)])], [act("act", [], [eff("assign", fp, T, dot("a1", fp))])], [])))
    out.append(("disj", two([act("act", [["or", fp, fq]], [eff("assign", fq, T, F)])], [], [])))
    # conditional increase under a disjunction
    out.append(("disj", two([act("act", [], [eff("increase", fx, i(1), ["or", fp, fq])])], [], [])))
    out.append(("disj", two([act("act", [["or", fp, fe]], [eff("assign", fx, i(2), ["or", fp, fq]), eff("assign", fe, T)])], [], [])))
    # disjunctive shared goals, two agents with actions
    g1 = ["or", dot("a1", fp), fe]
    out.append(("disj", two([act("act", [], [eff("assign", fp, T)])], [act("go", [], [eff("assign", fe, T)])], [g1])))
    out.append(("disj", two([act("act", [["or", fp, fq]], [eff("assign", fp, T)])], [act("act", [], [eff("assign", fp, T)])],
                            [g1, ["and", dot("a2", fp), ["or", dot("a1", fq), ["not", fe]]], dot("a1", fq)])))
    out.append(("disj", two([act("ma_dcrm_fake_action", [], [eff("assign", fp, T)])], [], [g1, g1])))
    # tautological / contradictory conditions
    out.append(("disj", two([act("act", [["or", fp, ["not", fp]]], [eff("assign", fq, T, ["and", fp, ["not", fp]]), eff("assign", fe, T)])], [], [])))
    out.append(("cond", two([act("act", [fp], [eff("assign", fq, T, ["not", fp]), eff("assign", fe, T, fp)])], [], [["or", fe, dot("a1", fp)]])))
    # a condition that becomes TRUE: the split effect is unconditional and clashes (compile raises)
    out.append(("disj", two([act("act", [], [eff("assign", fx, i(1)), eff("assign", fx, i(2), ["or", fp, ["not", fp]])])], [], [])))
    # equal actions in two agents, name clashes with fresh names
    same = act("act", [], [eff("assign", fp, T, fp), eff("assign", fp, F)])
    out.append(("cond", two([same, act("act_0", [], [eff("assign", fq, T)])], [same], [])))
    out.append(("disj", two([act("act", [["or", fp, fq]], [eff("assign", fp, T)]), act("act_0", [], [eff("assign", fq, T)])],
                            [act("act", [["or", fp, dot("a1", fp)]], [eff("assign", fp, F)])], [["or", dot("a2", fp), dot("a1", fp)]])))
    # own fluent read both bare and through a Dot on the agent itself
    out.append(("cond", two([act("act", [dot("a1", fp)], [eff("assign", fx, i(1), fp), eff("assign", fx, i(2), ["and", fq, dot("a1", fp)])])], [], [])))
    return [["ma", w, ps, sample_states(rng, ps)] for w, ps in out]


def conflict_family(rng, n):
    """randomised shapes of the static-conflict family: one agent (plus a second one to read from), an action with 2-4
    effects on the int fluent x, at least one conditional, values constant or fluent-valued, kinds mixed"""
    P, Q, X, Y = ref("p", BOOL), ref("q", BOOL), ref("x", INT02), ref("y", INT02)
    fp, fq, fx, fy = ["fl", P], ["fl", Q], ["fl", X], ["fl", Y]
    out = []
    while len(out) < n:
        conds = [fp, fq, ["not", fp], ["and", fp, fq], ["or", fp, fq], dot("a2", fp), ["le", fy, ["i", "1"]]]
        vals = [["i", "0"], ["i", "1"], ["i", "2"], fy, fx, dot("a2", fx)]
        effs, taken = [], None
        for _ in range(rng.choice([2, 2, 3, 4])):
            kind = rng.choice(["assign", "assign", "assign", "increase", "decrease"])
            v = rng.choice(vals) if kind == "assign" else ["i", "1"]
            c = T if rng.random() < 0.3 else rng.choice(conds)
            if c == T:
                # the library accepts only statically consistent unconditional effects
                sig = ("assign", sexp.dumps(v)) if kind == "assign" else "incdec"
                if taken is not None and taken != sig:
                    continue
                taken = sig
            effs.append(["eff", kind, fx, v, c, []])
        if rng.random() < 0.7:
            effs.insert(rng.randrange(len(effs) + 1), ["eff", "assign", fq, T, rng.choice([T, T, fp]), []])
        if not any(is_cond(e) for e in effs):
            continue
        pre = [] if rng.random() < 0.6 else [rng.choice(conds)]
        a1 = {"name": "a1", "fluents": [[P, F, "T"], [Q, F, "F"], [X, ["i", "0"], "F"], [Y, ["i", "0"], "T"]],
              "actions": [["action", "act", [], ["pre"] + pre, ["effs"] + effs]]}
        a2 = {"name": "a2", "fluents": [[P, F, "T"], [X, ["i", "0"], "T"]], "actions": []}
        ps = mk_problem("p", [], [a1, a2], [])
        out.append(["ma", "cond", ps, sample_states(rng, ps)])
    return out


def has_free_var(e):
    if not isinstance(e, list) or not e:
        return False
    if e[0] == "v":
        return True
    return any(has_free_var(a) for a in e[1:])


def forall_family(rng, n):
    """problems with user types and objects (sometimes a subtype) whose actions carry forall effects: conditional ones whose
    condition mentions the bound variable (expanded by _instances_of_conditional_effect), conditional ones with a closed
    condition and unconditional ones (both kept as forall effects), mixed with ground conditional effects on instances of the
    same fluents (static conflicts between an instance and a ground effect included)"""
    UT = ["user", "T"]
    out = []
    while len(out) < n:
        sub = rng.random() < 0.25
        types = [["T", "_"]] + ([["S", "T"]] if sub else [])
        objects = [["o1", "T"], ["o2", "T"]] if not sub else rng.choice([[["o1", "T"], ["s1", "S"]], [["s1", "S"], ["o1", "T"], ["o2", "T"]]])
        onames = [o for o, _ in objects]
        AT, CNT, Q = ["at", BOOL, [UT]], ["cnt", INT02, [UT]], ref("q", BOOL)
        LINK = ["link", BOOL, [UT, UT]]
        two_vars = rng.random() < 0.15 and len(objects) == 2
        x, y = ["v", "x", UT], ["v", "y", UT]
        VX, VY = ["x", UT], ["y", UT]
        vx = ["v", "z", ["user", "S"]] if sub and rng.random() < 0.4 else x
        VZ = [vx[1], vx[2]]
        ob = lambda o: ["o", o, dict(objects)[o]]
        at = lambda t: ["fl", AT, t]
        cnt = lambda t: ["fl", CNT, t]
        fq = ["fl", Q]
        a2_pub = rng.random() < 0.7
        bound_conds = lambda v: [at(v), ["not", at(v)], ["and", at(v), fq], ["le", cnt(v), ["i", "1"]]] + \
            ([dot("a2", at(v)), ["and", at(v), dot("a2", at(v))], ["or", at(v), dot("a2", at(v))]] if a2_pub else [])
        closed_conds = [fq, at(ob(onames[0])), ["not", fq], ["eq", cnt(ob(onames[-1])), ["i", "0"]]]
        effs, n_cond = [], 0
        unc_cnt = None   # the unconditional effect on cnt(x), if any: the library checks unconditional effects statically
        for _ in range(rng.choice([1, 2, 2, 3])):
            r = rng.random()
            v = vx if rng.random() < 0.5 else x
            V = [v[1], v[2]]
            dom = len([o for o, t in objects if t == V[1][1] or (V[1][1] == "T")])
            if r < 0.45:
                # conditional forall effect whose condition mentions the bound variable
                if n_cond + dom > 4:
                    continue
                c = rng.choice(bound_conds(v))
                k = rng.random()
                if k < 0.4:
                    effs.append(["eff", "assign", cnt(v), rng.choice([["i", "1"], ["i", "2"], cnt(v), ["fl", CNT, ob(onames[0])]]), c, [V]])
                elif k < 0.6:
                    effs.append(["eff", rng.choice(["increase", "decrease"]), cnt(v), ["i", "1"], c, [V]])
                else:
                    effs.append(["eff", "assign", at(v), rng.choice([T, F]), c, [V]])
                n_cond += dom
            elif r < 0.6:
                # conditional forall effect with a closed condition: not expanded
                if n_cond + 1 > 4:
                    continue
                effs.append(["eff", "assign", at(v), rng.choice([T, F]), rng.choice(closed_conds), [V]])
                n_cond += 1
            elif r < 0.75:
                # unconditional forall effect
                if rng.random() < 0.5:
                    effs.append(["eff", "assign", at(v), rng.choice([T, F]), T, [V]])
                elif unc_cnt is None:
                    unc_cnt = rng.choice([("assign", ["i", "1"]), ("increase", ["i", "1"])])
                    effs.append(["eff", unc_cnt[0], cnt(x), unc_cnt[1], T, [VX]])
            else:
                # ground conditional effect on an instance
                if n_cond + 1 > 4:
                    continue
                o = ob(rng.choice(onames))
                c = rng.choice(closed_conds + [at(o)])
                if rng.random() < 0.6:
                    effs.append(["eff", rng.choice(["assign", "assign", "increase"]), cnt(o), rng.choice([["i", "1"], ["i", "2"]]), c, []])
                else:
                    effs.append(["eff", "assign", fq, T, c, []])
                n_cond += 1
        if two_vars and n_cond <= 0:
            effs.append(["eff", "assign", ["fl", LINK, x, y], T, ["and", at(x), ["not", at(y)]], [VX, VY]])
            n_cond += 4
        if not any(is_cond(e) for e in effs):
            continue
        if rng.random() < 0.5:
            effs.insert(rng.randrange(len(effs) + 1), ["eff", "assign", fq, rng.choice([T, F]), T, []])
        pre = [] if rng.random() < 0.6 else [rng.choice(closed_conds)]
        fl1 = [[AT, F, "T"], [CNT, ["i", "0"], "F"], [Q, F, "F"]] + ([[LINK, F, "F"]] if two_vars else [])
        a1 = {"name": "a1", "fluents": fl1, "actions": [["action", "act", [], ["pre"] + pre, ["effs"] + effs]]}
        a2 = {"name": "a2", "fluents": [[AT, F, "T" if a2_pub else "F"]], "actions": []}
        if rng.random() < 0.2:
            a2["actions"].append(["action", "act", [], ["pre"],
                                  ["effs", ["eff", "assign", at(x), T, ["not", at(x)], [VX]],
                                   ["eff", "assign", at(ob(onames[0])), T, T, []]]])
        goals = [] if rng.random() < 0.7 else [dot("a1", at(ob(onames[0])))]
        ps = mk_problem("p", [], [a1, a2], goals, types, objects)
        out.append(["ma", "cond", ps, sample_states(rng, ps, 2)])
    return out


def cases(rng, tier):
    for c in planted(rng):
        yield c
    for c in conflict_family(rng, 14 if tier == "quick" else 200):
        yield c
    for c in forall_family(rng, 14 if tier == "quick" else 200):
        yield c
    n = 260 if tier == "quick" else 4000
    g = Gen(rng)
    for i in range(n):
        which = "cond" if i % 2 == 0 else "disj"
        ps = g.problem(which)
        yield ["ma", which, ps, sample_states(rng, ps)]


def search(rng, tier):
    g = Gen(rng)
    for c in planted(rng):
        yield c
    for c in conflict_family(rng, 40):
        yield c
    for c in forall_family(rng, 60):
        yield c
    while True:
        which = rng.choice(["cond", "disj"])
        ps = g.problem(which)
        yield ["ma", which, ps, sample_states(rng, ps, 1)]


# ------------------------------------------------------------------------------------------------
# evidence helpers
# ------------------------------------------------------------------------------------------------

def nontrivial(payload, ans):
    if not isinstance(ans, list) or len(ans) != 3 or ans[1][0] != "compiled":
        return False
    comp = ans[1]
    for ag in comp[3][1:]:
        origins = [sexp.dumps(c[1]) for c in ag[3][1:]]
        if "_" in origins or any(origins.count(o) >= 2 for o in origins):
            return True
    return False


def stats(payload, ans):
    t = [payload[1]]
    if not isinstance(ans, list) or len(ans) != 3:
        return t + [str(ans[0]) if isinstance(ans, list) else str(ans)]
    if ans[1][0] != "compiled":
        return t + ["raise-" + str(ans[1][1])]
    ps, comp = payload[2], ans[1]
    n_orig = len(orig_actions(ps))
    n_new = sum(len(ag[3][1:]) for ag in comp[3][1:])
    t.append(f"{payload[1]}-growth-" + ("less" if n_new < n_orig else "same" if n_new == n_orig else "more"))
    s = sexp.dumps(ps)
    if "(dot " in s:
        t.append("uses-dot")
    if len(comp[2][1:]) > len(get(ps, "env")):
        t.append("fake-goal")
    t.append(f"agents-{len(agents_of(ps))}")
    effs_all = [e for _, act in orig_actions(ps) for e in act[4][1:]]
    if any(e[5] and is_cond(e) and has_free_var(e[4]) for e in effs_all):
        t.append("forall-expanded")
    if any(e[5] and not (is_cond(e) and has_free_var(e[4])) for e in effs_all):
        t.append("forall-kept")
    if payload[1] == "cond" and shape_static_conflict(ps):
        t.append("shape:static-conflict")
    if payload[1] == "cond" and cause_coincide(ps):
        t.append("cause:coincide")
    if payload[1] == "disj" and cause_overlap(ps):
        t.append("cause:overlap")
    return t


def _drop(lst, i):
    return lst[:i] + lst[i + 1:]


def shrink(payload):
    which, ps, sts = payload[1], payload[2], payload[3]
    env, agents, goals = get(ps, "env"), agents_of(ps), get(ps, "goals")

    def rebuild(env, agents, goals):
        p2 = mk_problem(ps[1], env, agents, goals, get_opt(ps, "types"), get_opt(ps, "objects"))
        keys = all_keys(env, agents, objs_of(ps))
        return ["ma", which, p2, ["states", [pyden.val_sexp(domain(t)[0]) for _, t in keys]]]
    for i in range(len(goals)):
        yield rebuild(env, agents, _drop(goals, i))
    for ai, a in enumerate(agents):
        for j in range(len(a["actions"])):
            a2 = dict(a, actions=_drop(a["actions"], j))
            yield rebuild(env, agents[:ai] + [a2] + agents[ai + 1:], goals)
        for j, act in enumerate(a["actions"]):
            pre, effs = act[3][1:], act[4][1:]
            for k in range(len(pre)):
                act2 = act[:3] + [["pre"] + _drop(pre, k), act[4]]
                yield rebuild(env, agents[:ai] + [dict(a, actions=a["actions"][:j] + [act2] + a["actions"][j + 1:])] + agents[ai + 1:], goals)
            for k in range(len(effs)):
                act2 = act[:4] + [["effs"] + _drop(effs, k)]
                yield rebuild(env, agents[:ai] + [dict(a, actions=a["actions"][:j] + [act2] + a["actions"][j + 1:])] + agents[ai + 1:], goals)
            for k, e in enumerate(effs):
                c = e[4]
                if isinstance(c, list) and c[0] in ("and", "or", "not", "implies", "iff"):
                    for sub in c[1:]:
                        e2 = e[:4] + [sub, e[5]]
                        act2 = act[:4] + [["effs"] + effs[:k] + [e2] + effs[k + 1:]]
                        yield rebuild(env, agents[:ai] + [dict(a, actions=a["actions"][:j] + [act2] + a["actions"][j + 1:])] + agents[ai + 1:], goals)
            for k, p in enumerate(pre):
                if isinstance(p, list) and p[0] in ("and", "or", "not", "implies", "iff"):
                    for sub in p[1:]:
                        act2 = act[:3] + [["pre"] + pre[:k] + [sub] + pre[k + 1:], act[4]]
                        yield rebuild(env, agents[:ai] + [dict(a, actions=a["actions"][:j] + [act2] + a["actions"][j + 1:])] + agents[ai + 1:], goals)
    for gi, gl in enumerate(goals):
        if isinstance(gl, list) and gl[0] in ("and", "or", "not", "implies", "iff"):
            for sub in gl[1:]:
                yield rebuild(env, agents, goals[:gi] + [sub] + goals[gi + 1:])
    if len(agents) > 1:
        for ai in range(len(agents)):
            rest = _drop(agents, ai)
            s = sexp.dumps([mk_problem("p", env, rest, goals, get_opt(ps, "types"), get_opt(ps, "objects"))])
            if f"(dot {agents[ai]['name']} " not in s:
                yield rebuild(env, rest, goals)


MANIFEST = {
    "level_text": ("Lean theorems about an executable model of both multi-agent removers (per-action powerset split and DNF split, "
                   "goal compilation with fake fluents, fresh naming, map back) against a declarative reference successor over the "
                   "agent-indexed name space; model tied to /repo by differential comparison of whole compiled problems; the "
                   "property itself evaluated on the real compilers for all states of every generated problem"),
    "level_note": ("semantic theorems take the soundness of the simplifier (C11) as hypothesis and get the soundness of the DNF "
                   "walker from C12.dnf_equiv; the per-action split of the model is proved equal to the single-agent model of "
                   "C06/C07 (C37Cer); forall effects: theorem for actions whose forall effects are all expanded by the compiler "
                   "(C37_cond_forall_partial), the others are covered by correspondence and oracle only; soundness of conditional-effects removal is unconditional (repair d88a7f6 "
                   "modelled); three behaviours inherited from the single-agent helpers are known findings (coinciding values "
                   "of statically conflicting assignments, overlapping disjuncts, effect-less variants) and the corresponding "
                   "clauses are proved under decidable hypotheses that exclude exactly their causes, with kernel-checked "
                   "witnesses for the unrestricted statements"),
    "technique": "proof + correspondence + exhaustive-state oracle",
    "design_ref": "DESIGN.md §5 C37",
}
