"""C04 — Time-triggered and sequential validation agree on instantaneous plans."""
import warnings
from fractions import Fraction

warnings.simplefilter("ignore")

import sexp
import simlib
import ttlib
import upp

ID = "C04"
GEN = []
CORR_NAME = "tt-verdict-and-seq-verdict"
RULE = ("one case = a generated problem with instantaneous actions only (upp.ProblemGen = C01's grammar: Boolean/int/real/object "
        "fluents with parameters, types T>S,U, quantified/disjunctive conditions, conditional/forall assign/increase/decrease "
        "effects, Boolean delete+add pairs, same-value double assignments, aliasing through equal parameters, bounded types, "
        "state invariants, ~8% undefined fluents) and a plan of 0-4 (quick) / 0-6 (thorough) action instances found by walking with the REAL simulator (80% "
        "applicable steps, else arbitrary ones; 60% of the cases keep only the goals the walk reaches), scheduled at distinct "
        "rational start times (k/4, k/3, 1/7, 22/7, 10^6; 30% start at 0) and listed in shuffled order. The REAL "
        "TimeTriggeredPlanValidator on the plan as listed and the REAL SequentialPlanValidator on the instances in start-time "
        "order are each compared with their model: status, failure reason, position of the reported inapplicable action. "
        "Non-trivial = the plan has a step and either both verdicts are VALID, or the verdict is INVALID for a reason other than "
        "a precondition of the first step in time order.")
ASSUMPTIONS = [
    "start times are pairwise distinct and >= 0 (time 0 is the instant of the initial state; the trace stores it under -1)",
    "problems whose initial state violates their own invariants are rejected by get_initial_state (documented, DESIGN 2.11) and skipped",
    "divisors are non-zero constants (DESIGN 2.11): ZeroDivisionError escapes from both validators",
    "no interpreted functions: the time-triggered validator builds the whole trace before it checks any condition, so a user "
    "callable can be called on states the sequential validator never reaches (tables would have to be total); C01 covers them",
    "no quality metrics (the status does not depend on them unless a metric reads an undefined fluent, DESIGN 2.11); no simulated effects",
    "multi-variable Exists are written nested and integer constants stay below 2**53, as in C01",
    "action, fluent and quantifier parameters are user-typed (objects)",
]
MODELLED = [
    "modelled by hand (tied by correspondence): TimeTriggeredPlanValidator._validate / _apply_effects / _apply_effect / "
    "_states_in_interval / _check_condition / _instantiate_timing / _instantiate_interval (Core/TT.lean), the status part of "
    "SequentialPlanValidator._validate (Core/TT.lean seqValidate) on top of C01's model of the simulator (Core/Sim.lean)",
    "heapq is modelled as 'pop the least (time, id)' over a list kept in push order; dict as an insertion-ordered association list",
    "the grounder's simplifier is a parameter of the theorems (C11's model in the driver)",
    "not modelled: quality metrics, simulated effects, interpreted functions' callables",
]
BUDGET_S = {"quick": 40, "thorough": 300}
SEARCH_S = {"quick": 40, "thorough": 200}


def cases(rng, tier):
    n = 450 if tier == "quick" else 6000
    for _ in range(n):
        yield ttlib.make_case_c04(rng, tier)


_cache = {}


def _run(payload):
    k = sexp.dumps(payload)
    if k not in _cache:
        if len(_cache) > 3000:
            _cache.clear()
        keep = {}
        plan = payload[2][1:]
        b = ttlib.build(payload[1])
        tt = ttlib.run_tt(b, plan, keep)
        b2 = ttlib.build(payload[1])
        seq = ttlib.run_seq(b2, plan, keep)
        _cache[k] = (tt, seq, keep, b, b2)
    return _cache[k]


def impl(payload):
    tt, seq, _, _, _ = _run(payload)
    return [["tt", tt], ["seq", seq]]


def _first_step_pre(payload, ans):
    """INVALID because of the first step (in time order)"""
    plan = payload[2][1:]
    if not plan:
        return False
    seq = ans[1][1]
    return isinstance(seq, list) and seq[:2] == ["invalid", "inapplicable"] and seq[2] == "0"


def nontrivial(payload, ans):
    plan = payload[2][1:]
    if not plan:
        return False
    tt, seq = ans[0][1], ans[1][1]
    if tt == "valid" and seq == "valid":
        return True
    return isinstance(seq, list) and seq[0] == "invalid" and not _first_step_pre(payload, ans)


def stats(payload, ans):
    plan = payload[2][1:]
    tt, seq = ans[0][1], ans[1][1]
    times = [Fraction(p[0]) for p in plan]
    out = ["len:%d" % len(plan),
           "tt:" + (tt if isinstance(tt, str) else "-".join(tt[:2])),
           "seq:" + (seq if isinstance(seq, str) else "-".join(seq[:2]))]
    if times != sorted(times):
        out.append("listed-out-of-time-order")
    if times and min(times) == 0:
        out.append("starts-at-0")
    return out


def oracle(payload):
    """the property itself on the REAL code: the two validators return the same status, and a plan accepted by either
    validator never passes through a state that violates a bounded type or a state invariant of the problem text
    (independent evaluator on the states of the returned trace)"""
    tt, seq, keep, b, b2 = _run(payload)
    for name, v in (("time-triggered", tt), ("sequential", seq)):
        if isinstance(v, list) and v[0] == "raise":
            return f"{name} validation raised {v[1]}"
    tv, sv = tt == "valid", seq == "valid"
    if tv != sv:
        return (f"time-triggered validation says {'VALID' if tv else 'INVALID'}, sequential validation of the same instances in "
                f"start-time order says {'VALID' if sv else 'INVALID'}")
    if tv and "tt" in keep and keep["tt"].trace is not None:
        for t, st in keep["tt"].trace.items():
            bad = ttlib.invariant_violation(b, st)
            if bad:
                return f"time-triggered validation accepts a plan whose state at time {t} violates {bad}"
    if sv and "seq" in keep and keep["seq"].trace is not None:
        for i, st in enumerate(keep["seq"].trace):
            bad = ttlib.invariant_violation(b2, st)
            if bad:
                return f"sequential validation accepts a plan whose state {i} violates {bad}"
    return None


def shrink(payload):
    ps, plan = payload[1], payload[2][1:]
    # fewer steps first, then a smaller problem
    for i in range(len(plan)):
        yield ["c04", ps, ["plan"] + plan[:i] + plan[i + 1:]]
    used = {p[1] for p in plan}

    def rebuild(canon):
        names = {a[1] for a in upp.get(canon, "actions")}
        if not used <= names:
            return None
        return ["sim", canon, ["fn"], ["ops"]]
    for cand in simlib.shrink_problem(["sim", ps, ["fn"], ["ops"]], rebuild):
        try:
            simlib.make_real(cand[1])
        except Exception:
            continue
        yield ["c04", cand[1], payload[2]]


MANIFEST = {
    "level_text": ("Lean 4 theorems (Props/C04.lean) prove for every problem with instantaneous actions only, every simplifier and "
                   "every time-triggered plan with pairwise distinct non-negative start times, with no bound on the plan length: "
                   "the model of TimeTriggeredPlanValidator returns VALID iff the model of SequentialPlanValidator returns VALID "
                   "on the same action instances in start-time order (both directions, as equalities of results, so in particular "
                   "neither raises where the other accepts); a plan the time-triggered validator accepts keeps every bounded "
                   "fluent within its bounds and every state invariant true in every state of its trace, the last one included. "
                   "The models (Core/TT.lean on top of C01's Core/Sim.lean) mirror the repaired plan_validator.py function by "
                   "function and are tied to /repo on every run by a differential check of both validators (status, reason, "
                   "reported action) on generated problems and simulator-guided plans with shuffled rational start times, plus "
                   "the property's own oracle on the real code (same status; independent re-evaluation of bounds and invariants "
                   "on the returned traces)."),
    "level_note": ("Start times >= 0 (the initial state is stored under time -1) and an initial state satisfying the invariants "
                   "(hypotheses of the theorem, as in the property). No quality metrics, simulated effects or interpreted "
                   "functions. The grounder's simplifier is a parameter (C11). Trusted: Lean kernel; axioms propext, "
                   "Classical.choice, Quot.sound; the correspondence harness. Modelled not verified: heapq, dict, Fraction."),
    "technique": "Lean 4 proof (loop unrolling over the sorted plan + lockstep simulation of the two effect loops) + model/code correspondence",
    "design_ref": "DESIGN.md §5 C04",
}
