"""C17 — Linearity and monotonicity analysis is sound (LinearChecker.get_fluents)."""
import hashlib
import signal
import warnings
from fractions import Fraction
from itertools import product

warnings.simplefilter("ignore")
from unified_planning.model import InstantaneousAction, Problem
from unified_planning.model.walkers.linear_checker import LinearChecker
from unified_planning.model.walkers.simplifier import Simplifier

import pyden
import sexp
import upx
from upx import Ctx, enc_expr, q2s

ID = "C17"
GEN = []
CORR_NAME = "get_fluents-output"
RULE = ("one case = (objects t1,t2 of a user type T, optional problem = fluents with default / static-or-dynamic flag + explicit "
        "initial values, numeric expression). Expressions: + (2-3 args) - * (2-3 args) / over integer and rational constants of "
        "any magnitude (0, +-1, small, 2**53+1, 10**30, 10**400, n/d), int and real fluents with unbounded / bounded-positive / "
        "bounded-negative / zero-straddling / half-bounded types (nullary and with an object argument) and parameters of the same "
        "kinds of type; up to 5 leaves (quick) / 7 leaves (thorough); ~30% planted shapes around sign tracking: division by a "
        "negative / straddling / positive parameter or by an arithmetic combination of parameters, (p*x)/p, products with several "
        "negative factors, nested subtraction, x - (-c), 0*x*y, division by 1/p, fluent-dependent divisors, products of two "
        "fluent-dependent factors hidden under + and -. With a problem, static fluents with constant arguments are replaced by their "
        "initial values before the analysis. ~40% sign-by-interval family: a linear fluent part (fixed fluents and fresh fluents "
        "of random small bounded types) multiplied by / divided by 1-3 FLUENT-FREE factors that are arithmetic over fresh "
        "parameters whose int / real bounds are drawn per case (strictly positive, strictly negative, touching 0 from either side, "
        "straddling 0, a single point incl. 0, one-sided, unbounded): differences with non-constant subtrahends, 2-3-ary sums and "
        "products, quotients by constants and by point-typed parameters, negations, nested up to depth 2, the same parameter "
        "twice; half of the factors are shifted by a constant so that one bound of their textbook interval lands on -2..2 (the "
        "sign decision hangs on that bound); shapes G*X, X*G, G*X*G, G*(X*G), X/G, (G*X)/G, G*(X/G), (X/G)/G, Y-G*X, G*X-G*Y, "
        "G*X+Y/G, c-X/G, G*(X-Y), (0-G)*X, (X-G)/G. The oracle evaluates every case exactly over the WHOLE declared domain of "
        "each parameter whose type is an integer range of at most 13 values (bounds + inner values otherwise; grid capped at 600 "
        "parameter valuations / 3000 evaluations, thinned towards the bounds). Non-trivial = the expression contains - * or / "
        "and the answer either reports a fluent or is 'not linear'.")
ASSUMPTIONS = ["domain (DESIGN 2.11): expressions over + - * /, numeric constants, numeric fluents and numeric parameters; no interpreted "
               "functions, no Boolean sub-expressions (walk_default is transparent for them)",
               "a 'fluent' of the property is a ground fluent: fluent applications take constant (object) arguments; two reported "
               "expressions are the same fluent iff they denote the same (fluent, argument values)",
               "with a problem, static fluents that have an initial value are constants of the problem (the analysis replaces them "
               "by that value): they keep that value in every interpretation; all other fluents and the parameters range over "
               "their declared types",
               "monotonicity is demanded between interpretations on which the expression has a value (a divisor evaluating to 0 "
               "gives none)",
               "the product / quotient clause is read on the expression the analysis inspects, i.e. after the library's own "
               "simplification (constant folding: `0*x*y` is the constant 0), and semantically as: a reported-linear expression "
               "is an affine function of the fluent values for every value of the parameters (constant finite differences)",
               "no claim is made for a fluent reported in both sets or in none",
               "expressions are well-typed (built through the ExpressionManager); a generated case on which the simplifier itself "
               "raises (a constant divided by the constant zero) is kept: both sides answer an error tag; a case on which the TYPE "
               "CHECKER raises ZeroDivisionError while the simplifier rebuilds a node (a non-constant numerator of bounded type "
               "over a divisor that simplified to the constant 0, e.g. through a static fluent whose initial value is 0) is "
               "skipped, as in C11: the simplifier model does not re-type-check rebuilt nodes; likewise a quotient whose divisor "
               "has the point type [0,0] cannot be built (ZeroDivisionError at construction) and is skipped. Every OTHER "
               "exception at construction or during the analysis is kept as a case and counts as a failure",
               "exactness of the oracle: monotonicity is checked on a grid - all values of small integer parameter domains, the "
               "bounds and a few inner values of every other bounded type, a few values of unbounded types; 2-4 values per fluent"]
MODELLED = ["modelled by hand (tied by correspondence): LinearChecker.walk_* and _sign; reused models: Simplifier (C11), "
            "TypeChecker.get_type (C15); Python sets of FNodes as duplicate-free lists (compared sorted); Problem.get_static_fluents/"
            "initial_value as tables"]
BUDGET_S = {"quick": 50, "thorough": 420}
EXTRA_PROPS = ["UPVerif.Props.C17Sign"]

TYPES = [["T", "_"]]
OBJECTS = [["t1", "T"], ["t2", "T"]]
U = lambda n: ["user", n]
INT, REAL = ["int", "_", "_"], ["real", "_", "_"]

FLUENTS = [
    ["x", INT, []], ["y", ["int", "0", "10"], []], ["w", ["int", "-5", "-1"], []], ["v", ["int", "-3", "4"], []],
    ["u", ["int", "2", "_"], []], ["z", REAL, []], ["zb", ["real", "0", "7/2"], []], ["zn", ["real", "-7/2", "-1/2"], []],
    ["xq", ["int", "-5", "5"], [U("T")]], ["c", ["int", "1", "3"], [U("T")]], ["k", ["int", "-4", "-2"], []],
]
PARAMS = [
    ["p", "pi", ["int", "-5", "-1"]], ["p", "pj", INT], ["p", "pk", ["int", "1", "5"]], ["p", "pm", ["int", "-3", "4"]],
    ["p", "ph", ["int", "2", "_"]], ["p", "pl", ["int", "_", "-2"]], ["p", "pz", ["int", "0", "5"]], ["p", "pr", REAL],
    ["p", "pn", ["real", "-7/2", "-1/2"]], ["p", "pp", ["real", "1/2", "9/2"]], ["p", "pq", ["real", "-1", "1"]],
]
F = {f[0]: f for f in FLUENTS}
P = {p[1]: p for p in PARAMS}


def fl(name, *args):
    return ["fl", F[name]] + [["o", a, "T"] for a in args]


# ---------------------------------------------------------------------------------------------------
# generator
# ---------------------------------------------------------------------------------------------------

def const(rng):
    k = rng.random()
    if k < 0.12:
        return ["i", str(rng.choice(upx.BIG) * rng.choice([1, -1]))]
    if k < 0.22:
        return ["r", q2s(Fraction(rng.choice([1, -1, 3, -7, 2 ** 53 + 1, -10 ** 30]), rng.choice([2, 3, 4, 10 ** 20 + 1])))]
    return ["i", str(rng.choice([0, 1, -1, 2, -2, 3, -3, 5, -4, 7, 12]))]


def fluent_leaf(rng):
    f = rng.choice(FLUENTS)
    return ["fl", f] + [["o", rng.choice(["t1", "t2"]), "T"] for _ in f[2]]


def leaf(rng):
    k = rng.random()
    if k < 0.45:
        return fluent_leaf(rng)
    if k < 0.75:
        return list(rng.choice(PARAMS))
    return const(rng)


def gen(rng, leaves):
    """numeric expression with exactly `leaves` leaves"""
    if leaves <= 1:
        return leaf(rng)
    k = rng.random()
    if k < 0.28:
        op, n = "plus", rng.choice([2, 2, 3])
    elif k < 0.45:
        op, n = "minus", 2
    elif k < 0.80:
        op, n = "times", rng.choice([2, 2, 3])
    else:
        op, n = "div", 2
    n = min(n, leaves)
    cuts = sorted(rng.sample(range(1, leaves), n - 1))
    sizes = [b - a for a, b in zip([0] + cuts, cuts + [leaves])]
    args = [gen(rng, s) for s in sizes]
    if op == "div" and rng.random() < 0.6:    # mostly fluent-free divisors
        args[1] = rng.choice([const(rng), list(rng.choice(PARAMS)), ["minus", list(rng.choice(PARAMS)), const(rng)],
                              ["times", list(rng.choice(PARAMS)), list(rng.choice(PARAMS))]])
        if args[1][0] in ("i", "r") and Fraction(args[1][1]) == 0:
            args[1] = ["i", "-3"]
    return [op] + args


def planted(rng):
    """shapes around the sign tracking of walk_times / walk_div / walk_minus (D-C17 and its neighbours)"""
    X = rng.choice([fl("x"), fl("z"), fl("y"), fl("xq", "t1"), fl("w"), ["minus", fl("x"), fl("y")],
                    ["plus", fl("z"), fl("xq", "t2")], ["times", ["i", "-2"], fl("x")]])
    Y = rng.choice([fl("y"), fl("z"), fl("v"), fl("xq", "t2"), fl("c", "t1")])
    p = list(rng.choice(PARAMS))
    q = list(rng.choice(PARAMS))
    c = const(rng)
    nz = c if Fraction(c[1]) != 0 else ["i", "-2"]
    shapes = [
        lambda: ["div", X, p],                                          # D-C17: sign of a non-constant divisor
        lambda: ["div", ["times", p, X], p],
        lambda: ["div", X, ["minus", p, nz]],
        lambda: ["div", X, ["times", p, q]],
        lambda: ["div", X, ["div", ["i", "1"], p]],
        lambda: ["div", X, nz],
        lambda: ["div", nz, p],
        lambda: ["div", ["minus", X, Y], ["times", p, nz]],
        lambda: ["times", X, p, q],
        lambda: ["times", p, ["times", q, X]],
        lambda: ["times", nz, X, ["i", "-3"]],
        lambda: ["times", X, ["minus", p, q]],
        lambda: ["times", X, ["plus", p, c]],
        lambda: ["minus", X, ["minus", Y, ["times", p, X]]],
        lambda: ["minus", ["i", "0"], ["minus", ["i", "0"], X]],
        lambda: ["minus", X, ["i", "-3"]],
        lambda: ["times", ["i", "0"], X, Y],
        lambda: ["plus", X, ["times", ["i", "0"], Y]],
        lambda: ["div", X, Y],                                          # fluent-dependent divisor
        lambda: ["div", p, ["plus", Y, ["i", "20"]]],
        lambda: ["times", X, Y],                                        # two fluent-dependent factors
        lambda: ["times", ["plus", X, p], ["minus", q, Y]],
        lambda: ["plus", ["times", X, ["minus", Y, Y]], p],
        lambda: ["minus", ["times", p, X], ["div", Y, q]],
        lambda: ["times", X, ["fl", F["k"]]],                           # (possibly static) fluent as a factor
        lambda: ["div", X, ["fl", F["k"]]],
        lambda: ["div", X, ["fl", F["c"], ["o", "t1", "T"]]],
        lambda: ["times", ["fl", F["c"], ["o", "t2", "T"]], X, p],
    ]
    return rng.choice(shapes)()


# ---------------------------------------------------------------------------------------------------
# sign-by-interval family: fluent-free factors / divisors whose sign the analysis can only know from the
# INFERRED INTERVAL of an arithmetic combination of bounded parameters (TypeChecker.walk_plus/minus/times/div
# feeding LinearChecker._sign).  All bounds are drawn from the rng, small enough for exhaustive evaluation.
# ---------------------------------------------------------------------------------------------------

BOUND_KINDS = ["pos"] * 3 + ["neg"] * 3 + ["lo0"] * 2 + ["hi0"] * 2 + ["straddle"] * 4 + ["point", "half-lo", "half-hi", "unbounded"]


def rand_bounds(rng, real):
    """a numeric type with random small bounds: strictly positive / strictly negative / touching 0 from above or
    below / straddling 0 / a single point (0 included) / one-sided / unbounded"""
    k = rng.choice(BOUND_KINDS)
    a, b = rng.randint(1, 4), rng.randint(0, 5)
    if k == "pos":
        lo, hi = a, a + b
    elif k == "neg":
        lo, hi = -a - b, -a
    elif k == "lo0":
        lo, hi = 0, a + b
    elif k == "hi0":
        lo, hi = -a - b, 0
    elif k == "straddle":
        lo, hi = -a, rng.randint(1, 5)
    elif k == "point":
        lo = hi = rng.randint(-3, 3)
    elif k == "half-lo":
        lo, hi = rng.randint(-3, 3), None
    elif k == "half-hi":
        lo, hi = None, rng.randint(-3, 3)
    else:
        lo = hi = None
    if real:
        d = rng.choice([1, 2, 2, 3])
        f = lambda x: "_" if x is None else q2s(Fraction(x, d))
        return ["real", f(lo), f(hi)]
    f = lambda x: "_" if x is None else str(x)
    return ["int", f(lo), f(hi)]


def _xmul(a, b):
    if a == 0 or b == 0:
        return Fraction(0)
    return a * b


def ref_interval(g):
    """textbook interval of an arithmetic expression from the declared bounds of its parameters and fluents ((lo, hi), None =
    unbounded); used only to steer the generator towards factors whose sign hangs on one bound and to recognise the
    division-by-a-zero-typed-divisor refusal in usable()"""
    INF = float("inf")
    h = g[0]
    if h in ("i", "r"):
        return Fraction(g[1]), Fraction(g[1])
    if h in ("p", "fl"):
        t = g[2] if h == "p" else g[1][1]
        return (None if t[1] == "_" else Fraction(t[1])), (None if t[2] == "_" else Fraction(t[2]))
    iv = [ref_interval(a) for a in g[1:]]
    ext = [(-INF if lo is None else lo, INF if hi is None else hi) for lo, hi in iv]
    if h == "plus":
        lo, hi = sum(l for l, _ in ext), sum(u for _, u in ext)
    elif h == "minus":
        lo, hi = ext[0][0] - ext[1][1], ext[0][1] - ext[1][0]
    elif h == "times":
        lo, hi = ext[0]
        for l, u in ext[1:]:
            ps = [_xmul(lo, l), _xmul(lo, u), _xmul(hi, l), _xmul(hi, u)]
            lo, hi = min(ps), max(ps)
    elif h == "div":
        (l, u), (dl, du) = ext
        if dl == du and dl != 0:
            lo, hi = sorted([l / dl, u / dl])
        else:
            lo, hi = -INF, INF
    else:
        raise ValueError(h)
    return (None if lo == -INF else Fraction(lo)), (None if hi == INF else Fraction(hi))


class SignPool:
    """the bounded parameters (and small bounded fluents) of one case: fresh names, types drawn from the rng"""

    def __init__(self, rng):
        self.rng = rng
        self.params = []
        self.nfl = 0

    def param(self):
        rng = self.rng
        if self.params and rng.random() < 0.12:          # the same parameter twice (interval wider than the range)
            return list(rng.choice(self.params))
        p = ["p", "a%d" % len(self.params), rand_bounds(rng, rng.random() < 0.2)]
        self.params.append(p)
        return list(p)

    def small_const(self, nonzero=False):
        rng = self.rng
        c = rng.choice([1, -1, 2, -2, 3, -3, 5, -4, 7] + ([] if nonzero else [0]))
        if rng.random() < 0.2:
            return ["r", q2s(Fraction(c, rng.choice([2, 3]))) if c else "0"]
        return ["i", str(c)]

    def factor(self, depth):
        """a fluent-free numeric expression over the bounded parameters"""
        rng = self.rng
        k = rng.random()
        if depth <= 0 or k < 0.10:
            return self.param() if rng.random() < 0.85 else self.small_const()
        if k < 0.42:
            return ["minus", self.factor(depth - 1), self.factor(depth - 1)]
        if k < 0.60:
            return ["plus"] + [self.factor(depth - 1) for _ in range(rng.choice([2, 2, 3]))]
        if k < 0.82:
            return ["times"] + [self.factor(depth - 1) for _ in range(rng.choice([2, 2, 3]))]
        if k < 0.92:                                     # the only divisors through which bounds propagate: constants
            d = self.small_const(nonzero=True) if rng.random() < 0.7 else \
                ["p", "c%d" % len(self.params), (lambda c: ["int", str(c), str(c)])(rng.choice([1, -1, 2, -3]))]
            if d[0] == "p":
                self.params.append(d)
            return ["div", self.factor(depth - 1), list(d)]
        if k < 0.96:
            return ["minus", ["i", "0"], self.factor(depth - 1)]
        return ["times", ["i", "-1"], self.factor(depth - 1)]

    def edge(self, g):
        """shift a factor by a constant so that one bound of its interval lands on -2..2: the sign decision then hangs on that
        single bound (strictly positive vs touching 0 vs just across it), whichever type rule produced it.  The interval used
        for steering is the textbook one (ref_interval); it never judges anything."""
        rng = self.rng
        lo, hi = ref_interval(g)
        b = rng.choice([lo, hi])
        if b is None:
            return g
        c = rng.choice([-1, 0, 1, -1, 0, 1, -2, 2]) - b
        cs = lambda q: ["i", str(q.numerator)] if q.denominator == 1 and rng.random() < 0.8 else ["r", q2s(q)]
        k = rng.random()
        if k < 0.4:
            return ["plus", g, cs(c)]
        if k < 0.55:
            return ["plus", cs(c), g]
        if k < 0.8:
            return ["minus", g, cs(-c)]
        return ["minus", cs(-c), g]        # the mirror image: [-c - hi, -c - lo]

    def fluent(self):
        """a fluent leaf: one of the fixed fluents or a fresh nullary fluent of a small bounded type"""
        rng = self.rng
        if rng.random() < 0.5:
            return fluent_leaf(rng)
        self.nfl += 1
        return ["fl", ["s%d" % self.nfl, rand_bounds(rng, rng.random() < 0.25), []]]

    def linear_part(self):
        rng = self.rng
        k = rng.random()
        if k < 0.5:
            return self.fluent()
        if k < 0.65:
            return ["minus", self.fluent(), self.fluent()]
        if k < 0.75:
            return ["plus", self.fluent(), self.small_const()]
        if k < 0.85:
            return ["times", self.small_const(nonzero=True), self.fluent()]
        if k < 0.93:
            return ["minus", self.small_const(), self.fluent()]
        return ["plus", self.fluent(), self.fluent()]


def signed(rng):
    """a product / quotient whose fluent-free factors / divisor are arithmetic over bounded parameters"""
    S = SignPool(rng)
    d = rng.choice([0, 1, 1, 1, 2, 2])
    first = [True]

    def G():          # one factor of the drawn depth, further ones at most one operator deep (keeps the parameter grid small)
        dd = d if first[0] else min(d, rng.choice([0, 1]))
        first[0] = False
        g = S.factor(dd)
        return S.edge(g) if rng.random() < 0.5 else g
    X, Y = S.linear_part, S.linear_part
    shapes = [
        lambda: ["times", G(), X()],
        lambda: ["times", X(), G()],
        lambda: ["times", G(), X()],
        lambda: ["times", X(), G()],
        lambda: ["times", G(), X(), G()],
        lambda: ["times", G(), G(), X()],
        lambda: ["times", G(), ["times", X(), G()]],
        lambda: ["div", X(), G()],
        lambda: ["div", X(), G()],
        lambda: ["div", X(), G()],
        lambda: ["div", ["times", G(), X()], G()],
        lambda: ["times", G(), ["div", X(), G()]],
        lambda: ["div", ["div", X(), G()], G()],
        lambda: ["minus", Y(), ["times", G(), X()]],
        lambda: ["minus", ["times", G(), X()], ["times", G(), Y()]],
        lambda: ["plus", ["times", G(), X()], ["div", Y(), G()]],
        lambda: ["minus", S.small_const(), ["div", X(), G()]],
        lambda: ["times", G(), ["minus", X(), Y()]],
        lambda: ["times", ["minus", ["i", "0"], G()], X()],
        lambda: ["div", ["minus", X(), G()], G()],
    ]
    return rng.choice(shapes)()


def rand_const(rng, ty):
    if ty[0] == "int":
        lo = int(ty[1]) if ty[1] != "_" else (int(ty[2]) - 6 if ty[2] != "_" else -3)
        hi = int(ty[2]) if ty[2] != "_" else lo + 6
        return ["i", str(rng.randint(lo, hi))]
    lo = Fraction(ty[1]) if ty[1] != "_" else Fraction(-3)
    hi = Fraction(ty[2]) if ty[2] != "_" else lo + 6
    q = lo + (hi - lo) * Fraction(rng.randint(0, 4), 4)
    return ["i", str(q.numerator)] if (q.denominator == 1 and rng.random() < 0.3) else ["r", q2s(q)]


def ground_instances(ref):
    doms = [[["o", n, t] for n, t in OBJECTS if t == s[1]] for s in ref[2]]
    for args in product(*doms):
        yield ["fl", ref] + list(args)


def make_problem(rng, expr):
    names = upx.free_names(expr)
    fls, init = [], []
    for ref in names["fl"]:
        static = rng.random() < 0.5
        default = rand_const(rng, ref[1]) if rng.random() < 0.5 else "_"
        fls.append([ref, default, "static" if static else "dynamic"])
        for inst in ground_instances(ref):
            if rng.random() < 0.5:
                init.append([inst, rand_const(rng, ref[1])])
    return ["problem", ["fluents"] + fls, ["init"] + init]


SIGNED_SHARE = 0.4


def cases(rng, tier):
    n = 700 if tier == "quick" else 16000
    maxleaves = 5 if tier == "quick" else 7
    for _ in range(n):
        k = rng.random()
        if k < SIGNED_SHARE:
            e = signed(rng)
            if rng.random() < 0.2:
                e = [rng.choice(["plus", "minus"]), e, gen(rng, rng.choice([1, 2]))]
        elif k < SIGNED_SHARE + 0.2:
            e = planted(rng)
            if rng.random() < 0.3:
                e = [rng.choice(["plus", "minus"]), e, gen(rng, rng.choice([1, 2]))]
        else:
            e = gen(rng, rng.randint(1, maxleaves))
        prob = make_problem(rng, e) if rng.random() < 0.4 else "none"
        payload = ["lin", ["types"] + TYPES, ["objects"] + OBJECTS, prob, e]
        if usable(payload):
            yield payload


def usable(payload):
    """the expression is not one of the two documented refusals: a quotient by a divisor of point type [0,0] (cannot be built),
    and the TYPE CHECKER raising ZeroDivisionError while the simplifier rebuilds nodes (`e / c` whose divisor simplified to
    the constant 0 under a numerator of bounded type — whether such a node can be built is decided by the type checker's
    interval arithmetic, C15; the C11 model of the simplifier does not re-type-check rebuilt nodes, same exclusion as in
    props/C11.py)"""
    try:
        ctx, problem, expr = build(payload)
    except ZeroDivisionError:
        # the one refusal the unchanged library has on this domain: `e / d` where the TYPE of d is the point 0 (TypeChecker.walk_div
        # divides the bounds of e by it).  Anything else the constructors raise on a well-typed arithmetic expression is kept
        # as a case: impl() answers (err build:...), the model does not, and the oracle reports it.
        return not zero_point_divisor(payload[4])
    except Exception:   # noqa
        return True
    r = run(ctx, problem, expr)
    return not (r[0] == "err" and r[1] == "typecheck:ZeroDivisionError")


def zero_point_divisor(e):
    """some quotient in e has a divisor whose declared/inferred interval is exactly [0,0]"""
    if not isinstance(e, list) or not e or e[0] in ("fl", "p", "i", "r", "o"):
        return False
    if e[0] == "div":
        try:
            if ref_interval(e[2]) == (0, 0):
                return True
        except Exception:   # noqa
            pass
    return any(zero_point_divisor(a) for a in e[1:])


# ---------------------------------------------------------------------------------------------------
# real code
# ---------------------------------------------------------------------------------------------------

class _Timeout(Exception):
    pass


def _alarm(signum, frame):
    raise _Timeout()


def build(payload):
    """fresh environment, objects, problem (or None), the real FNode"""
    _, types, objects, prob, e = payload
    ctx = Ctx([(t[0], None if t[1] == "_" else t[1]) for t in types[1:]])
    for n, t in objects[1:]:
        ctx.obj(n, t)
    expr = ctx.expr(e)
    problem = None
    if prob != "none":
        problem = Problem("p", ctx.env)
        for n, t in objects[1:]:
            problem.add_object(ctx.obj(n, t))
        for ref, default, flag in prob[1][1:]:
            f = ctx.fluent(ref)
            if default == "_":
                problem.add_fluent(f)
            else:
                problem.add_fluent(f, default_initial_value=ctx.expr(default))
            if flag == "dynamic":
                a = InstantaneousAction("set_" + ref[0] + str(len(problem.actions)), _env=ctx.env,
                                        **{f"a{i}": ctx.ty(t) for i, t in enumerate(ref[2])}, **{"w": ctx.ty(ref[1])})
                a.add_effect(f(*[a.parameter(f"a{i}") for i in range(len(ref[2]))]), a.parameter("w"))
                problem.add_action(a)
        for fe, v in prob[2][1:]:
            problem.set_initial_value(ctx.expr(fe), ctx.expr(v))
    return ctx, problem, expr


def run(ctx, problem, expr):
    """-> ("ok", is_linear, pos, neg) | ("err", tag)"""
    old = signal.signal(signal.SIGALRM, _alarm)
    signal.alarm(20)
    try:
        lin, pos, neg = LinearChecker(problem, ctx.env).get_fluents(expr)
        return ("ok", bool(lin), set(pos), set(neg))
    except _Timeout:
        return ("err", "timeout")
    except (ZeroDivisionError, AssertionError, OverflowError) as ex:
        import traceback
        tb = traceback.extract_tb(ex.__traceback__)
        files = [fr.filename.rsplit("/", 1)[-1] for fr in tb]
        if "simplifier.py" in files:
            if "type_checker.py" in files:
                # the TYPE CHECKER refused a node the simplifier rebuilt (`e / c` whose divisor simplified to the
                # constant 0 under a numerator of bounded type): interval arithmetic is C15's model, see usable()
                return ("err", "typecheck:" + type(ex).__name__)
            return ("err", "simp:zero-div" if isinstance(ex, ZeroDivisionError) or "walk_div" in [fr.name for fr in tb]
                    else "simp:assertion")
        return ("err", "type" if "type_checker.py" in files else "arity")
    except Exception as ex:   # noqa
        return ("err", "other:" + type(ex).__name__)
    finally:
        signal.alarm(0)
        signal.signal(signal.SIGALRM, old)


def _sorted(es):
    return sorted(es, key=sexp.dumps)


def impl(payload):
    try:
        ctx, problem, expr = build(payload)
    except Exception as ex:   # noqa
        return ["err", "build:" + type(ex).__name__]
    r = run(ctx, problem, expr)
    if r[0] == "err":
        return ["err", r[1]]
    return ["ok", sexp.B(r[1]), _sorted([enc_expr(f) for f in r[2]]), _sorted([enc_expr(f) for f in r[3]])]


def canon(a):
    if isinstance(a, list) and len(a) == 4 and a[0] == "ok":
        return ["ok", a[1], _sorted(a[2]), _sorted(a[3])]
    return a


def compare(model_ans, impl_ans):
    return canon(model_ans) == canon(impl_ans)


def _heads(s, acc):
    if isinstance(s, list) and s and isinstance(s[0], str):
        if s[0] in ("fl", "p", "i", "r", "o"):
            acc.add(s[0])
            return
        acc.add(s[0])
        for x in s[1:]:
            _heads(x, acc)


def nontrivial(payload, ans):
    hs = set()
    _heads(payload[4], hs)
    if ans[0] != "ok" or not (hs & {"minus", "times", "div"}):
        return False
    return ans[1] == "F" or bool(ans[2]) or bool(ans[3])


def _maxabs(s):
    m = 0
    if isinstance(s, list):
        if s and s[0] in ("i", "r") and len(s) == 2 and isinstance(s[1], str):
            q = Fraction(s[1])
            return max(abs(q.numerator), abs(q.denominator))
        for x in s:
            m = max(m, _maxabs(x))
    return m


def stats(payload, ans):
    if ans[0] == "err":
        return ["err:" + ans[1]]
    e = payload[4]
    hs = set()
    _heads(e, hs)
    t = ["linear" if ans[1] == "T" else "not-linear"]
    for h in ("plus", "minus", "times", "div", "p"):
        if h in hs:
            t.append("has:" + h)
    pos, neg = [sexp.dumps(x) for x in ans[2]], [sexp.dumps(x) for x in ans[3]]
    if neg:
        t.append("some-negative-fluent")
    if set(pos) & set(neg):
        t.append("fluent-in-both-sets")
    if set(pos) - set(neg):
        t.append("fluent-only-positive")
    if set(neg) - set(pos):
        t.append("fluent-only-negative")
    if payload[3] != "none":
        t.append("with-problem")
        if any(f[2] == "static" for f in payload[3][1][1:]):
            t.append("static-fluent")
    if _maxabs(e) > 2 ** 53:
        t.append("const>2^53")
    t += sign_tags(e, ans)
    t.append("leaves:%d" % n_leaves(e))
    return t


def has_head(s, heads):
    if not isinstance(s, list) or not s:
        return False
    if s[0] in heads:
        return True
    if s[0] in ("fl", "p", "i", "r", "o"):
        return False
    return any(has_head(x, heads) for x in s[1:])


def sign_factors(e, acc):
    """the fluent-free, parameter-dependent factors of products and divisors of quotients (as written in the case)"""
    if not isinstance(e, list) or not e or e[0] in ("fl", "p", "i", "r", "o"):
        return acc
    if e[0] == "times":
        acc += [a for a in e[1:] if not has_head(a, ("fl",)) and has_head(a, ("p",))]
    if e[0] == "div" and not has_head(e[2], ("fl",)) and has_head(e[2], ("p",)):
        acc.append(e[2])
    for a in e[1:]:
        if has_head(a, ("fl",)):
            sign_factors(a, acc)
    return acc


def nonconst_subtrahend(g):
    if not isinstance(g, list) or not g or g[0] in ("fl", "p", "i", "r", "o"):
        return False
    if g[0] == "minus" and has_head(g[2], ("p",)):
        return True
    return any(nonconst_subtrahend(a) for a in g[1:])


def exact_range_class(g):
    """the sign class of the values a fluent-free factor really takes over the declared parameter domains (whole domain of
    small integer types, bounds and a few inner values otherwise; measured for the evidence, never used by the oracle)"""
    pars = upx.free_names(g)["p"]
    if any(p[2][1] == "_" or p[2][2] == "_" for p in pars):
        return "one-sided-or-unbounded-parameter"
    doms = param_domains([p[2] for p in pars], False, 3000)
    vals = []
    for pv in product(*doms):
        v = pyden.den(g, {"fl": {}, "fn": {}, "par": {p[1]: ("n", x) for p, x in zip(pars, pv)}, "dom": {}})
        if v is not None:
            vals.append(v[1])
    if not vals:
        return "no-value"
    lo, hi = min(vals), max(vals)
    return ">0" if lo > 0 else "<0" if hi < 0 else "=0" if lo == hi else "touches-0" if (lo == 0 or hi == 0) else "straddles-0"


def sign_tags(e, ans):
    gs = sign_factors(e, [])
    if not gs:
        return []
    t = ["sgn:param-dependent-factor"]
    if any(g[0] != "p" for g in gs):
        t.append("sgn:factor-is-arithmetic")
    if any(nonconst_subtrahend(g) for g in gs):
        t.append("sgn:difference-with-nonconstant-subtrahend")
    if any(has_head(g, ("times",)) for g in gs):
        t.append("sgn:factor-has-product")
    if any(has_head(g, ("plus",)) for g in gs):
        t.append("sgn:factor-has-sum")
    if any(has_head(g, ("div",)) for g in gs):
        t.append("sgn:factor-has-quotient")
    for c in sorted(set(exact_range_class(g) for g in gs)):
        t.append("sgn:factor-range:" + c)
    pos, neg = set(sexp.dumps(x) for x in ans[2]), set(sexp.dumps(x) for x in ans[3])
    if ans[1] == "T" and (pos or neg):
        t.append("sgn:sign-decided" if (pos ^ neg) else "sgn:sign-unknown")
    return t


def n_leaves(s):
    if s[0] in ("fl", "p", "i", "r"):
        return 1
    return sum(n_leaves(x) for x in s[1:])


# ---------------------------------------------------------------------------------------------------
# the property itself, on the real code
# ---------------------------------------------------------------------------------------------------

def sample_domain(ty, small):
    """a few values inside a numeric type: its bounds, values next to them, 0 and values around it when inside"""
    is_int = ty[0] == "int"
    lo = Fraction(ty[1]) if ty[1] != "_" else None
    hi = Fraction(ty[2]) if ty[2] != "_" else None
    if lo is not None and hi is not None:
        cand = [lo, hi, lo + 1, hi - 1, Fraction(0), Fraction(1), Fraction(-1), (lo + hi) / 2]
    elif lo is not None:
        cand = [lo, lo + 1, lo + 3, Fraction(0), Fraction(-1)]
    elif hi is not None:
        cand = [hi, hi - 1, hi - 4, Fraction(0), Fraction(1)]
    else:
        cand = [Fraction(-3), Fraction(-1), Fraction(0), Fraction(2), Fraction(1, 2), Fraction(-5, 2)]
    out = []
    for c in cand:
        if is_int and c.denominator != 1:
            c = Fraction(c.numerator // c.denominator)
        if (lo is None or c >= lo) and (hi is None or c <= hi) and c not in out:
            out.append(c)
    out = sorted(out)
    k = 3 if small else 4
    if len(out) > k:        # keep the extremes and spread the rest
        idx = sorted(set(round(i * (len(out) - 1) / (k - 1)) for i in range(k)))
        out = [out[i] for i in idx]
    return out


FULL_DOMAIN_MAX = 13      # a bounded integer type with at most this many values is enumerated completely
PARAM_GRID_MAX = 600      # ... as long as the grid of parameter valuations stays below this size


def full_domain(ty):
    if ty[0] == "int" and ty[1] != "_" and ty[2] != "_" and int(ty[2]) - int(ty[1]) + 1 <= FULL_DOMAIN_MAX:
        return [Fraction(v) for v in range(int(ty[1]), int(ty[2]) + 1)]
    return None


def param_domains(tys, small, grid_max=None):
    """the values each parameter ranges over: its WHOLE declared domain when that is a small integer range (the sign of a
    fluent-free factor is decided by the parameters alone, so this is where exactness matters), otherwise the bounds of the
    type and a few values between / around 0.  When the grid gets too large the largest domains fall back to
    (bounds + spread values) and finally to the two ends, which always keeps both bounds of every bounded type."""
    doms = [full_domain(t) or sample_domain(t, small) for t in tys]

    def size():
        n = 1
        for d in doms:
            n *= len(d)
        return n
    for k in (4, 3, 2):
        while size() > (grid_max or PARAM_GRID_MAX):
            i = max(range(len(doms)), key=lambda j: len(doms[j]))
            if len(doms[i]) <= k:
                break
            doms[i] = sample_domain(tys[i], k == 3) if k > 2 else [doms[i][0], doms[i][-1]]
    return doms


EVAL_MAX = 3000           # evaluations of the expression per case


def evaluation_grid(ftys, ptys):
    """(values per fluent, values per parameter).  Parameters: param_domains (whole small integer domains).  Fluents: 4 / 3
    values spread over the type (always both bounds of a bounded type); when fluents x parameters exceeds EVAL_MAX the fluents
    go down to 3 and then 2 values (the two ends of what was sampled) before the parameter grid is thinned."""
    small = len(ftys) + len(ptys) > 4
    pdoms = param_domains(ptys, small)
    fdoms = [sample_domain(t, small) for t in ftys]

    def size(ds):
        n = 1
        for d in ds:
            n *= len(d)
        return n
    if size(pdoms) * size(fdoms) > EVAL_MAX:
        fdoms = [sample_domain(t, True) for t in ftys]
    if size(pdoms) * size(fdoms) > EVAL_MAX:
        fdoms = [[d[0], d[-1]] if len(d) > 2 else d for d in fdoms]
    if size(pdoms) * size(fdoms) > EVAL_MAX:
        pdoms = param_domains(ptys, small, max(16, EVAL_MAX // max(1, size(fdoms))))
    return fdoms, pdoms


def compile_num(e):
    """closure (parameter values {name: Fraction}, fluent values {fluent_key: Fraction}) -> Fraction | None: pyden.den on the
    arithmetic fragment without re-reading the s-expression at every grid point (cross-checked against pyden.den per case)"""
    h = e[0]
    if h in ("i", "r"):
        c = Fraction(e[1])
        return lambda P, Fl: c
    if h == "p":
        n = e[1]
        return lambda P, Fl: P.get(n)
    if h == "fl":
        k = fluent_key(e)
        return lambda P, Fl: Fl.get(k)
    fs = [compile_num(a) for a in e[1:]]
    if h == "plus":
        def f(P, Fl):
            t = Fraction(0)
            for g in fs:
                v = g(P, Fl)
                if v is None:
                    return None
                t += v
            return t
    elif h == "times":
        def f(P, Fl):
            t = Fraction(1)
            for g in fs:
                v = g(P, Fl)
                if v is None:
                    return None
                t *= v
            return t
    elif h == "minus" and len(fs) == 2:
        def f(P, Fl):
            a, b = fs[0](P, Fl), fs[1](P, Fl)
            return None if a is None or b is None else a - b
    elif h == "div" and len(fs) == 2:
        def f(P, Fl):
            a, b = fs[0](P, Fl), fs[1](P, Fl)
            return None if a is None or b is None or b == 0 else a / b
    else:
        raise ValueError(f"outside the arithmetic fragment: {h}")
    return f


def fluent_key(s):
    """(ref key, argument values) of a ground fluent application s-expression"""
    return (pyden.key(s[1]), tuple(pyden.den(a, {"par": {}, "fl": {}, "fn": {}, "dom": {}}) for a in s[2:]))


def ground_fluents(s, acc):
    if isinstance(s, list) and s:
        if s[0] == "fl":
            k = fluent_key(s)
            if k not in [x[0] for x in acc]:
                acc.append((k, s[1][1]))
        elif s[0] not in ("p", "i", "r", "o"):
            for x in s[1:]:
                ground_fluents(x, acc)
    return acc


def fixed_statics(payload):
    """{fluent key: value} for the static fluents of the problem that have an initial value"""
    prob = payload[3]
    out = {}
    if prob == "none":
        return out
    explicit = {sexp.dumps(fe): v for fe, v in prob[2][1:]}
    for ref, default, flag in prob[1][1:]:
        if flag != "static":
            continue
        for inst in ground_instances(ref):
            v = explicit.get(sexp.dumps(inst), default)
            if v != "_":
                out[fluent_key(inst)] = ("n", Fraction(v[1]))
    return out


def contains_fluent(e):
    if e.is_fluent_exp():
        return True
    return any(contains_fluent(a) for a in e.args)


def syntactic_clause(e):
    """a product with two fluent-dependent factors / a quotient with a fluent-dependent divisor, anywhere in the FNode"""
    if e.is_times() and sum(1 for a in e.args if contains_fluent(a)) >= 2:
        return "product with two fluent-dependent factors"
    if e.is_div() and contains_fluent(e.arg(1)):
        return "quotient with a fluent-dependent divisor"
    for a in e.args:
        r = syntactic_clause(a)
        if r:
            return r
    return None


def oracle(payload):
    try:
        ctx, problem, expr = build(payload)
    except Exception as ex:   # noqa
        return f"a well-typed arithmetic expression could not be built ({type(ex).__name__}: {str(ex)[:80]})"
    e = payload[4]
    r = run(ctx, problem, expr)
    if r[0] == "err":
        if r[1].startswith("simp:"):
            return None          # the simplifier's own failures (constant division by zero) are C11's subject
        return f"get_fluents raised ({r[1]})"
    _, lin, pos, neg = r
    if not lin:
        return None
    # clause 2, syntactic reading, on the expression the analysis inspects
    try:
        simp = Simplifier(ctx.env, problem).simplify(expr)
    except Exception:   # noqa
        simp = None
    if simp is not None:
        bad = syntactic_clause(simp)
        if bad:
            return f"reported linear although the simplified expression contains a {bad}"
    pos_k = set(fluent_key(enc_expr(f)) for f in pos)
    neg_k = set(fluent_key(enc_expr(f)) for f in neg)
    fixed = fixed_statics(payload)
    fls = [(k, ty) for k, ty in ground_fluents(e, []) if k not in fixed]
    pars = upx.free_names(e)["p"]
    fdoms, pdoms = evaluation_grid([ty for _, ty in fls], [p[2] for p in pars])
    ev = compile_num(e)
    fl_env = {k: v[1] for k, v in fixed.items()}
    names = [p[1] for p in pars]
    fidx = list(product(*[range(len(d)) for d in fdoms]))
    checked = False
    for pv in product(*pdoms):
        P = dict(zip(names, pv))
        table = {}
        for fv in fidx:
            for (k, _), d, i in zip(fls, fdoms, fv):
                fl_env[k] = d[i]
            table[fv] = ev(P, fl_env)
        if not checked:      # the compiled evaluator is only a faster pyden.den: same value on the first grid point
            checked = True
            I = {"fl": {k: ("n", v) for k, v in fl_env.items()}, "fn": {}, "par": {n: ("n", x) for n, x in P.items()}, "dom": {}}
            v = pyden.den(e, I)
            if (None if v is None else v[1]) != table[fidx[-1]]:
                return "oracle self-check failed: compiled evaluator and pyden.den differ"
        for ax, ((k, _), d) in enumerate(zip(fls, fdoms)):
            only_pos = k in pos_k and k not in neg_k
            only_neg = k in neg_k and k not in pos_k
            slope = None
            for fv in fidx:
                if fv[ax] + 1 >= len(d):
                    continue
                val = table[fv]
                val2 = table[fv[:ax] + (fv[ax] + 1,) + fv[ax + 1:]]
                if val is None or val2 is None:
                    continue

                def where():
                    return (f"fluent {k[0]}{[str(a[1]) for a in k[1]]} {d[fv[ax]]}->{d[fv[ax] + 1]}, parameters "
                            f"{dict((n, str(x)) for n, x in zip(names, pv))}")
                # clause 1: monotonicity in a fluent reported only positively / only negatively
                if only_pos and val2 < val:
                    return f"reported only among the positive fluents but the value decreases: {where()}: {val}->{val2}"
                if only_neg and val2 > val:
                    return f"reported only among the negative fluents but the value increases: {where()}: {val}->{val2}"
                # clause 2, semantic reading: constant finite differences
                sl = (val2 - val) / (d[fv[ax] + 1] - d[fv[ax]])
                if slope is None:
                    slope = sl
                elif sl != slope:
                    return f"reported linear but not affine in the fluents: {where()}: slope {sl} vs {slope}"
    return None


def shrink(payload):
    head, types, objects, prob, e = payload

    def subs(s):
        if not isinstance(s, list) or not s or s[0] in ("i", "r", "o", "p", "fl"):
            return
        for x in s[1:]:
            yield x
        if s[0] in ("plus", "times") and len(s) > 3:
            for i in range(1, len(s)):
                yield s[:i] + s[i + 1:]
        for i in range(1, len(s)):
            for y in subs(s[i]):
                yield s[:i] + [y] + s[i + 1:]
    if prob != "none":
        yield [head, types, objects, "none", e]
    for y in subs(e):
        yield [head, types, objects, prob, y]


MANIFEST = {
    "level_text": ("Lean 4 theorems (Props/C17.lean) about an executable model of LinearChecker.get_fluents "
                   "(Core/Walkers/Linear.lean: one function per walk_* method and _sign, after the C11 model of the simplifier, signs "
                   "read off the C15 model of the type checker), stated against the shared reference denotation `den` over exact "
                   "rationals, for ALL arithmetic expressions, problems (static-fluent tables) and interpretations within the declared "
                   "types: if the analysis reports 'linear' and a ground fluent only among the positive (negative) fluents, the value is "
                   "non-decreasing (non-increasing) in that fluent, and independent of a fluent reported in neither set; an expression "
                   "whose simplified form contains a product with two fluent-dependent factors or a quotient with a fluent-dependent "
                   "divisor is never reported linear. Props/C17Sign.lean: the sign the analysis reads off the inferred interval of a "
                   "fluent-free factor / divisor (computed by the model itself from the C15 model of the type checker, nothing "
                   "supplied by the real run) is the sign of every value within the declared types, for every expression. The "
                   "model is tied to the real code by a differential check on (is_linear, "
                   "sorted positive set, sorted negative set), and the property itself (monotonicity and affineness by exhaustive "
                   "exact evaluation over small domains of the leaves) is evaluated on the real code for every case."),
    "level_note": ("Trusted: Lean kernel; axioms propext, Classical.choice, Quot.sound; Driver.lean + harness (generator, "
                   "canonicalisation, pyden). Modelled not verified: CPython int/Fraction, set semantics. The code violates the "
                   "property on the unchanged tree (D-C17: walk_div ignores the sign of a non-constant divisor): repaired by "
                   "notes/patches/C17-linear-checker-divisor-sign.patch, which the model mirrors. Domain restriction: no interpreted "
                   "functions / Boolean sub-expressions; fluent arguments are constants."),
    "technique": "Lean 4 proof over an executable model + model/code correspondence",
    "design_ref": "DESIGN.md §5 C17",
}
