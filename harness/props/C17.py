"""C17 — Linearity and monotonicity analysis is sound (LinearChecker.get_fluents)."""
import hashlib
import signal
import warnings
from fractions import Fraction
from itertools import product

warnings.simplefilter("ignore")
from unified_planning.model import InstantaneousAction, Problem
from unified_planning.model.walkers.linear_checker import LinearChecker
from unified_planning.model.walkers.simplifier import Simplifier

import pyden
import sexp
import upx
from upx import Ctx, enc_expr, q2s

ID = "C17"
GEN = []
CORR_NAME = "get_fluents-output"
RULE = ("one case = (objects t1,t2 of a user type T, optional problem = fluents with default / static-or-dynamic flag + explicit "
        "initial values, numeric expression). Expressions: + (2-3 args) - * (2-3 args) / over integer and rational constants of "
        "any magnitude (0, +-1, small, 2**53+1, 10**30, 10**400, n/d), int and real fluents with unbounded / bounded-positive / "
        "bounded-negative / zero-straddling / half-bounded types (nullary and with an object argument) and parameters of the same "
        "kinds of type; up to 5 leaves (quick) / 7 leaves (thorough); ~30% planted shapes around sign tracking: division by a "
        "negative / straddling / positive parameter or by an arithmetic combination of parameters, (p*x)/p, products with several "
        "negative factors, nested subtraction, x - (-c), 0*x*y, division by 1/p, fluent-dependent divisors, products of two "
        "fluent-dependent factors hidden under + and -. With a problem, static fluents with constant arguments are replaced by their "
        "initial values before the analysis. Non-trivial = the expression contains - * or / and the answer either reports a "
        "fluent or is 'not linear'.")
ASSUMPTIONS = ["domain (DESIGN 2.11): expressions over + - * /, numeric constants, numeric fluents and numeric parameters; no interpreted "
               "functions, no Boolean sub-expressions (walk_default is transparent for them)",
               "a 'fluent' of the property is a ground fluent: fluent applications take constant (object) arguments; two reported "
               "expressions are the same fluent iff they denote the same (fluent, argument values)",
               "with a problem, static fluents that have an initial value are constants of the problem (the analysis replaces them "
               "by that value): they keep that value in every interpretation; all other fluents and the parameters range over "
               "their declared types",
               "monotonicity is demanded between interpretations on which the expression has a value (a divisor evaluating to 0 "
               "gives none)",
               "the product / quotient clause is read on the expression the analysis inspects, i.e. after the library's own "
               "simplification (constant folding: `0*x*y` is the constant 0), and semantically as: a reported-linear expression "
               "is an affine function of the fluent values for every value of the parameters (constant finite differences)",
               "no claim is made for a fluent reported in both sets or in none",
               "expressions are well-typed (built through the ExpressionManager); a generated case on which the simplifier itself "
               "raises (a constant divided by the constant zero) is kept: both sides answer an error tag; a case on which the TYPE "
               "CHECKER raises while the simplifier rebuilds a node (a non-constant numerator of bounded type over a divisor "
               "that simplified to the constant 0, e.g. through a static fluent whose initial value is 0) is skipped, as in C11: "
               "the simplifier model does not re-type-check rebuilt nodes"]
MODELLED = ["modelled by hand (tied by correspondence): LinearChecker.walk_* and _sign; reused models: Simplifier (C11), "
            "TypeChecker.get_type (C15); Python sets of FNodes as duplicate-free lists (compared sorted); Problem.get_static_fluents/"
            "initial_value as tables"]
BUDGET_S = {"quick": 50, "thorough": 420}

TYPES = [["T", "_"]]
OBJECTS = [["t1", "T"], ["t2", "T"]]
U = lambda n: ["user", n]
INT, REAL = ["int", "_", "_"], ["real", "_", "_"]

FLUENTS = [
    ["x", INT, []], ["y", ["int", "0", "10"], []], ["w", ["int", "-5", "-1"], []], ["v", ["int", "-3", "4"], []],
    ["u", ["int", "2", "_"], []], ["z", REAL, []], ["zb", ["real", "0", "7/2"], []], ["zn", ["real", "-7/2", "-1/2"], []],
    ["xq", ["int", "-5", "5"], [U("T")]], ["c", ["int", "1", "3"], [U("T")]], ["k", ["int", "-4", "-2"], []],
]
PARAMS = [
    ["p", "pi", ["int", "-5", "-1"]], ["p", "pj", INT], ["p", "pk", ["int", "1", "5"]], ["p", "pm", ["int", "-3", "4"]],
    ["p", "ph", ["int", "2", "_"]], ["p", "pl", ["int", "_", "-2"]], ["p", "pz", ["int", "0", "5"]], ["p", "pr", REAL],
    ["p", "pn", ["real", "-7/2", "-1/2"]], ["p", "pp", ["real", "1/2", "9/2"]], ["p", "pq", ["real", "-1", "1"]],
]
F = {f[0]: f for f in FLUENTS}
P = {p[1]: p for p in PARAMS}


def fl(name, *args):
    return ["fl", F[name]] + [["o", a, "T"] for a in args]


# ---------------------------------------------------------------------------------------------------
# generator
# ---------------------------------------------------------------------------------------------------

def const(rng):
    k = rng.random()
    if k < 0.12:
        return ["i", str(rng.choice(upx.BIG) * rng.choice([1, -1]))]
    if k < 0.22:
        return ["r", q2s(Fraction(rng.choice([1, -1, 3, -7, 2 ** 53 + 1, -10 ** 30]), rng.choice([2, 3, 4, 10 ** 20 + 1])))]
    return ["i", str(rng.choice([0, 1, -1, 2, -2, 3, -3, 5, -4, 7, 12]))]


def fluent_leaf(rng):
    f = rng.choice(FLUENTS)
    return ["fl", f] + [["o", rng.choice(["t1", "t2"]), "T"] for _ in f[2]]


def leaf(rng):
    k = rng.random()
    if k < 0.45:
        return fluent_leaf(rng)
    if k < 0.75:
        return list(rng.choice(PARAMS))
    return const(rng)


def gen(rng, leaves):
    """numeric expression with exactly `leaves` leaves"""
    if leaves <= 1:
        return leaf(rng)
    k = rng.random()
    if k < 0.28:
        op, n = "plus", rng.choice([2, 2, 3])
    elif k < 0.45:
        op, n = "minus", 2
    elif k < 0.80:
        op, n = "times", rng.choice([2, 2, 3])
    else:
        op, n = "div", 2
    n = min(n, leaves)
    cuts = sorted(rng.sample(range(1, leaves), n - 1))
    sizes = [b - a for a, b in zip([0] + cuts, cuts + [leaves])]
    args = [gen(rng, s) for s in sizes]
    if op == "div" and rng.random() < 0.6:    # mostly fluent-free divisors
        args[1] = rng.choice([const(rng), list(rng.choice(PARAMS)), ["minus", list(rng.choice(PARAMS)), const(rng)],
                              ["times", list(rng.choice(PARAMS)), list(rng.choice(PARAMS))]])
        if args[1][0] in ("i", "r") and Fraction(args[1][1]) == 0:
            args[1] = ["i", "-3"]
    return [op] + args


def planted(rng):
    """shapes around the sign tracking of walk_times / walk_div / walk_minus (D-C17 and its neighbours)"""
    X = rng.choice([fl("x"), fl("z"), fl("y"), fl("xq", "t1"), fl("w"), ["minus", fl("x"), fl("y")],
                    ["plus", fl("z"), fl("xq", "t2")], ["times", ["i", "-2"], fl("x")]])
    Y = rng.choice([fl("y"), fl("z"), fl("v"), fl("xq", "t2"), fl("c", "t1")])
    p = list(rng.choice(PARAMS))
    q = list(rng.choice(PARAMS))
    c = const(rng)
    nz = c if Fraction(c[1]) != 0 else ["i", "-2"]
    shapes = [
        lambda: ["div", X, p],                                          # D-C17: sign of a non-constant divisor
        lambda: ["div", ["times", p, X], p],
        lambda: ["div", X, ["minus", p, nz]],
        lambda: ["div", X, ["times", p, q]],
        lambda: ["div", X, ["div", ["i", "1"], p]],
        lambda: ["div", X, nz],
        lambda: ["div", nz, p],
        lambda: ["div", ["minus", X, Y], ["times", p, nz]],
        lambda: ["times", X, p, q],
        lambda: ["times", p, ["times", q, X]],
        lambda: ["times", nz, X, ["i", "-3"]],
        lambda: ["times", X, ["minus", p, q]],
        lambda: ["times", X, ["plus", p, c]],
        lambda: ["minus", X, ["minus", Y, ["times", p, X]]],
        lambda: ["minus", ["i", "0"], ["minus", ["i", "0"], X]],
        lambda: ["minus", X, ["i", "-3"]],
        lambda: ["times", ["i", "0"], X, Y],
        lambda: ["plus", X, ["times", ["i", "0"], Y]],
        lambda: ["div", X, Y],                                          # fluent-dependent divisor
        lambda: ["div", p, ["plus", Y, ["i", "20"]]],
        lambda: ["times", X, Y],                                        # two fluent-dependent factors
        lambda: ["times", ["plus", X, p], ["minus", q, Y]],
        lambda: ["plus", ["times", X, ["minus", Y, Y]], p],
        lambda: ["minus", ["times", p, X], ["div", Y, q]],
        lambda: ["times", X, ["fl", F["k"]]],                           # (possibly static) fluent as a factor
        lambda: ["div", X, ["fl", F["k"]]],
        lambda: ["div", X, ["fl", F["c"], ["o", "t1", "T"]]],
        lambda: ["times", ["fl", F["c"], ["o", "t2", "T"]], X, p],
    ]
    return rng.choice(shapes)()


def rand_const(rng, ty):
    if ty[0] == "int":
        lo = int(ty[1]) if ty[1] != "_" else (int(ty[2]) - 6 if ty[2] != "_" else -3)
        hi = int(ty[2]) if ty[2] != "_" else lo + 6
        return ["i", str(rng.randint(lo, hi))]
    lo = Fraction(ty[1]) if ty[1] != "_" else Fraction(-3)
    hi = Fraction(ty[2]) if ty[2] != "_" else lo + 6
    q = lo + (hi - lo) * Fraction(rng.randint(0, 4), 4)
    return ["i", str(q.numerator)] if (q.denominator == 1 and rng.random() < 0.3) else ["r", q2s(q)]


def ground_instances(ref):
    doms = [[["o", n, t] for n, t in OBJECTS if t == s[1]] for s in ref[2]]
    for args in product(*doms):
        yield ["fl", ref] + list(args)


def make_problem(rng, expr):
    names = upx.free_names(expr)
    fls, init = [], []
    for ref in names["fl"]:
        static = rng.random() < 0.5
        default = rand_const(rng, ref[1]) if rng.random() < 0.5 else "_"
        fls.append([ref, default, "static" if static else "dynamic"])
        for inst in ground_instances(ref):
            if rng.random() < 0.5:
                init.append([inst, rand_const(rng, ref[1])])
    return ["problem", ["fluents"] + fls, ["init"] + init]


def cases(rng, tier):
    n = 700 if tier == "quick" else 16000
    maxleaves = 5 if tier == "quick" else 7
    for _ in range(n):
        if rng.random() < 0.3:
            e = planted(rng)
            if rng.random() < 0.3:
                e = [rng.choice(["plus", "minus"]), e, gen(rng, rng.choice([1, 2]))]
        else:
            e = gen(rng, rng.randint(1, maxleaves))
        prob = make_problem(rng, e) if rng.random() < 0.4 else "none"
        payload = ["lin", ["types"] + TYPES, ["objects"] + OBJECTS, prob, e]
        if usable(payload):
            yield payload


def usable(payload):
    """the constructors accept the expression, and the TYPE CHECKER does not raise while the simplifier rebuilds nodes
    (ZeroDivisionError: `e / c` whose divisor simplified to the constant 0 under a numerator of bounded type — whether
    such a node can be built is decided by the type checker's interval arithmetic, C15; the C11 model of the simplifier
    does not re-type-check rebuilt nodes, same exclusion as in props/C11.py)"""
    try:
        ctx, problem, expr = build(payload)
    except Exception:   # noqa
        return False
    r = run(ctx, problem, expr)
    return not (r[0] == "err" and r[1].startswith("typecheck:"))


# ---------------------------------------------------------------------------------------------------
# real code
# ---------------------------------------------------------------------------------------------------

class _Timeout(Exception):
    pass


def _alarm(signum, frame):
    raise _Timeout()


def build(payload):
    """fresh environment, objects, problem (or None), the real FNode"""
    _, types, objects, prob, e = payload
    ctx = Ctx([(t[0], None if t[1] == "_" else t[1]) for t in types[1:]])
    for n, t in objects[1:]:
        ctx.obj(n, t)
    expr = ctx.expr(e)
    problem = None
    if prob != "none":
        problem = Problem("p", ctx.env)
        for n, t in objects[1:]:
            problem.add_object(ctx.obj(n, t))
        for ref, default, flag in prob[1][1:]:
            f = ctx.fluent(ref)
            if default == "_":
                problem.add_fluent(f)
            else:
                problem.add_fluent(f, default_initial_value=ctx.expr(default))
            if flag == "dynamic":
                a = InstantaneousAction("set_" + ref[0] + str(len(problem.actions)), _env=ctx.env,
                                        **{f"a{i}": ctx.ty(t) for i, t in enumerate(ref[2])}, **{"w": ctx.ty(ref[1])})
                a.add_effect(f(*[a.parameter(f"a{i}") for i in range(len(ref[2]))]), a.parameter("w"))
                problem.add_action(a)
        for fe, v in prob[2][1:]:
            problem.set_initial_value(ctx.expr(fe), ctx.expr(v))
    return ctx, problem, expr


def run(ctx, problem, expr):
    """-> ("ok", is_linear, pos, neg) | ("err", tag)"""
    old = signal.signal(signal.SIGALRM, _alarm)
    signal.alarm(20)
    try:
        lin, pos, neg = LinearChecker(problem, ctx.env).get_fluents(expr)
        return ("ok", bool(lin), set(pos), set(neg))
    except _Timeout:
        return ("err", "timeout")
    except (ZeroDivisionError, AssertionError, OverflowError) as ex:
        import traceback
        tb = traceback.extract_tb(ex.__traceback__)
        files = [fr.filename.rsplit("/", 1)[-1] for fr in tb]
        if "simplifier.py" in files:
            if "type_checker.py" in files:
                # the TYPE CHECKER refused a node the simplifier rebuilt (`e / c` whose divisor simplified to the
                # constant 0 under a numerator of bounded type): interval arithmetic is C15's model, see usable()
                return ("err", "typecheck:" + type(ex).__name__)
            return ("err", "simp:zero-div" if isinstance(ex, ZeroDivisionError) or "walk_div" in [fr.name for fr in tb]
                    else "simp:assertion")
        return ("err", "type" if "type_checker.py" in files else "arity")
    except Exception as ex:   # noqa
        return ("err", "other:" + type(ex).__name__)
    finally:
        signal.alarm(0)
        signal.signal(signal.SIGALRM, old)


def _sorted(es):
    return sorted(es, key=sexp.dumps)


def impl(payload):
    ctx, problem, expr = build(payload)
    r = run(ctx, problem, expr)
    if r[0] == "err":
        return ["err", r[1]]
    return ["ok", sexp.B(r[1]), _sorted([enc_expr(f) for f in r[2]]), _sorted([enc_expr(f) for f in r[3]])]


def canon(a):
    if isinstance(a, list) and len(a) == 4 and a[0] == "ok":
        return ["ok", a[1], _sorted(a[2]), _sorted(a[3])]
    return a


def compare(model_ans, impl_ans):
    return canon(model_ans) == canon(impl_ans)


def _heads(s, acc):
    if isinstance(s, list) and s and isinstance(s[0], str):
        if s[0] in ("fl", "p", "i", "r", "o"):
            acc.add(s[0])
            return
        acc.add(s[0])
        for x in s[1:]:
            _heads(x, acc)


def nontrivial(payload, ans):
    hs = set()
    _heads(payload[4], hs)
    if ans[0] != "ok" or not (hs & {"minus", "times", "div"}):
        return False
    return ans[1] == "F" or bool(ans[2]) or bool(ans[3])


def _maxabs(s):
    m = 0
    if isinstance(s, list):
        if s and s[0] in ("i", "r") and len(s) == 2 and isinstance(s[1], str):
            q = Fraction(s[1])
            return max(abs(q.numerator), abs(q.denominator))
        for x in s:
            m = max(m, _maxabs(x))
    return m


def stats(payload, ans):
    if ans[0] == "err":
        return ["err:" + ans[1]]
    e = payload[4]
    hs = set()
    _heads(e, hs)
    t = ["linear" if ans[1] == "T" else "not-linear"]
    for h in ("plus", "minus", "times", "div", "p"):
        if h in hs:
            t.append("has:" + h)
    pos, neg = [sexp.dumps(x) for x in ans[2]], [sexp.dumps(x) for x in ans[3]]
    if neg:
        t.append("some-negative-fluent")
    if set(pos) & set(neg):
        t.append("fluent-in-both-sets")
    if set(pos) - set(neg):
        t.append("fluent-only-positive")
    if set(neg) - set(pos):
        t.append("fluent-only-negative")
    if payload[3] != "none":
        t.append("with-problem")
        if any(f[2] == "static" for f in payload[3][1][1:]):
            t.append("static-fluent")
    if _maxabs(e) > 2 ** 53:
        t.append("const>2^53")
    t.append("leaves:%d" % n_leaves(e))
    return t


def n_leaves(s):
    if s[0] in ("fl", "p", "i", "r"):
        return 1
    return sum(n_leaves(x) for x in s[1:])


# ---------------------------------------------------------------------------------------------------
# the property itself, on the real code
# ---------------------------------------------------------------------------------------------------

def sample_domain(ty, small):
    """a few values inside a numeric type: its bounds, values next to them, 0 and values around it when inside"""
    is_int = ty[0] == "int"
    lo = Fraction(ty[1]) if ty[1] != "_" else None
    hi = Fraction(ty[2]) if ty[2] != "_" else None
    if lo is not None and hi is not None:
        cand = [lo, hi, lo + 1, hi - 1, Fraction(0), Fraction(1), Fraction(-1), (lo + hi) / 2]
    elif lo is not None:
        cand = [lo, lo + 1, lo + 3, Fraction(0), Fraction(-1)]
    elif hi is not None:
        cand = [hi, hi - 1, hi - 4, Fraction(0), Fraction(1)]
    else:
        cand = [Fraction(-3), Fraction(-1), Fraction(0), Fraction(2), Fraction(1, 2), Fraction(-5, 2)]
    out = []
    for c in cand:
        if is_int and c.denominator != 1:
            c = Fraction(c.numerator // c.denominator)
        if (lo is None or c >= lo) and (hi is None or c <= hi) and c not in out:
            out.append(c)
    out = sorted(out)
    k = 3 if small else 4
    if len(out) > k:        # keep the extremes and spread the rest
        idx = sorted(set(round(i * (len(out) - 1) / (k - 1)) for i in range(k)))
        out = [out[i] for i in idx]
    return out


def fluent_key(s):
    """(ref key, argument values) of a ground fluent application s-expression"""
    return (pyden.key(s[1]), tuple(pyden.den(a, {"par": {}, "fl": {}, "fn": {}, "dom": {}}) for a in s[2:]))


def ground_fluents(s, acc):
    if isinstance(s, list) and s:
        if s[0] == "fl":
            k = fluent_key(s)
            if k not in [x[0] for x in acc]:
                acc.append((k, s[1][1]))
        elif s[0] not in ("p", "i", "r", "o"):
            for x in s[1:]:
                ground_fluents(x, acc)
    return acc


def fixed_statics(payload):
    """{fluent key: value} for the static fluents of the problem that have an initial value"""
    prob = payload[3]
    out = {}
    if prob == "none":
        return out
    explicit = {sexp.dumps(fe): v for fe, v in prob[2][1:]}
    for ref, default, flag in prob[1][1:]:
        if flag != "static":
            continue
        for inst in ground_instances(ref):
            v = explicit.get(sexp.dumps(inst), default)
            if v != "_":
                out[fluent_key(inst)] = ("n", Fraction(v[1]))
    return out


def contains_fluent(e):
    if e.is_fluent_exp():
        return True
    return any(contains_fluent(a) for a in e.args)


def syntactic_clause(e):
    """a product with two fluent-dependent factors / a quotient with a fluent-dependent divisor, anywhere in the FNode"""
    if e.is_times() and sum(1 for a in e.args if contains_fluent(a)) >= 2:
        return "product with two fluent-dependent factors"
    if e.is_div() and contains_fluent(e.arg(1)):
        return "quotient with a fluent-dependent divisor"
    for a in e.args:
        r = syntactic_clause(a)
        if r:
            return r
    return None


def oracle(payload):
    ctx, problem, expr = build(payload)
    e = payload[4]
    r = run(ctx, problem, expr)
    if r[0] == "err":
        if r[1].startswith("simp:"):
            return None          # the simplifier's own failures (constant division by zero) are C11's subject
        return f"get_fluents raised ({r[1]})"
    _, lin, pos, neg = r
    if not lin:
        return None
    # clause 2, syntactic reading, on the expression the analysis inspects
    try:
        simp = Simplifier(ctx.env, problem).simplify(expr)
    except Exception:   # noqa
        simp = None
    if simp is not None:
        bad = syntactic_clause(simp)
        if bad:
            return f"reported linear although the simplified expression contains a {bad}"
    pos_k = set(fluent_key(enc_expr(f)) for f in pos)
    neg_k = set(fluent_key(enc_expr(f)) for f in neg)
    fixed = fixed_statics(payload)
    fls = [(k, ty) for k, ty in ground_fluents(e, []) if k not in fixed]
    pars = upx.free_names(e)["p"]
    small = len(fls) + len(pars) > 4
    fdoms = [sample_domain(ty, small) for _, ty in fls]
    pdoms = [sample_domain(p[2], small) for p in pars]
    for pv in product(*pdoms):
        I = {"fl": dict(fixed), "fn": {}, "par": {p[1]: ("n", x) for p, x in zip(pars, pv)}, "dom": {}}
        table = {}
        for fv in product(*[range(len(d)) for d in fdoms]):
            for (k, _), d, i in zip(fls, fdoms, fv):
                I["fl"][k] = ("n", d[i])
            v = pyden.den(e, I)
            table[fv] = None if v is None else v[1]
        for ax, ((k, _), d) in enumerate(zip(fls, fdoms)):
            slope = None
            for fv, val in table.items():
                if fv[ax] + 1 >= len(d):
                    continue
                nxt = fv[:ax] + (fv[ax] + 1,) + fv[ax + 1:]
                val2 = table[nxt]
                if val is None or val2 is None:
                    continue
                where = f"fluent {k[0]}{[str(a[1]) for a in k[1]]} {d[fv[ax]]}->{d[fv[ax] + 1]}, parameters {dict((p[1], str(x)) for p, x in zip(pars, pv))}"
                # clause 1: monotonicity in a fluent reported only positively / only negatively
                if k in pos_k and k not in neg_k and val2 < val:
                    return f"reported only among the positive fluents but the value decreases: {where}: {val}->{val2}"
                if k in neg_k and k not in pos_k and val2 > val:
                    return f"reported only among the negative fluents but the value increases: {where}: {val}->{val2}"
                # clause 2, semantic reading: constant finite differences
                s = (val2 - val) / (d[fv[ax] + 1] - d[fv[ax]])
                if slope is None:
                    slope = s
                elif s != slope:
                    return f"reported linear but not affine in the fluents: {where}: slope {s} vs {slope}"
    return None


def shrink(payload):
    head, types, objects, prob, e = payload

    def subs(s):
        if not isinstance(s, list) or not s or s[0] in ("i", "r", "o", "p", "fl"):
            return
        for x in s[1:]:
            yield x
        if s[0] in ("plus", "times") and len(s) > 3:
            for i in range(1, len(s)):
                yield s[:i] + s[i + 1:]
        for i in range(1, len(s)):
            for y in subs(s[i]):
                yield s[:i] + [y] + s[i + 1:]
    if prob != "none":
        yield [head, types, objects, "none", e]
    for y in subs(e):
        yield [head, types, objects, prob, y]


MANIFEST = {
    "level_text": ("Lean 4 theorems (Props/C17.lean) about an executable model of LinearChecker.get_fluents "
                   "(Core/Walkers/Linear.lean: one function per walk_* method and _sign, after the C11 model of the simplifier, signs "
                   "read off the C15 model of the type checker), stated against the shared reference denotation `den` over exact "
                   "rationals, for ALL arithmetic expressions, problems (static-fluent tables) and interpretations within the declared "
                   "types: if the analysis reports 'linear' and a ground fluent only among the positive (negative) fluents, the value is "
                   "non-decreasing (non-increasing) in that fluent, and independent of a fluent reported in neither set; an expression "
                   "whose simplified form contains a product with two fluent-dependent factors or a quotient with a fluent-dependent "
                   "divisor is never reported linear. The model is tied to the real code by a differential check on (is_linear, "
                   "sorted positive set, sorted negative set), and the property itself (monotonicity and affineness by exhaustive "
                   "exact evaluation over small domains of the leaves) is evaluated on the real code for every case."),
    "level_note": ("Trusted: Lean kernel; axioms propext, Classical.choice, Quot.sound; Driver.lean + harness (generator, "
                   "canonicalisation, pyden). Modelled not verified: CPython int/Fraction, set semantics. The code violates the "
                   "property on the unchanged tree (D-C17: walk_div ignores the sign of a non-constant divisor): repaired by "
                   "notes/patches/C17-linear-checker-divisor-sign.patch, which the model mirrors. Domain restriction: no interpreted "
                   "functions / Boolean sub-expressions; fluent arguments are constants."),
    "technique": "Lean 4 proof over an executable model + model/code correspondence",
    "design_ref": "DESIGN.md §5 C17",
}
