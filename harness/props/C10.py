"""C10 — Problem kind reports every feature the problem uses.

Payloads
  (kp <problem> (dactions D*) (processes Pr*) (events Ev*) (teffs ((at ..) eff)*) (tgoals ((iv ..) e)*)
      (xmetrics (makespan) | (toversub (((iv ..) e w)*))*) (flags discrete self-overlapping) (sim (aname fluent-exp*)*)
      (facts (lin e T|F)* (simp e (fluent-exp*))*))
      <problem> is the shared wire format of Core/Problem.lean (harness/upp.py)
      D  ::= (daction name ((p type)*) (dur lo hi) (conds ((iv ..) e)*) (effs ((at ..) eff)*)
                      (ceffs ((iv ..) (ceff increase|decrease fluent value))*) (sim ((at ..) fluent-exp*)*))
      Pr ::= (process name ((p type)*) (pre e*) (ceffs (ceff increase|decrease fluent value)*))
      Ev ::= (event name ((p type)*) (pre e*) (effs eff*))
      (at start|end|gstart|gend delay)      (iv T|F T|F (at ..) (at ..))       -- left-open right-open lower upper
  (hp <kp> (tasks (name ((p type)*))*) (methods M*) (tn (vars (name type)*) (subtasks St*) (constraints e*)))
      hierarchical problem: M ::= (method name ((p type)*) (task tname pname*) (pre e*) (subtasks St*) (constraints e*)),
      St ::= (ident tname e*); a timing expression is (timing "kind|container|delay")
  (cp <kp> (sensing (aname e*)*) (or (e*)*) (oneof (e*)*))
      contingent problem: the sensing actions are among the actions of <kp>, `(aname e*)` lists their observed fluents
  (sp <problem> (xmetrics ..) (flags ..) (vars (name type)*) (conds ((iv ..) e)*) (effs ((at ..) eff)*) (constraints Sc*)
      (activities A*) (facts ..))
      scheduling problem: Sc ::= (e (scope-e*)),
      A ::= (activity name T|F ((p type)*) (dur lo hi) (conds ((iv ..) e)*) (effs ((at ..) eff)*) (constraints Sc*))
  (map (types ..) (objects (o T)*) (env (ref default|_)*) (agents Ag*) (goals e*))
      multi-agent problem: Ag ::= (agent name (fluents (ref default|_)*) (actions <action>*) (dactions D*) (public e*) (private e*))
  (extern <corpus>:<name>)   a problem outside the wire formats (constructs the formats lack): checked against the oracle only.
`facts` carries what the kind computation asks of walkers that other properties own: LinearChecker.get_fluents(e)[0]
(C17) and the fluents of Simplifier.simplify(e) (C11), both taken from the REAL code for exactly this problem.
"""
import os
import sys
import warnings
from collections import OrderedDict
from fractions import Fraction

warnings.simplefilter("ignore")
sys.path.insert(0, os.path.dirname(os.path.dirname(os.path.abspath(__file__))))

import unified_planning as up
from unified_planning.exceptions import UPProblemDefinitionError
from unified_planning.model import DurativeAction, InstantaneousAction, Problem
from unified_planning.model import metrics as M
from unified_planning.model.effect import EffectKind, SimulatedEffect
from unified_planning.model.natural_transition import Event, Process
from unified_planning.model.operators import OperatorKind as OK
from unified_planning.model.timing import (ClosedTimeInterval, GlobalEndTiming, GlobalStartTiming, EndTiming,
                                           StartTiming, TimeInterval, Timing, TimepointKind)

import sexp
import upp
import upx
from upx import enc_expr, enc_ty, q2s

ID = "C10"
GEN = ["Features"]
EXTRA_PROPS = ["UPVerif.Props.C10Ext"]
CORR_NAME = "kindOf-vs-problem.kind"
RULE = ("problems over a small typed signature (types T>S,U; Boolean/int/real/object fluents, some with parameters of user, "
        "bool and bounded-int type) built from 'plain' material (positive atoms, numeric comparisons, constant assignments) "
        "into which 1-3 feature-bearing constructs are PLANTED at a random position: a not/or/implies/equals/exists/forall "
        "inside an instantaneous or durative (start/over-all/intermediate/external) condition, an effect condition (plain, "
        "forall, durative, event, timed), a goal, timed goal, trajectory constraint, (temporal) oversubscription goal, "
        "process or event precondition; conditional/forall/increase/decrease/continuous effects in every effect position; "
        "fluent-dependent assignments and durations with static and non-static fluents; undefined / partially defined "
        "initial values; every metric kind; bounded types; parameter types. The same material is wrapped into problems of "
        "the four subclasses with features planted in the positions only they have: HIERARCHICAL (an operator only in a "
        "method precondition, in a static constraint of a method or of the initial task network, or inside a constraint that "
        "also mentions time points; a user type only on a task parameter / method parameter / task-network variable; a numeric "
        "fluent read only by a subtask argument and an action cost or duration; total / partial / temporal orderings incl. "
        "redundant precedences, delays, non-precedence comparisons and disjunctions), CONTINGENT (sensing actions with observed "
        "fluents, or / oneof / unknown initial constraints; a numeric fluent read only there and in a cost or duration), "
        "SCHEDULING (activities with parameters, fluent-dependent durations, resource use, timed conditions and effects at "
        "start / end / intermediate / external times, scoped constraints; base-chronicle variables, conditions, effects and "
        "constraints; an operator only in a scope expression, a bounded type only in a resource, a subtype only on a variable, "
        "a static fluent only in a duration or an increase) and MULTI-AGENT (environment and agent fluents, instantaneous and "
        "durative actions, Dot expressions, an operator only in an agent's public / private goal). Plus the bundled example "
        "problems of all five classes that fit the wire formats (others are sent as `extern`, oracle only). Non-trivial = "
        "the real kind contains at least one feature named in the property statement beyond fluent/typing features, or the "
        "case is an extern problem.")
ASSUMPTIONS = [
    "`uses typing` = a user type is the type of an object, a fluent, a fluent parameter, an action/process/event/activity "
    "parameter, a forall-effect variable, a task or method parameter, a task-network variable or a variable of the base "
    "chronicle of a scheduling problem; a type that occurs only as the type of a quantified variable inside an expression is "
    "not counted (the code does not count those either)",
    "hierarchical problems: method preconditions and ALL constraints of methods and of the initial task network (also those "
    "that mention time points) are condition positions; subtask arguments are read positions; parameter KINDS "
    "(BOOL/INT/REAL_ACTION_PARAMETERS) are demanded of actions only, not of tasks, methods or task-network variables",
    "contingent problems: a sensing action is an instantaneous action; observed fluents and the expressions of or / oneof "
    "initial constraints are read positions, not condition positions",
    "scheduling problems: an activity is read as a durative action, the timed conditions / effects of the base chronicle as "
    "timed goals / timed effects, constraints and their scope expressions as condition positions; the variables of the base "
    "chronicle are parameters like the activities' own (the code already counts those)",
    "multi-agent problems: environment and agent fluents, all agents' actions, agents' goals and shared goals are read as one "
    "planning problem; a fluent is non-static when some agent's effect targets a fluent of that name; undefined initial values "
    "are not checked for multi-agent problems (initial values are kept per agent through Dot expressions)",
    "`disjunctive condition` = an `or` or `implies` node (not `iff`), as in the feature's documentation",
    "INT_FLUENTS/REAL_FLUENTS are demanded for a declared numeric fluent that is read in a condition/effect/goal/metric "
    "position or not read at all; a numeric fluent whose only uses are inside durations or action costs is covered by the "
    "duration / action-cost features (documented in update_problem_kind_fluent)",
    "`fluent-dependent assignment` = an assign/increase/decrease effect whose value mentions a fluent; the rate expression of a "
    "continuous effect is not an assignment (NON_LINEAR_CONTINUOUS_EFFECTS covers that case)",
    "continuous effects are unconditional and forall-free (enforced by Process/DurativeAction.add_*_continuous_effect); events "
    "carry no simulated effect",
    "an `Always` at top level of a trajectory constraint is a state invariant; any other trajectory constraint (including a "
    "conjunction of `Always`) counts as TRAJECTORY_CONSTRAINTS, as in Problem._kind_factory",
    "undefined initial value = a fluent without default whose number of explicit initial values differs from the number of its "
    "ground instances (InitialStateMixin keeps one entry per ground instance)",
    "SIMPLE/GENERAL_NUMERIC_PLANNING depend on LinearChecker and Simplifier (C17, C11): their answers are part of the case",
    "openness of duration / time intervals and the grouping of timed conditions/effects by interval are not represented "
    "(not observed by the kind computation)",
]
MODELLED = ["modelled by hand (tied by correspondence): _KindFactory (all update_* methods, finalize), "
            "Problem._kind_factory, Problem._get_static_and_unused_fluents, InitialStateMixin._fluents_with_undefined_values, "
            "domain_size, OperatorsExtractor, FreeVarsExtractor, the int/real/bool/user class computed by the TypeChecker",
            "modelled by hand (tied by correspondence): HierarchicalProblem.kind and _get_static_and_unused_fluents, "
            "AbstractTaskNetwork.temporal/non_temporal_constraints, total_order / partial_order, htn.ordering.ordering and "
            "_build_total_order, AnyChecker; ContingentProblem.kind and _get_static_and_unused_fluents, the SensingAction branches "
            "of the factory; SchedulingProblem.kind and _get_static_and_unused_fluents, all_conditions, all_effects; "
            "MultiAgentProblem.kind and its _update_* helpers",
            "taken from the real code per case (not modelled): LinearChecker.get_fluents(e)[0], fluents of Simplifier.simplify(e)",
            "harness only: the encoding of TIMING_EXP payloads as `kind|container|delay` strings; time points of scheduling "
            "conditions / effects are sent without their container (never read by the kind computation)"]
BUDGET_S = {"quick": 60, "thorough": 600}

# ================================================================================================
# 1. The property itself: a syntactic feature extractor written from the property text
#    (mirrors lean/UPVerif/Spec/Uses.lean, NOT _KindFactory).  Works on real problem objects.
# ================================================================================================


def _nodes(e):
    """all nodes of an expression by a plain tree walk (independent of the library's walkers)"""
    stack, seen = [e], set()
    while stack:
        x = stack.pop()
        if x in seen:
            continue
        seen.add(x)
        yield x
        stack.extend(x.args)


def _has_op(e, kinds):
    return any(n.node_type in kinds for n in _nodes(e))


def _fluents_of(e):
    return [n.fluent() for n in _nodes(e) if n.node_type == OK.FLUENT_EXP]


class Positions:
    """positional view of a problem: where conditions, effects, durations, parameters … sit"""

    def __init__(self, pb):
        self.pb = pb
        self.conditions, self.effects, self.durations, self.params = [], [], [], []
        self.costs, self.final_exprs, self.sim_written, self.metrics, self.traj = [], [], [], [], []
        self.has_sim = self.timed_effects = self.timed_goals = False
        self.fluents, self.objects = [], []
        # positions of the problem subclasses: expressions that are read without being conditions (subtask arguments, observed
        # fluents, oneof/or initial constraints) and types attached to something that is not an action parameter (parameters of
        # tasks and methods, variables of the initial task network)
        self.extra_reads, self.type_uses = [], []
        self._collect()

    def _action(self, a, w):
        for p in a.parameters:
            self.params.append((f"{w} parameter {p.name}", p))
        if isinstance(a, InstantaneousAction):
            for c in a.preconditions:
                self.conditions.append((f"{w} precondition", c))
            for e in a.effects:
                self.effects.append((f"{w} effect", e))
            if a.simulated_effect is not None:
                self.has_sim = True
                self.sim_written += [f.fluent() for f in a.simulated_effect.fluents]
            for of in getattr(a, "observed_fluents", []):
                self.extra_reads.append((f"{w} observed fluent", of))
        elif isinstance(a, DurativeAction):
            self.durations.append((f"{w} duration", a.duration.lower, a.duration.upper))
            for iv, cl in a.conditions.items():
                for c in cl:
                    self.conditions.append((f"{w} condition at {iv}", c))
            for t, el in a.effects.items():
                for e in el:
                    self.effects.append((f"{w} effect at {t}", e))
            for iv, el in a.continuous_effects.items():
                for e in el:
                    self.effects.append((f"{w} continuous effect at {iv}", e))
            for se in a.simulated_effects.values():
                self.has_sim = True
                self.sim_written += [f.fluent() for f in se.fluents]

    def _metrics(self, pb):
        for m in pb.quality_metrics:
            if isinstance(m, (M.MinimizeExpressionOnFinalState, M.MaximizeExpressionOnFinalState)):
                self.metrics.append("FINAL_VALUE")
                self.final_exprs.append(m.expression)
            elif isinstance(m, M.MinimizeActionCosts):
                self.metrics.append("ACTIONS_COST")
                self.costs += list(m.costs.values()) + ([m.default] if m.default is not None else [])
            elif isinstance(m, M.MinimizeMakespan):
                self.metrics.append("MAKESPAN")
            elif isinstance(m, M.MinimizeSequentialPlanLength):
                self.metrics.append("PLAN_LENGTH")
            elif isinstance(m, M.Oversubscription):
                self.metrics.append("OVERSUBSCRIPTION")
                for g in m.goals:
                    self.conditions.append(("oversubscription goal", g))
            elif isinstance(m, M.TemporalOversubscription):
                self.metrics.append("TEMPORAL_OVERSUBSCRIPTION")
                for (_, g) in m.goals:
                    self.conditions.append(("temporal oversubscription goal", g))

    def _collect(self):
        pb = self.pb
        from unified_planning.model.htn import HierarchicalProblem
        from unified_planning.model.multi_agent import MultiAgentProblem
        from unified_planning.model.scheduling import SchedulingProblem
        self.objects = list(pb.all_objects)
        if isinstance(pb, MultiAgentProblem):
            self.fluents = list(pb.ma_environment.fluents)
            for ag in pb.agents:
                self.fluents += list(ag.fluents)
                for a in ag.actions:
                    self._action(a, f"agent {ag.name} action {a.name}")
                for g in list(ag.public_goals) + list(ag.private_goals):
                    self.conditions.append((f"agent {ag.name} goal", g))
            for g in pb.goals:
                self.conditions.append(("goal", g))
            return
        self.fluents = list(pb.fluents)
        self._metrics(pb)
        if isinstance(pb, SchedulingProblem):
            for (_, c, _) in pb.all_conditions():
                self.conditions.append(("scheduling condition", c))
            for c, scope in pb.base_scoped_constraints:
                self.conditions.append(("scheduling constraint", c))
                for sc in scope:
                    self.conditions.append(("scheduling constraint scope", sc))
            for v in pb.base_variables:
                self.params.append((f"scheduling variable {v.name}", v))
            self.timed_effects = len(pb.base_effects) > 0
            self.timed_goals = len(pb.base_conditions) > 0
            for t, e in pb.base_effects:
                self.effects.append((f"base effect at {t}", e))
            for act in pb.activities:
                w = f"activity {act.name}"
                self.durations.append((w + " duration", act.duration.lower, act.duration.upper))
                for p in act.parameters:
                    self.params.append((w + " parameter", p))
                for t, el in act.effects.items():
                    for e in el:
                        self.effects.append((f"{w} effect at {t}", e))
                for c, scope in act.scoped_constraints:
                    self.conditions.append((w + " constraint", c))
                    for sc in scope:
                        self.conditions.append((w + " constraint scope", sc))
            return
        for a in pb.actions:
            self._action(a, f"action {a.name}")
        for pr in pb.processes:
            w = f"process {pr.name}"
            for p in pr.parameters:
                self.params.append((f"{w} parameter {p.name}", p))
            for c in pr.preconditions:
                self.conditions.append((f"{w} precondition", c))
            for e in pr.effects:
                self.effects.append((f"{w} effect", e))
        for ev in pb.events:
            w = f"event {ev.name}"
            for p in ev.parameters:
                self.params.append((f"{w} parameter {p.name}", p))
            for c in ev.preconditions:
                self.conditions.append((f"{w} precondition", c))
            for e in ev.effects:
                self.effects.append((f"{w} effect", e))
        for t, el in pb.timed_effects.items():
            for e in el:
                self.timed_effects = True
                self.effects.append((f"timed effect at {t}", e))
        for iv, gl in pb.timed_goals.items():
            for g in gl:
                self.timed_goals = True
                self.conditions.append((f"timed goal at {iv}", g))
        for g in pb.goals:
            self.conditions.append(("goal", g))
        for tc in pb.trajectory_constraints:
            self.traj.append(tc)
            self.conditions.append(("trajectory constraint", tc))
        if isinstance(pb, HierarchicalProblem):
            for t in pb.tasks:
                for p in t.parameters:
                    self.type_uses.append((f"task {t.name} parameter {p.name}", p.type))
            for m in pb.methods:
                for p in m.parameters:
                    self.type_uses.append((f"method {m.name} parameter {p.name}", p.type))
                for c in m.preconditions:
                    self.conditions.append((f"method {m.name} precondition", c))
                for c in m.constraints:
                    self.conditions.append((f"method {m.name} constraint", c))
                for st in m.subtasks:
                    for a in st.parameters:
                        self.extra_reads.append((f"method {m.name} subtask {st.identifier} argument", a))
            for v in pb.task_network.variables:
                self.type_uses.append((f"task network variable {v.name}", v.type))
            for c in pb.task_network.constraints:
                self.conditions.append(("task network constraint", c))
            for st in pb.task_network.subtasks:
                for a in st.parameters:
                    self.extra_reads.append((f"task network subtask {st.identifier} argument", a))
        from unified_planning.model.contingent import ContingentProblem
        if isinstance(pb, ContingentProblem):
            for cl in list(pb.or_constraints) + list(pb.oneof_constraints):
                for c in cl:
                    self.extra_reads.append(("initial constraint", c))


def used_features(pb):
    """feature -> where it is used, for the features named in the property statement"""
    from unified_planning.model.multi_agent import MultiAgentProblem
    P = Positions(pb)
    out = {}

    def use(f, where):
        out.setdefault(f, where)

    def use_type(t, where):
        if t.is_user_type():
            use("FLAT_TYPING", where)
            if t.father is not None:
                use("HIERARCHICAL_TYPING", where)

    # a fluent is non-static iff it is the target of some effect anywhere (or written by a simulated effect)
    written = set(P.sim_written)
    for _, e in P.effects:
        written.add(e.fluent.fluent() if e.fluent.is_fluent_exp() else e.fluent.arg(0).fluent())
    for w, e in list(P.effects):
        if not e.condition.is_true():
            use("CONDITIONAL_EFFECTS", w)
        P.conditions.append((w + " condition", e.condition))
        if len(e.forall) > 0:
            use("FORALL_EFFECTS", w)
            for v in e.forall:
                use_type(v.type, w + " forall variable")
        k = e.kind
        if k == EffectKind.INCREASE:
            use("INCREASE_EFFECTS", w)
        elif k == EffectKind.DECREASE:
            use("DECREASE_EFFECTS", w)
        elif k == EffectKind.CONTINUOUS_INCREASE:
            use("INCREASE_CONTINUOUS_EFFECTS", w)
        elif k == EffectKind.CONTINUOUS_DECREASE:
            use("DECREASE_CONTINUOUS_EFFECTS", w)
        if k in (EffectKind.ASSIGN, EffectKind.INCREASE, EffectKind.DECREASE):
            vt = e.value.type
            if k != EffectKind.ASSIGN or vt.is_int_type() or vt.is_real_type():
                cls = "NUMERIC"
            elif vt.is_bool_type():
                cls = "BOOLEAN"
            elif vt.is_user_type():
                cls = "OBJECT"
            else:
                cls = None
            if cls:
                for f in _fluents_of(e.value):
                    use(("" if f in written else "STATIC_") + f"FLUENTS_IN_{cls}_ASSIGNMENTS", w + " value")
    for w, c in P.conditions:
        if _has_op(c, {OK.NOT}):
            use("NEGATIVE_CONDITIONS", w)
        if _has_op(c, {OK.OR, OK.IMPLIES}):
            use("DISJUNCTIVE_CONDITIONS", w)
        if _has_op(c, {OK.EQUALS}):
            use("EQUALITIES", w)
        if _has_op(c, {OK.EXISTS}):
            use("EXISTENTIAL_CONDITIONS", w)
        if _has_op(c, {OK.FORALL}):
            use("UNIVERSAL_CONDITIONS", w)
    for w, lo, hi in P.durations:
        for f in _fluents_of(lo) + _fluents_of(hi):
            use("FLUENTS_IN_DURATIONS" if f in written else "STATIC_FLUENTS_IN_DURATIONS", w)
    for w, p in P.params:
        t = p.type
        use_type(t, w)
        if t.is_bool_type():
            use("BOOL_ACTION_PARAMETERS", w)
        elif t.is_real_type():
            use("REAL_ACTION_PARAMETERS", w)
        elif t.is_int_type():
            use("BOUNDED_INT_ACTION_PARAMETERS" if t.lower_bound is not None and t.upper_bound is not None
                else "UNBOUNDED_INT_ACTION_PARAMETERS", w)
    read_elsewhere = set()
    for _, c in P.conditions:
        read_elsewhere.update(_fluents_of(c))
    for _, e in P.effects:
        read_elsewhere.update(_fluents_of(e.fluent) + _fluents_of(e.value))
    for x in P.final_exprs:
        read_elsewhere.update(_fluents_of(x))
    for _, x in P.extra_reads:
        read_elsewhere.update(_fluents_of(x))
    for w, t in P.type_uses:
        use_type(t, w)
    in_dur_or_cost = set()
    for _, lo, hi in P.durations:
        in_dur_or_cost.update(_fluents_of(lo) + _fluents_of(hi))
    for c in P.costs:
        in_dur_or_cost.update(_fluents_of(c))
    for f in P.fluents:
        w = f"fluent {f.name}"
        t = f.type
        use_type(t, w)
        if t.is_int_type() or t.is_real_type():
            if t.lower_bound is not None or t.upper_bound is not None:
                use("BOUNDED_TYPES", w)
            if f in read_elsewhere or f not in in_dur_or_cost:
                use("INT_FLUENTS" if t.is_int_type() else "REAL_FLUENTS", w)
        elif t.is_user_type():
            use("OBJECT_FLUENTS", w)
        for p in f.signature:
            use_type(p.type, w + " parameter")
            if p.type.is_bool_type():
                use("BOOL_FLUENT_PARAMETERS", w)
            elif p.type.is_int_type():
                use("BOUNDED_INT_FLUENT_PARAMETERS", w)
    for o in P.objects:
        use_type(o.type, f"object {o.name}")
    if P.timed_effects:
        use("TIMED_EFFECTS", "timed effects")
    if P.timed_goals:
        use("TIMED_GOALS", "timed goals")
    for tc in P.traj:
        use("STATE_INVARIANTS" if tc.node_type == OK.ALWAYS else "TRAJECTORY_CONSTRAINTS", "trajectory constraint")
    for m in P.metrics:
        use(m, "quality metric")
    if not isinstance(pb, MultiAgentProblem):
        from unified_planning.model.types import domain_size
        counts = {}
        for fe in pb.explicit_initial_values:
            counts[fe.fluent()] = counts.get(fe.fluent(), 0) + 1
        for f in P.fluents:
            if f in pb.fluents_defaults:
                continue
            size = 1
            for p in f.signature:
                size *= domain_size(pb, p.type)
            if counts.get(f, 0) != size:
                use("UNDEFINED_INITIAL_NUMERIC" if (f.type.is_int_type() or f.type.is_real_type())
                    else "UNDEFINED_INITIAL_SYMBOLIC", f"fluent {f.name}")
    return out


def missing_features(pb):
    k = pb.kind
    return {f: w for f, w in used_features(pb).items() if f not in k.features}


# ================================================================================================
# 2. wire format <-> real problems
# ================================================================================================

TP = {"start": TimepointKind.START, "end": TimepointKind.END, "gstart": TimepointKind.GLOBAL_START, "gend": TimepointKind.GLOBAL_END}
TP_INV = {v: k for k, v in TP.items()}


def mk_timing(s):
    return Timing(Fraction(s[2]), up.model.timing.Timepoint(TP[s[1]]))


def enc_timing(t):
    if t.timepoint.container is not None:
        raise NotFit("timepoint container")
    return ["at", TP_INV[t.timepoint.kind], q2s(Fraction(t.delay))]


def mk_interval(s):
    return TimeInterval(mk_timing(s[3]), mk_timing(s[4]), s[1] == "T", s[2] == "T")


def enc_interval(i):
    return ["iv", "T" if i.is_left_open() else "F", "T" if i.is_right_open() else "F", enc_timing(i.lower), enc_timing(i.upper)]


class NotFit(Exception):
    pass


def sec(payload, key):
    for s in payload[2:]:
        if isinstance(s, list) and s and s[0] == key:
            return s[1:]
    return []


def _dummy_sim(problem, state, params):
    raise NotImplementedError


def _add_eff(target, ctx, e, timing=None):
    _, kind, f, v, c, vs = e
    forall = tuple(ctx.var(n, t) for n, t in vs)
    name = {"assign": "add_effect", "increase": "add_increase_effect", "decrease": "add_decrease_effect"}[kind]
    if isinstance(target, Problem) and kind == "assign":
        name = "add_timed_effect"
    fn = getattr(target, name)
    args = (ctx.expr(f), ctx.expr(v), ctx.expr(c))
    if timing is not None:
        fn(timing, *args, forall=forall)
    else:
        fn(*args, forall=forall)


class _AnyTable:
    """table of an interpreted function that answers every argument tuple with a fixed value of the return type
    (the kind computation only needs the Simplifier / LinearChecker to get *some* value when they fold constants)"""

    def __init__(self, name, ctx):
        self.name, self.ctx = name, ctx

    def __contains__(self, key):
        return True

    def __getitem__(self, key):
        rt = next(f for f in self.ctx.funs.values() if f.name == self.name).return_type
        if rt.is_bool_type():
            return True
        if rt.is_int_type() or rt.is_real_type():
            v = rt.lower_bound if rt.lower_bound is not None else (rt.upper_bound if rt.upper_bound is not None else 1)
            return int(v) if rt.is_int_type() else Fraction(v)
        raise KeyError(key)


class _FunTables(dict):
    def __init__(self, ctx):
        super().__init__()
        self.ctx = ctx

    def setdefault(self, name, default=None):
        return _AnyTable(name, self.ctx)


def _mk_daction(d, ctx):
    _, name, params, dur, conds, effs, ceffs, sim = d
    act = DurativeAction(name, OrderedDict((pn, ctx.ty(pt)) for pn, pt in params), ctx.env)
    lo, hi = ctx.expr(dur[1]), ctx.expr(dur[2])
    act.set_closed_duration_interval(lo, hi)
    for iv, c in conds[1:]:
        act.add_condition(mk_interval(iv), ctx.expr(c))
    for t, e in effs[1:]:
        _add_eff(act, ctx, e, mk_timing(t))
    for iv, ce in ceffs[1:]:
        fn = act.add_increase_continuous_effect if ce[1] == "increase" else act.add_decrease_continuous_effect
        fn(mk_interval(iv), ctx.expr(ce[2]), ctx.expr(ce[3]))
    for s in sim[1:]:
        act.set_simulated_effect(mk_timing(s[0]), SimulatedEffect([ctx.expr(f) for f in s[1:]], _dummy_sim))
    return act


def build(payload, with_facts=False):
    """payload -> real problem (raises whatever the library raises on rejected input)"""
    h = payload[0]
    if h == "kp":
        return _build_kp(payload)[0]
    if h == "hp":
        return build_h(payload)
    if h == "cp":
        return build_c(payload)
    if h == "sp":
        return build_s(payload)
    if h == "map":
        return build_m(payload)
    raise ValueError(h)


def _build_kp(payload, env=None):
    """payload (kp …) -> (real Problem, Ctx); in a fresh Environment unless one is given"""
    base = [([x[0]] if (isinstance(x, list) and x and x[0] == "traj") else x) for x in payload[1]]
    ctx = XCtx([(n, None if f == "_" else f) for n, f in upp.get(base, "types")], env=env)
    ctx.fun_tables = _FunTables(ctx)
    P, ctx = upp.build_problem(base, ctx)
    for t in upp.get(payload[1], "traj"):
        e = ctx.expr(t)
        try:
            P.add_trajectory_constraint(e)
        except AssertionError:
            # add_trajectory_constraint stores constraint.simplify(), which may leave the accepted form (e.g. `true`);
            # an already-simplified constraint coming from a real problem is put back as it was stored
            if e.simplify() != e:
                raise
            P._trajectory_constraints.append(e)
    sims = {s[0]: s[1:] for s in sec(payload, "sim")}
    for a in P.actions:
        if a.name in sims:
            a.set_simulated_effect(SimulatedEffect([ctx.expr(f) for f in sims[a.name]], _dummy_sim))
    for d in sec(payload, "dactions"):
        P.add_action(_mk_daction(d, ctx))
    for pr in sec(payload, "processes"):
        _, name, params, pre, ceffs = pr
        proc = Process(name, OrderedDict((pn, ctx.ty(pt)) for pn, pt in params), ctx.env)
        for c in pre[1:]:
            proc.add_precondition(ctx.expr(c))
        for ce in ceffs[1:]:
            fn = proc.add_increase_continuous_effect if ce[1] == "increase" else proc.add_decrease_continuous_effect
            fn(ctx.expr(ce[2]), ctx.expr(ce[3]))
        P.add_process(proc)
    for ev in sec(payload, "events"):
        _, name, params, pre, effs = ev
        evt = Event(name, OrderedDict((pn, ctx.ty(pt)) for pn, pt in params), ctx.env)
        for c in pre[1:]:
            evt.add_precondition(ctx.expr(c))
        for e in effs[1:]:
            _add_eff(evt, ctx, e)
        P.add_event(evt)
    for t, e in sec(payload, "teffs"):
        _add_eff(P, ctx, e, mk_timing(t))
    for iv, g in sec(payload, "tgoals"):
        P.add_timed_goal(mk_interval(iv), ctx.expr(g))
    for m in sec(payload, "xmetrics"):
        if m[0] == "makespan":
            P.add_quality_metric(M.MinimizeMakespan(ctx.env))
        elif m[0] == "toversub":
            P.add_quality_metric(M.TemporalOversubscription({(mk_interval(iv), ctx.expr(g)): Fraction(w) for iv, g, w in m[1]}, ctx.env))
        else:
            raise ValueError(m)
    fl = sec(payload, "flags")
    if fl:
        P.discrete_time = fl[0] == "T"
        P.self_overlapping = fl[1] == "T"
    return P, ctx


def enc_ceff(e):
    if not e.condition.is_true() or e.forall:
        raise NotFit("conditional/forall continuous effect")
    return ["ceff", "increase" if e.kind == EffectKind.CONTINUOUS_INCREASE else "decrease", enc_expr(e.fluent), enc_expr(e.value)]


def enc_eff(e):
    if e.kind not in (EffectKind.ASSIGN, EffectKind.INCREASE, EffectKind.DECREASE):
        raise NotFit("effect kind")
    return upp.enc_effect(e)


def enc(P):
    """real problem -> payload without facts (kp / hp / cp / sp / map by class); raises NotFit/ValueError/KeyError when
    outside the wire formats"""
    from unified_planning.model.contingent import ContingentProblem
    from unified_planning.model.htn import HierarchicalProblem
    from unified_planning.model.multi_agent import MultiAgentProblem
    from unified_planning.model.scheduling import SchedulingProblem
    if type(P) is Problem:
        return _enc_base(P)
    if type(P) is HierarchicalProblem:
        return enc_h(P)
    if type(P) is ContingentProblem:
        return enc_c(P)
    if type(P) is SchedulingProblem:
        return enc_s(P)
    if type(P) is MultiAgentProblem:
        return enc_m(P)
    raise NotFit(type(P).__name__)


def _enc_base(P, extra_types=(), extra_exprs=(), sensing=False):
    """the `Problem` part of a real problem -> (kp …) without facts.  extra_types / extra_exprs: types and expressions of
    a subclass whose user types must be declared too; sensing: SensingActions are encoded as instantaneous actions"""
    from unified_planning.model.contingent import SensingAction
    inst = [a for a in P.actions if isinstance(a, InstantaneousAction)]
    dur = [a for a in P.actions if isinstance(a, DurativeAction)]
    if len(inst) + len(dur) != len(P.actions):
        raise NotFit("action class")
    for a in inst:
        if type(a) is not InstantaneousAction and not (sensing and type(a) is SensingAction):
            raise NotFit("action class")
    # the base problem with instantaneous actions only (shared encoder iterates P.actions)
    shadow = P.clone()
    shadow.clear_actions()
    for a in inst:
        shadow.add_action(a)
    # cost entries of durative actions cannot be expressed in the base metric format
    for m in P.quality_metrics:
        if isinstance(m, M.MinimizeActionCosts) and any(isinstance(a, DurativeAction) for a in m.costs):
            raise NotFit("durative action cost")
    base_metrics = [m for m in P.quality_metrics if not isinstance(m, (M.MinimizeMakespan, M.TemporalOversubscription))]
    shadow.clear_quality_metrics()
    for m in base_metrics:
        shadow.add_quality_metric(m)
    base = upp.enc_problem(shadow)
    if base[1] is None:
        base[1] = "p"      # the name is not read by the kind computation
    # user types that the problem never registered (types of forall-effect variables) still need their father
    tsec = next(x for x in base if isinstance(x, list) and x and x[0] == "types")
    known = {n for n, _ in tsec[1:]}

    def add_type(t):
        if t.is_user_type() and t.name not in known:
            if t.father is not None:
                add_type(t.father)
            known.add(t.name)
            tsec.append([t.name, t.father.name if t.father is not None else "_"])
    pos = Positions(P)
    exprs = [c for _, c in pos.conditions] + pos.costs + pos.final_exprs
    for _, e in pos.effects:
        exprs += [e.fluent, e.value, e.condition]
        for v in e.forall:
            add_type(v.type)
    for _, lo, hi in pos.durations:
        exprs += [lo, hi]
    for f, v in P.explicit_initial_values.items():
        exprs += [f, v]
    exprs += [d for d in P.fluents_defaults.values() if d is not None]
    for _, prm in pos.params:
        add_type(prm.type)
    for t in extra_types:
        add_type(t)
    exprs += list(extra_exprs)
    for x in exprs:
        for nd in _nodes(x):
            if nd.is_object_exp():
                add_type(nd.object().type)
            elif nd.is_parameter_exp():
                add_type(nd.parameter().type)
            elif nd.is_variable_exp():
                add_type(nd.variable().type)
            elif nd.is_exists() or nd.is_forall():
                for v in nd.variables():
                    add_type(v.type)
            elif nd.is_fluent_exp():
                add_type(nd.fluent().type)
                for q in nd.fluent().signature:
                    add_type(q.type)
    sims = []
    for a in inst:
        for e in a.effects:
            enc_eff(e)
        if a.simulated_effect is not None:
            sims.append([a.name] + [enc_expr(f) for f in a.simulated_effect.fluents])
    dacts = []
    for a in dur:
        conds = [[enc_interval(iv), enc_expr(c)] for iv, cl in a.conditions.items() for c in cl]
        effs = [[enc_timing(t), enc_eff(e)] for t, el in a.effects.items() for e in el]
        ceffs = [[enc_interval(iv), enc_ceff(e)] for iv, el in a.continuous_effects.items() for e in el]
        sim = [[enc_timing(t)] + [enc_expr(f) for f in se.fluents] for t, se in a.simulated_effects.items()]
        dacts.append(["daction", a.name, [[p.name, enc_ty(p.type)] for p in a.parameters],
                      ["dur", enc_expr(a.duration.lower), enc_expr(a.duration.upper)],
                      ["conds"] + conds, ["effs"] + effs, ["ceffs"] + ceffs, ["sim"] + sim])
    procs = [["process", p.name, [[q.name, enc_ty(q.type)] for q in p.parameters], ["pre"] + [enc_expr(c) for c in p.preconditions],
              ["ceffs"] + [enc_ceff(e) for e in p.effects]] for p in P.processes]
    evs = []
    for ev in P.events:
        if ev.simulated_effect is not None:
            raise NotFit("event simulated effect")
        evs.append(["event", ev.name, [[q.name, enc_ty(q.type)] for q in ev.parameters], ["pre"] + [enc_expr(c) for c in ev.preconditions],
                    ["effs"] + [enc_eff(e) for e in ev.effects]])
    teffs = [[enc_timing(t), enc_eff(e)] for t, el in P.timed_effects.items() for e in el]
    tgoals = [[enc_interval(iv), enc_expr(g)] for iv, gl in P.timed_goals.items() for g in gl]
    xm = []
    for m in P.quality_metrics:
        if isinstance(m, M.MinimizeMakespan):
            xm.append(["makespan"])
        elif isinstance(m, M.TemporalOversubscription):
            xm.append(["toversub", [[enc_interval(iv), enc_expr(g), q2s(Fraction(w))] for (iv, g), w in m.goals.items()]])
    return ["kp", base, ["dactions"] + dacts, ["processes"] + procs, ["events"] + evs, ["teffs"] + teffs, ["tgoals"] + tgoals,
            ["xmetrics"] + xm, ["flags", "T" if P.discrete_time else "F", "T" if P.self_overlapping else "F"], ["sim"] + sims]


def _all_exprs(P):
    """every expression the kind computation may hand to LinearChecker (a superset), and every continuous-effect value"""
    pos = Positions(P)
    lin = [c for _, c in pos.conditions] + [e.condition for _, e in pos.effects] + pos.final_exprs + pos.costs
    from unified_planning.model.htn import HierarchicalProblem
    if isinstance(P, HierarchicalProblem):
        lin += [c for m in P.methods for c in list(m.preconditions) + list(m.constraints)] + list(P.task_network.constraints)
    simp = [e.value for _, e in pos.effects if e.kind in (EffectKind.CONTINUOUS_INCREASE, EffectKind.CONTINUOUS_DECREASE)]
    return lin, simp


def facts(P):
    lc = up.model.walkers.linear_checker.LinearChecker(P, P.environment)
    sm = up.model.walkers.simplifier.Simplifier(P.environment, P)
    fve = P.environment.free_vars_extractor
    lin, simp = _all_exprs(P)
    out, seen = ["facts"], set()
    for e in lin:
        if ("l", e) in seen:
            continue
        seen.add(("l", e))
        out.append(["lin", enc_x(e), "T" if lc.get_fluents(e)[0] else "F"])
    for e in simp:
        if ("s", e) in seen:
            continue
        seen.add(("s", e))
        exps = []
        for v in fve.get(sm.simplify(e)):
            x = enc_expr(v)
            if x not in exps:
                exps.append(x)
        out.append(["simp", enc_expr(e), sorted(exps, key=sexp.dumps)])
    return out


def with_facts(payload):
    """normal form of a kp payload: the payload is built, the REAL problem is encoded back (constructors may normalise what
    they are given, e.g. add_trajectory_constraint simplifies), and the facts are computed from the real code"""
    P = build(strip_facts(payload))
    return add_facts(enc(P), P)


def strip_facts(payload):
    if payload[0] in ("hp", "cp"):
        return [payload[0], strip_facts(payload[1])] + payload[2:]
    return [s for s in payload if not (isinstance(s, list) and s and s[0] == "facts")]


def add_facts(payload, P):
    """payload without facts + the facts of the real problem P (multi-agent kinds ask nothing of the walkers)"""
    if payload[0] in ("hp", "cp"):
        return [payload[0], payload[1] + [facts(P)]] + payload[2:]
    if payload[0] == "map":
        return payload
    return payload + [facts(P)]


# ================================================================================================
# 2b. the problem subclasses: wire format <-> real HierarchicalProblem / ContingentProblem / SchedulingProblem /
#     MultiAgentProblem
# ================================================================================================

class XCtx(upx.Ctx):
    """Ctx that also builds TIMING_EXP and PRESENT_EXP leaves: (timing "kind|container|delay"), (present name)"""

    def expr(self, s):
        if s[0] == "timing":
            k, c, d = s[1].split("|")
            return self.em.TimingExp(Timing(Fraction(d), up.model.timing.Timepoint(TP[k], container=(c or None))))
        if s[0] == "present":
            from unified_planning.model.presence import Presence
            return self.em.PresentExp(Presence(s[1]))
        return super().expr(s)


def enc_x(e):
    """enc_expr for expressions that may contain TIMING_EXP / PRESENT_EXP leaves (constraints of task networks and
    chronicles)"""
    t = e.node_type
    if t == OK.TIMING_EXP:
        tm = e.timing()
        return ["timing", "%s|%s|%s" % (TP_INV[tm.timepoint.kind], tm.timepoint.container or "", q2s(Fraction(tm.delay)))]
    if t == OK.PRESENT_EXP:
        return ["present", e.presence().container]
    if t in (OK.EXISTS, OK.FORALL):
        return ["exists" if t == OK.EXISTS else "forall", [[v.name, enc_ty(v.type)] for v in e.variables()], enc_x(e.arg(0))]
    if t in upx.OPS:
        return [upx.OPS[t]] + [enc_x(a) for a in e.args]
    return enc_expr(e)


def enc_timing_nc(t):
    """a Timing without its container (the kind computations never read it)"""
    return ["at", TP_INV[t.timepoint.kind], q2s(Fraction(t.delay))]


def enc_interval_nc(i):
    return ["iv", "T" if i.is_left_open() else "F", "T" if i.is_right_open() else "F", enc_timing_nc(i.lower), enc_timing_nc(i.upper)]


def mk_timing_in(s, container):
    """(at kind delay) -> Timing relative to `container` (start / end of an activity) or global"""
    kind = TP[s[1]]
    c = container if kind in (TimepointKind.START, TimepointKind.END) else None
    return Timing(Fraction(s[2]), up.model.timing.Timepoint(kind, container=c))


def mk_interval_in(s, container):
    return TimeInterval(mk_timing_in(s[3], container), mk_timing_in(s[4], container), s[1] == "T", s[2] == "T")


def _params(ps):
    return [[p.name, enc_ty(p.type)] for p in ps]


# ---- hierarchical --------------------------------------------------------------------------------

def enc_h(P):
    def st(x):
        return [x.identifier, x.task.name] + [enc_x(a) for a in x.parameters]
    xt, xe = [], []
    for t in P.tasks:
        xt += [p.type for p in t.parameters]
    for m in P.methods:
        xt += [p.type for p in m.parameters]
        xe += list(m.preconditions) + list(m.constraints) + [a for x in m.subtasks for a in x.parameters]
    tn = P.task_network
    xt += [v.type for v in tn.variables]
    xe += list(tn.constraints) + [a for x in tn.subtasks for a in x.parameters]
    kp = _enc_base(P, extra_types=xt, extra_exprs=xe)
    tasks = [[t.name, _params(t.parameters)] for t in P.tasks]
    methods = [["method", m.name, _params(m.parameters),
                ["task", m.achieved_task.task.name] + [p.name for p in m.achieved_task.parameters],
                ["pre"] + [enc_x(c) for c in m.preconditions], ["subtasks"] + [st(x) for x in m.subtasks],
                ["constraints"] + [enc_x(c) for c in m.constraints]] for m in P.methods]
    net = ["tn", ["vars"] + _params(tn.variables), ["subtasks"] + [st(x) for x in tn.subtasks],
           ["constraints"] + [enc_x(c) for c in tn.constraints]]
    return ["hp", kp, ["tasks"] + tasks, ["methods"] + methods, net]


def build_h(payload):
    from unified_planning.model.htn import HierarchicalProblem, Method, Task
    _, kp, tasks, methods, net = payload
    # Subtask, TaskNetwork and Method.add_subtask create their objects in the global environment
    P0, ctx = _build_kp(kp, env=up.environment.get_environment())
    H = HierarchicalProblem(P0.name, ctx.env)
    Problem._clone_to(P0, H)
    tk = {}
    for name, ps in tasks[1:]:
        tk[name] = H.add_task(Task(name, OrderedDict((pn, ctx.ty(pt)) for pn, pt in ps), ctx.env))

    def target(name):
        return tk[name] if name in tk else H.action(name)

    def fill(net_obj, sts, cs):
        for x in sts:
            net_obj.add_subtask(target(x[1]), *[ctx.expr(a) for a in x[2:]], ident=x[0])
        for c in cs:
            net_obj.add_constraint(ctx.expr(c))
    for m in methods[1:]:
        _, name, ps, task, pre, sts, cs = m
        M_ = Method(name, OrderedDict((pn, ctx.ty(pt)) for pn, pt in ps), ctx.env)
        M_.set_task(tk[task[1]], *[M_.parameter(pn) for pn in task[2:]])
        for c in pre[1:]:
            M_.add_precondition(ctx.expr(c))
        fill(M_, sts[1:], cs[1:])
        H.add_method(M_)
    _, vs, sts, cs = net
    for vn, vt in vs[1:]:
        H.task_network.add_variable(vn, ctx.ty(vt))
    fill(H.task_network, sts[1:], cs[1:])
    return H


# ---- contingent ----------------------------------------------------------------------------------

def enc_c(P):
    from unified_planning.model.contingent import SensingAction
    sens = [a for a in P.actions if isinstance(a, SensingAction)]
    cons = [c for cl in list(P.or_constraints) + list(P.oneof_constraints) for c in cl]
    kp = _enc_base(P, extra_exprs=[f for a in sens for f in a.observed_fluents] + cons, sensing=True)
    return ["cp", kp, ["sensing"] + [[a.name] + [enc_expr(f) for f in a.observed_fluents] for a in sens],
            ["or"] + [[enc_expr(c) for c in cl] for cl in P.or_constraints],
            ["oneof"] + [[enc_expr(c) for c in cl] for cl in P.oneof_constraints]]


def build_c(payload):
    from unified_planning.model.contingent import ContingentProblem, SensingAction
    _, kp, sensing, ors, ones = payload
    P0, ctx = _build_kp(kp)
    obs = {s[0]: s[1:] for s in sensing[1:]}
    if len(obs) != len(sensing) - 1:
        raise ValueError("duplicate sensing action")
    repl = {}
    for i, a in enumerate(P0._actions):
        if a.name in obs:
            if type(a) is not InstantaneousAction:
                raise ValueError("sensing action must be instantaneous")
            sa = SensingAction(a.name, OrderedDict((p.name, p.type) for p in a.parameters), ctx.env)
            sa._preconditions = a._preconditions[:]
            sa._effects = [e.clone() for e in a._effects]
            sa._fluents_assigned = a._fluents_assigned.copy()
            sa._fluents_inc_dec = a._fluents_inc_dec.copy()
            sa._simulated_effect = a._simulated_effect
            sa.add_observed_fluents([ctx.expr(f) for f in obs[a.name]])
            P0._actions[i] = sa
            repl[a.name] = sa
    if len(repl) != len(obs):
        raise ValueError("observed fluents of an unknown action")
    for k, m in enumerate(P0._metrics):
        if isinstance(m, M.MinimizeActionCosts):
            P0._metrics[k] = M.MinimizeActionCosts({repl.get(a.name, a): c for a, c in m.costs.items()}, m.default, ctx.env)
    C = ContingentProblem(P0.name, ctx.env)
    Problem._clone_to(P0, C)
    for cl in ors[1:]:
        C.add_or_initial_constraint([ctx.expr(c) for c in cl])
    for cl in ones[1:]:
        C.add_oneof_initial_constraint([ctx.expr(c) for c in cl])
    return C


# ---- scheduling ----------------------------------------------------------------------------------

def _enc_scoped(cs):
    return [[enc_x(c), [enc_x(x) for x in scope]] for c, scope in cs]


def _types_section(P, types, exprs):
    """(types …) with fathers first: the problem's user types plus those of `types` and of the nodes of `exprs`"""
    known, out = set(), []

    def add_type(t):
        if t.is_user_type() and t.name not in known:
            if t.father is not None:
                add_type(t.father)
            known.add(t.name)
            out.append([t.name, t.father.name if t.father is not None else "_"])
    for t in list(P.user_types) + list(types):
        add_type(t)
    for x in exprs:
        for nd in _nodes(x):
            if nd.is_object_exp():
                add_type(nd.object().type)
            elif nd.is_parameter_exp():
                add_type(nd.parameter().type)
            elif nd.is_variable_exp():
                add_type(nd.variable().type)
            elif nd.is_exists() or nd.is_forall():
                for v in nd.variables():
                    add_type(v.type)
            elif nd.is_fluent_exp():
                add_type(nd.fluent().type)
                for q in nd.fluent().signature:
                    add_type(q.type)
    return ["types"] + out


def _enc_fluents(fluents, defaults):
    return ["fluents"] + [[[f.name, enc_ty(f.type), [enc_ty(p.type) for p in f.signature]],
                           "_" if defaults.get(f, None) is None else enc_expr(defaults[f])] for f in fluents]


def enc_s(P):
    pos = Positions(P)
    exprs = [c for _, c in pos.conditions] + pos.final_exprs
    types = [p.type for _, p in pos.params]
    for _, e in pos.effects:
        enc_eff(e)
        exprs += [e.fluent, e.value, e.condition]
        types += [v.type for v in e.forall]
    for _, lo, hi in pos.durations:
        exprs += [lo, hi]
    for f, v in P.explicit_initial_values.items():
        exprs += [f, v]
    exprs += [d for d in P.fluents_defaults.values() if d is not None]
    ms, xm = [], []
    for m in P.quality_metrics:
        if isinstance(m, M.MinimizeMakespan):
            xm.append(["makespan"])
        elif isinstance(m, M.TemporalOversubscription):
            xm.append(["toversub", [[enc_interval_nc(iv), enc_expr(g), q2s(Fraction(w))] for (iv, g), w in m.goals.items()]])
        elif isinstance(m, M.MinimizeSequentialPlanLength):
            ms.append(["min-length"])
        elif isinstance(m, (M.MinimizeExpressionOnFinalState, M.MaximizeExpressionOnFinalState)):
            ms.append(["min-final" if isinstance(m, M.MinimizeExpressionOnFinalState) else "max-final", enc_expr(m.expression)])
        elif isinstance(m, M.Oversubscription):
            ms.append(["oversub", [[enc_expr(g), q2s(Fraction(w))] for g, w in m.goals.items()]])
        else:
            raise NotFit("metric of a scheduling problem")
    base = ["problem", P.name or "s", _types_section(P, types, exprs), ["objects"] + [[o.name, o.type.name] for o in P.all_objects],
            _enc_fluents(P.fluents, P.fluents_defaults),
            ["init"] + [[enc_expr(f), enc_expr(v)] for f, v in P.explicit_initial_values.items()],
            ["actions"], ["goals"], ["traj"], ["metrics"] + ms]
    acts = []
    for a in P.activities:
        acts.append(["activity", a.name, "T" if a.optional else "F", _params(a.parameters),
                     ["dur", enc_expr(a.duration.lower), enc_expr(a.duration.upper)],
                     ["conds"] + [[enc_interval_nc(iv), enc_x(c)] for iv, cl in a.conditions.items() for c in cl],
                     ["effs"] + [[enc_timing_nc(t), enc_eff(e)] for t, el in a.effects.items() for e in el],
                     ["constraints"] + _enc_scoped(a.scoped_constraints)])
    return ["sp", base, ["xmetrics"] + xm, ["flags", "T" if P.discrete_time else "F", "T" if P.self_overlapping else "F"],
            ["vars"] + _params(P.base_variables),
            ["conds"] + [[enc_interval_nc(iv), enc_x(c)] for iv, c in P.base_conditions],
            ["effs"] + [[enc_timing_nc(t), enc_eff(e)] for t, e in P.base_effects],
            ["constraints"] + _enc_scoped(P.base_scoped_constraints), ["activities"] + acts]


def _add_chron_eff(ch, ctx, timing, e):
    _, kind, f, v, c, vs = e
    forall = tuple(ctx.var(n, t) for n, t in vs)
    fn = {"assign": ch.add_effect, "increase": ch.add_increase_effect, "decrease": ch.add_decrease_effect}[kind]
    fn(timing, ctx.expr(f), ctx.expr(v), ctx.expr(c), forall)


def build_s(payload):
    from unified_planning.model.scheduling import SchedulingProblem
    base = payload[1]
    # Activity and SchedulingProblem.add_variable create their objects in the global environment
    ctx = XCtx([(n, None if f == "_" else f) for n, f in upp.get(base, "types")], env=up.environment.get_environment())
    ctx.fun_tables = _FunTables(ctx)
    P = SchedulingProblem(base[1], ctx.env)
    if upp.get(base, "actions") or upp.get(base, "goals") or upp.get(base, "traj"):
        raise ValueError("a scheduling problem has no actions, goals or trajectory constraints")
    for n, t in upp.get(base, "objects"):
        P.add_object(ctx.obj(n, t))
    for ref, d in upp.get(base, "fluents"):
        if d == "_":
            P.add_fluent(ctx.fluent(ref))
        else:
            P.add_fluent(ctx.fluent(ref), default_initial_value=ctx.expr(d))
    for f, v in upp.get(base, "init"):
        P.set_initial_value(ctx.expr(f), ctx.expr(v))
    for m in upp.get(base, "metrics") + sec(payload, "xmetrics"):
        if m[0] == "min-length":
            P.add_quality_metric(M.MinimizeSequentialPlanLength(ctx.env))
        elif m[0] in ("min-final", "max-final"):
            cls = M.MinimizeExpressionOnFinalState if m[0] == "min-final" else M.MaximizeExpressionOnFinalState
            P.add_quality_metric(cls(ctx.expr(m[1]), ctx.env))
        elif m[0] == "oversub":
            P.add_quality_metric(M.Oversubscription({ctx.expr(g): Fraction(w) for g, w in m[1]}, ctx.env))
        elif m[0] == "makespan":
            P.add_quality_metric(M.MinimizeMakespan(ctx.env))
        elif m[0] == "toversub":
            P.add_quality_metric(M.TemporalOversubscription({(mk_interval(iv), ctx.expr(g)): Fraction(w) for iv, g, w in m[1]}, ctx.env))
        else:
            raise ValueError(m)
    fl = sec(payload, "flags")
    P.discrete_time = fl[0] == "T"
    P.self_overlapping = fl[1] == "T"
    for vn, vt in sec(payload, "vars"):
        P.add_variable(vn, ctx.ty(vt))
    for iv, c in sec(payload, "conds"):
        P.add_condition(mk_interval_in(iv, None), ctx.expr(c))
    for t, e in sec(payload, "effs"):
        _add_chron_eff(P._base, ctx, mk_timing_in(t, None), e)
    for c, scope in sec(payload, "constraints"):
        P._base._add_constraint(ctx.expr(c), scope=[ctx.expr(x) for x in scope])
    for a in sec(payload, "activities"):
        _, name, opt, ps, dur, conds, effs, cons = a
        act = P.add_activity(name, optional=(opt == "T"))
        lo, hi = ctx.expr(dur[1]), ctx.expr(dur[2])
        act.set_duration_bounds(lo, hi)
        for pn, pt in ps:
            if not pn.startswith(name + "."):
                raise ValueError("activity parameter names are scoped by the activity name")
            act.add_parameter(pn[len(name) + 1:], ctx.ty(pt))
        for iv, c in conds[1:]:
            act.add_condition(mk_interval_in(iv, name), ctx.expr(c))
        for t, e in effs[1:]:
            _add_chron_eff(act, ctx, mk_timing_in(t, name), e)
        for c, scope in cons[1:]:
            act._add_constraint(ctx.expr(c), scope=[ctx.expr(x) for x in scope])
    return P


# ---- multi-agent ---------------------------------------------------------------------------------

def _enc_daction(a):
    conds = [[enc_interval(iv), enc_expr(c)] for iv, cl in a.conditions.items() for c in cl]
    effs = [[enc_timing(t), enc_eff(e)] for t, el in a.effects.items() for e in el]
    ceffs = [[enc_interval(iv), enc_ceff(e)] for iv, el in a.continuous_effects.items() for e in el]
    sim = [[enc_timing(t)] + [enc_expr(f) for f in se.fluents] for t, se in a.simulated_effects.items()]
    return ["daction", a.name, _params(a.parameters), ["dur", enc_expr(a.duration.lower), enc_expr(a.duration.upper)],
            ["conds"] + conds, ["effs"] + effs, ["ceffs"] + ceffs, ["sim"] + sim]


def enc_m(P):
    pos = Positions(P)
    exprs = [c for _, c in pos.conditions]
    types = [p.type for _, p in pos.params]
    for _, e in pos.effects:
        exprs += [e.fluent, e.value, e.condition]
        types += [v.type for v in e.forall]
    for _, lo, hi in pos.durations:
        exprs += [lo, hi]
    for f in pos.fluents:
        types += [f.type] + [q.type for q in f.signature]
    for holder in [P.ma_environment] + list(P.agents):
        exprs += [d for d in holder.fluents_defaults.values() if d is not None]
    ags = []
    for ag in P.agents:
        ia, da = [], []
        for a in ag.actions:
            if type(a) is InstantaneousAction:
                if a.simulated_effect is not None:
                    raise NotFit("simulated effect in an agent")
                for e in a.effects:
                    enc_eff(e)
                ia.append(upp.enc_action(a))
            elif type(a) is DurativeAction:
                if a.simulated_effects:
                    raise NotFit("simulated effect in an agent")
                da.append(_enc_daction(a))
            else:
                raise NotFit("action class")
        ags.append(["agent", ag.name, _enc_fluents(ag.fluents, ag.fluents_defaults), ["actions"] + ia, ["dactions"] + da,
                    ["public"] + [enc_expr(g) for g in ag.public_goals], ["private"] + [enc_expr(g) for g in ag.private_goals]])
    return ["map", _types_section(P, types, exprs), ["objects"] + [[o.name, o.type.name] for o in P.all_objects],
            ["env"] + _enc_fluents(P.ma_environment.fluents, P.ma_environment.fluents_defaults)[1:],
            ["agents"] + ags, ["goals"] + [enc_expr(g) for g in P.goals]]


def build_m(payload):
    from unified_planning.model.multi_agent import Agent, MultiAgentProblem
    _, types, objects, env, agents, goals = payload
    ctx = XCtx([(n, None if f == "_" else f) for n, f in types[1:]])
    ctx.fun_tables = _FunTables(ctx)
    P = MultiAgentProblem("ma", ctx.env)
    for n, t in objects[1:]:
        P.add_object(ctx.obj(n, t))
    dv = lambda d: None if d == "_" else ctx.expr(d)
    for ref, d in env[1:]:
        P.ma_environment.add_fluent(ctx.fluent(ref), default_initial_value=dv(d))
    for a in agents[1:]:
        _, name, fls, acts, dacts, pub, priv = a
        ag = Agent(name, P)
        for ref, d in fls[1:]:
            ag.add_fluent(ctx.fluent(ref), default_initial_value=dv(d))
        for act in acts[1:]:
            _, an, ps, pre, effs = act
            A = InstantaneousAction(an, OrderedDict((pn, ctx.ty(pt)) for pn, pt in ps), ctx.env)
            for c in pre[1:]:
                A.add_precondition(ctx.expr(c))
            for e in effs[1:]:
                _add_eff(A, ctx, e)
            ag.add_action(A)
        for d in dacts[1:]:
            ag.add_action(_mk_daction(d, ctx))
        for g in pub[1:]:
            ag.add_public_goal(ctx.expr(g))
        for g in priv[1:]:
            ag.add_private_goal(ctx.expr(g))
        P.add_agent(ag)
    for g in goals[1:]:
        P.add_goal(ctx.expr(g))
    return P


# ---- extern problems -----------------------------------------------------------------------------

_EXTERN_CACHE = {}


def _walk_test_cases(pkgname, out):
    import importlib
    import pkgutil
    try:
        m = importlib.import_module(pkgname)
    except Exception:
        return
    if hasattr(m, "get_test_cases") and pkgname.count(".") >= 2:
        try:
            for k, v in m.get_test_cases().items():
                out[pkgname.split(".", 1)[1] + ":" + k] = v.problem
            return
        except Exception:
            pass
    if hasattr(m, "__path__"):
        for _, n, _ in pkgutil.iter_modules(m.__path__):
            _walk_test_cases(pkgname + "." + n, out)


def extern_problems():
    """name -> real problem, for the bundled corpora (loaded once)"""
    if _EXTERN_CACHE:
        return _EXTERN_CACHE
    from unified_planning.test.examples import get_example_problems
    for n, tc in get_example_problems().items():
        _EXTERN_CACHE["examples:" + n] = tc.problem
    from unified_planning.test.examples.multi_agent import get_example_problems as get_ma_example_problems
    for n, tc in get_ma_example_problems().items():
        _EXTERN_CACHE["examples:" + n] = tc.problem
    repo = os.path.dirname(os.path.dirname(os.path.abspath(up.__file__)))
    tcdir = os.path.join(repo, "up_test_cases")
    if os.path.isdir(tcdir):
        for p in (repo, tcdir):
            if p not in sys.path:
                sys.path.append(p)
        found = {}
        try:
            _walk_test_cases("up_test_cases.builtin", found)
        except Exception:
            found = {}
        for n, pb in found.items():
            _EXTERN_CACHE["up_test_cases:" + n] = pb
    for n, fn in PROBES.items():
        _EXTERN_CACHE["probe:" + n] = fn
    return _EXTERN_CACHE


def get_extern(name):
    pb = extern_problems()[name]
    return pb() if callable(pb) else pb


# hand-made problems outside the wire format: witnesses of findings (built on demand)

def _probe_ma_durative():
    from unified_planning.model.multi_agent import Agent, MultiAgentProblem
    from unified_planning.shortcuts import BoolType, Fluent, IntType, Not, Or
    p = MultiAgentProblem("ma")
    ag = Agent("a1", p)
    b, n = Fluent("b", BoolType()), Fluent("n", IntType(0, 5))
    ag.add_fluent(b, default_initial_value=False)
    ag.add_fluent(n, default_initial_value=0)
    da = DurativeAction("dact")
    da.set_fixed_duration(n)
    da.add_condition(StartTiming(), Not(b))
    da.add_effect(EndTiming(), b, True, Or(b, b))
    da.add_increase_effect(EndTiming(), n, 1)
    ag.add_action(da)
    p.add_agent(ag)
    return p


def _probe_ma_params():
    from unified_planning.model.multi_agent import Agent, MultiAgentProblem
    from unified_planning.shortcuts import BoolType, Fluent, IntType
    p = MultiAgentProblem("ma")
    ag = Agent("a1", p)
    b = Fluent("b", BoolType())
    w = Fluent("w", BoolType(), pb=BoolType())
    ag.add_fluent(b, default_initial_value=False)
    ag.add_fluent(w, default_initial_value=False)
    a = InstantaneousAction("act", pb=BoolType(), pi=IntType(0, 2))
    a.add_effect(b, True)
    ag.add_action(a)
    p.add_agent(ag)
    return p


PROBES = {"ma-durative": _probe_ma_durative, "ma-params": _probe_ma_params}


# ================================================================================================
# 3. generator
# ================================================================================================

U = lambda n: ["user", n]
TYPES = [["T", "_"], ["S", "T"], ["U", "_"]]
OBJS = {"T": [("t1", "T"), ("s1", "S"), ("s2", "S")], "S": [("s1", "S"), ("s2", "S")], "U": [("u1", "U")]}
ALL_OBJECTS = [["t1", "T"], ["s1", "S"], ["s2", "S"], ["u1", "U"]]
INT, REAL = ["int", "_", "_"], ["real", "_", "_"]
POOL = {
    "b0": ["b0", "bool", []], "b1": ["b1", "bool", []], "bq": ["bq", "bool", [U("T")]], "bs": ["bs", "bool", [U("S")]],
    "bu": ["bu", "bool", [U("U")]], "bb": ["bb", "bool", ["bool"]], "bi": ["bi", "bool", [["int", "0", "2"]]],
    "x": ["x", INT, []], "y": ["y", INT, []], "xb": ["xb", ["int", "0", "4"], []], "xq": ["xq", ["int", "-2", "3"], [U("T")]],
    "xl": ["xl", ["int", "0", "_"], []],
    "z": ["z", REAL, []], "zb": ["zb", ["real", "0", "5/2"], []], "zq": ["zq", REAL, [U("S")]],
    "at": ["at", U("T"), []], "own": ["own", U("T"), [U("S")]], "loc": ["loc", U("U"), []],
}
BOOLS = ["b0", "b1", "bq", "bs", "bu", "bb", "bi"]
INTS = ["x", "y", "xb", "xq", "xl"]
REALS = ["z", "zb", "zq"]
OBJF = ["at", "own", "loc"]
TRUE = ["b", "T"]
FEATURE_OPS = ["not", "or", "implies", "eq-num", "eq-obj", "exists", "forall", "iff", "nested"] * 3 + ["ifun"]
IFUN_INT = ["ifun", ["g", INT, [INT]]]
IFUN_BOOL = ["ifun", ["gb", "bool", [INT]]]
POSITIONS = ["ipre", "ieffcond", "iforallcond", "dcond-start", "dcond-overall", "dcond-inter", "dcond-ext", "deffcond",
             "deffcond-inter", "goal", "tgoal", "traj-always", "traj-sometime", "oversub", "toversub", "ppre", "epre", "eeffcond",
             "teffcond"]


class KGen:
    """one problem per call of .problem(); all randomness from self.r"""

    def __init__(self, rng):
        self.r = rng

    # ---- terms / atoms ---------------------------------------------------------------------
    def pick_fluents(self):
        r = self.r
        names = [r.choice(["b0", "b1"])]
        k = r.choice([0, 1, 1, 2, 3, 4])
        names += r.sample([n for n in POOL if n not in names], k)
        return names

    def term(self, ty, params, scope):
        """a term of wire type ty (user / bool / bounded int)"""
        r = self.r
        opts = []
        for pn, pt in list(params) + list(scope):
            tag = "p" if (pn, pt) in [tuple(x) for x in map(tuple, params)] else "v"
            if pt == ty or (ty == U("T") and pt == U("S")):
                opts += [[tag, pn, pt]] * 3
        if ty == "bool":
            opts += [["b", "T"], ["b", "F"]]
        elif ty[0] == "int":
            opts += [["i", str(v)] for v in range(int(ty[1]), int(ty[2]) + 1)]
        else:
            opts += [["o", o, t] for o, t in OBJS[ty[1]]]
        return r.choice(opts)

    def fexp(self, name, params=(), scope=()):
        ref = POOL[name]
        return ["fl", ref] + [self.term(t, params, scope) for t in ref[2]]

    def atom(self, fl, params=(), scope=()):
        """a plain (feature-free) Boolean condition over the chosen fluents"""
        r = self.r
        bools = [n for n in fl if n in BOOLS]
        nums = [n for n in fl if n in INTS + REALS]
        if nums and r.random() < 0.3:
            n = r.choice(nums)
            c = ["i", str(r.choice([0, 1, 2, 3]))]
            a = self.fexp(n, params, scope)
            if r.random() < 0.2 and len(nums) > 1:
                c = self.fexp(r.choice(nums), params, scope)
            return [r.choice(["le", "lt"]), a, c] if r.random() < 0.5 else [r.choice(["le", "lt"]), c, a]
        return self.fexp(r.choice(bools), params, scope)

    def plain(self, fl, params=(), scope=()):
        r = self.r
        if r.random() < 0.25:
            return ["and", self.atom(fl, params, scope), self.atom(fl, params, scope)]
        return self.atom(fl, params, scope)

    def featured(self, op, fl, params=(), scope=()):
        """a condition whose only feature-bearing operator is `op` (apart from `nested`)"""
        r = self.r
        a, b = self.atom(fl, params, scope), self.atom(fl, params, scope)
        if op == "not":
            e = ["not", a]
        elif op == "ifun":
            nums = [n for n in fl if n in INTS]
            arg = self.fexp(r.choice(nums), params, scope) if nums and r.random() < 0.7 else ["i", str(r.choice([0, 2]))]
            e = IFUN_BOOL + [arg] if r.random() < 0.5 else ["le", IFUN_INT + [arg], ["i", "3"]]
        elif op == "or":
            e = ["or", a, b]
        elif op == "implies":
            e = ["implies", a, b]
        elif op == "iff":
            e = ["iff", a, b]
        elif op == "eq-num":
            nums = [n for n in fl if n in INTS + REALS]
            e = ["eq", self.fexp(r.choice(nums), params, scope), ["i", str(r.choice([0, 1, 2]))]] if nums else ["not", a]
        elif op == "eq-obj":
            t = r.choice(["T", "S", "U"])
            e = ["eq", self.term(U(t), params, scope), self.term(U(t), params, scope)]
        elif op in ("exists", "forall"):
            t = r.choice(["T", "S", "S", "U"])
            v = (f"q{r.randrange(3)}", U(t))
            sc = tuple(scope) + (v,)
            cand = [n for n in fl if POOL[n][1] == "bool" and (U(t) in POOL[n][2] or (t == "S" and U("T") in POOL[n][2]))]
            body = self.fexp(r.choice(cand), params, sc) if cand else ["eq", ["v", v[0], v[1]], self.term(U(t), params, sc)]
            if cand and r.random() < 0.3:
                body = ["and", body, self.atom(fl, params, sc)]
            e = [op, [[v[0], v[1]]], body]
        else:   # nested: one operator deep inside others
            inner = self.featured(r.choice(["not", "or", "implies", "eq-obj", "exists", "forall"]), fl, params, scope)
            e = ["and", a, ["and", b, inner]] if r.random() < 0.5 else ["forall", [["qz", U("S")]], ["and", inner, a]]
        if r.random() < 0.3:
            e = ["and", b, e]
        return e

    def value(self, name, fl, params=(), scope=(), dependent=False):
        """a value for an assignment to fluent `name` (constant unless `dependent`)"""
        r = self.r
        ty = POOL[name][1]
        if dependent and r.random() < 0.12 and (ty == "bool" or ty[0] in ("int", "real")):
            nums = [n for n in fl if n in INTS]
            arg = self.fexp(r.choice(nums), params, scope) if nums and r.random() < 0.6 else ["i", "1"]
            return IFUN_BOOL + [arg] if ty == "bool" else IFUN_INT + [arg]
        if ty == "bool":
            if dependent:
                bs = [n for n in fl if n in BOOLS]
                if len(bs) > 1 and r.random() < 0.35:
                    return ["and", self.atom(bs, params, scope), self.atom(bs, params, scope)]
                return self.atom(bs, params, scope)
            return ["b", r.choice(["T", "F"])]
        if ty[0] in ("int", "real"):
            lo = int(Fraction(ty[1])) if ty[1] != "_" else -1
            hi = int(Fraction(ty[2])) if ty[2] != "_" else 3
            c = ["i", str(r.randint(max(lo, 0), max(hi, 1)))] if ty[0] == "int" or r.random() < 0.5 else ["r", r.choice(["1/2", "3/2"])]
            if dependent:
                nums = [n for n in fl if n in (INTS if ty[0] == "int" else INTS + REALS)]
                if nums:
                    g = self.fexp(r.choice(nums), params, scope)
                    if len(nums) > 1 and r.random() < 0.4:
                        # a value mixing two fluents (typically one static and one not): each class must be reported
                        g2 = self.fexp(r.choice([n for n in nums if n != g[1][0]] or nums), params, scope)
                        return ["plus", g, g2] if r.random() < 0.7 else ["minus", g, g2]
                    k = r.random()
                    return g if k < 0.4 else ["plus", g, c] if k < 0.7 else ["times", ["i", "2"], g] if k < 0.85 else ["minus", g, c]
            return c
        if dependent:
            cands = [n for n in fl if n in OBJF and (POOL[n][1] == ty or (ty == U("T") and POOL[n][1] == U("S")))]
            if cands:
                return self.fexp(r.choice(cands), params, scope)
        return self.term(ty, params, scope)

    def eff(self, fl, params=(), *, kind=None, cond=None, forall=False, dependent=False, target=None):
        r = self.r
        scope = ()
        name = target or r.choice(fl)
        ref = POOL[name]
        if forall:
            cands = [n for n in fl if any(t in (U("T"), U("S"), U("U")) for t in POOL[n][2])]
            if not cands:
                return None
            name = r.choice(cands)
            ref = POOL[name]
            vt = r.choice([t for t in ref[2] if t[0] == "user"])
            if vt == U("T") and r.random() < 0.5:
                vt = U("S")
            scope = (("w", vt),)
        ty = ref[1]
        k = kind or "assign"
        if k != "assign" and (ty == "bool" or ty[0] == "user"):
            nums = [n for n in fl if n in INTS + REALS and (not forall or POOL[n][2])]
            if not nums:
                return None
            name = r.choice(nums)
            ref, ty = POOL[name], POOL[name][1]
        f = ["fl", ref] + [(["v", scope[0][0], scope[0][1]] if forall and scope and (t == scope[0][1] or (t == U("T") and scope[0][1] == U("S"))) else self.term(t, params, scope)) for t in ref[2]]
        v = self.value(name, fl, params, scope, dependent)
        if k != "assign" and not dependent:
            v = ["i", str(r.choice([1, 1, 2, 3]))] if ty[0] == "int" or r.random() < 0.5 else ["r", r.choice(["1/2", "3/2"])]
        c = cond if cond is not None else TRUE
        used = sexp.dumps([f, v, c])
        sc = [[n, t] for n, t in scope if sexp.dumps(["v", n, t]) in used]
        if forall and not sc:
            return None
        return ["eff", k, f, v, c, sc]

    def timing(self, where):
        r = self.r
        if where == "start":
            return ["at", "start", "0"]
        if where == "end":
            return ["at", "end", "0"]
        if where == "inter":
            return r.choice([["at", "start", r.choice(["1", "1/2", "2"])], ["at", "end", r.choice(["-1", "-1/2"])]])
        if where == "ext":
            return r.choice([["at", "start", r.choice(["-1", "-2"])], ["at", "end", r.choice(["1", "3/2"])]])
        if where == "global":
            return ["at", "gstart", r.choice(["0", "1", "5", "7/2"])]
        raise ValueError(where)

    def interval(self, where):
        r = self.r
        if where == "start":
            t = self.timing("start")
            return ["iv", "F", "F", t, t]
        if where == "end":
            t = self.timing("end")
            return ["iv", "F", "F", t, t]
        if where == "overall":
            return ["iv", r.choice("TF"), r.choice("TF"), ["at", "start", "0"], ["at", "end", "0"]]
        if where == "inter":
            return r.choice([["iv", "F", "F", self.timing("inter"), ["at", "end", "0"]],
                             ["iv", "F", r.choice("TF"), ["at", "start", "0"], ["at", "end", "-1"]],
                             ["iv", "F", "F", ["at", "start", "1"], ["at", "start", "1"]]])
        if where == "ext":
            return r.choice([["iv", "F", "F", ["at", "start", "-1"], ["at", "start", "0"]],
                             ["iv", "F", "F", ["at", "end", "0"], ["at", "end", "2"]]])
        if where == "global":
            a, b = sorted([Fraction(r.choice(["0", "1", "3", "9/2"])), Fraction(r.choice(["2", "4", "6"]))])
            return ["iv", r.choice("TF"), r.choice("TF"), ["at", "gstart", q2s(a)], ["at", "gstart", q2s(b)]]
        raise ValueError(where)

    def params(self, kinds=("user",)):
        r = self.r
        out = []
        for j in range(r.choice([0, 0, 1, 1, 2])):
            k = r.choice(kinds)
            ty = {"user": lambda: U(r.choice(["T", "S", "S", "U"])), "bool": lambda: "bool",
                  "bint": lambda: ["int", "0", "3"], "uint": lambda: r.choice([INT, ["int", "0", "_"]]),
                  "real": lambda: r.choice([REAL, ["real", "0", "1"]])}[k]()
            out.append([f"p{j}", ty])
        return out

    # ---- the problem ---------------------------------------------------------------------------
    def problem(self):
        r = self.r
        fl = self.pick_fluents()
        plan = {"fl": fl}
        # what to plant
        plants = []
        for _ in range(r.choice([0, 1, 1, 1, 2, 3])):
            plants.append((r.choice(FEATURE_OPS), r.choice(POSITIONS)))
        eff_plants = []
        for _ in range(r.choice([0, 0, 1, 1, 2])):
            eff_plants.append((r.choice(["conditional", "forall", "increase", "decrease", "dependent", "dependent", "dependent",
                                         "cont-inc", "cont-dec", "dependent-inc", "forall-conditional"]),
                               r.choice(["iaction", "daction-start", "daction-end", "daction-inter", "event", "timed", "process"])))
        pk = ["user"] * 6 + ["bool", "bint", "uint", "real"]
        need = lambda pos: [p for p in plants if p[1] in pos]
        dep_target = {}
        for j, (kind, w) in enumerate(eff_plants):
            if kind in ("dependent", "dependent-inc"):
                cat = r.choice(["bool", "num", "obj"]) if kind == "dependent" else "num"
                pair = {"bool": r.choice([("b0", "b1"), ("bq", "b1"), ("b1", "bs")]),
                        "num": r.choice([("x", "y"), ("z", "x"), ("xq", "xb"), ("zb", "z"), ("y", "xl")]),
                        "obj": r.choice([("at", "own"), ("own", "at")])}[cat]
                for n in pair:
                    if n not in fl:
                        fl.append(n)
                dep_target[j] = pair[0]

        def conds_for(pos_names, params, n_plain):
            out = [self.plain(fl, params) for _ in range(n_plain)]
            for op, pos in plants:
                if pos in pos_names:
                    out.append(self.featured(op, fl, params))
            return out

        def effs_for(where, params, n_plain, cond_pos=(), forall_cond_pos=()):
            out = []
            for _ in range(n_plain):
                e = self.eff(fl, params)
                if e:
                    out.append(e)
            for j, (kind, w) in enumerate(eff_plants):
                if w != where:
                    continue
                e = None
                if kind == "conditional":
                    e = self.eff(fl, params, cond=self.plain(fl, params))
                elif kind == "forall":
                    e = self.eff(fl, params, forall=True)
                elif kind == "forall-conditional":
                    e = self.eff(fl, params, forall=True, cond=self.plain(fl, params))
                elif kind in ("increase", "decrease"):
                    e = self.eff(fl, params, kind=kind)
                elif kind == "dependent":
                    e = self.eff(fl, params, dependent=True, target=dep_target.get(j))
                elif kind == "dependent-inc":
                    e = self.eff(fl, params, kind=r.choice(["increase", "decrease"]), dependent=True, target=dep_target.get(j))
                if e:
                    out.append(e)
            for op, pos in plants:
                if pos in cond_pos:
                    e = self.eff(fl, params, cond=self.featured(op, fl, params))
                    if e:
                        out.append(e)
                if pos in forall_cond_pos:
                    e = self.eff(fl, params, forall=True, cond=self.featured(op, fl, params, scope=()))
                    if e:
                        out.append(e)
            return out

        def ceffs_for(where, params):
            out = []
            reals = [n for n in fl if n in REALS]
            nums = [n for n in fl if n in REALS + (INTS if where == "process" else [])]
            for kind, w in eff_plants:
                if w == where and kind in ("cont-inc", "cont-dec") and nums:
                    n = r.choice(nums)
                    k = r.random()
                    v = ["i", "1"] if k < 0.5 else ["r", "1/2"] if k < 0.65 else self.fexp(r.choice(nums), params) if k < 0.9 else ["times", self.fexp(n, params), ["i", "2"]]
                    out.append(["ceff", "increase" if kind == "cont-inc" else "decrease", self.fexp(n, params), v])
            return out

        # instantaneous actions
        acts, sims = [], []
        n_i = r.choice([0, 1, 1, 2]) + (1 if need(("ipre", "ieffcond", "iforallcond")) or any(w == "iaction" for _, w in eff_plants) else 0)
        for i in range(min(n_i, 3)):
            ps = self.params(pk)
            first = i == 0
            pre = conds_for(("ipre",) if first else (), ps, r.choice([0, 1, 1, 2]))
            effs = effs_for("iaction" if first else "-", ps, r.choice([1, 1, 2]), ("ieffcond",) if first else (), ("iforallcond",) if first else ())
            acts.append(["action", f"a{i}", ps, ["pre"] + pre, ["effs"] + effs])
            if r.random() < 0.05:
                sims.append([f"a{i}", self.fexp(r.choice(fl), ps)])
        # durative actions
        dacts = []
        dpos = ("dcond-start", "dcond-overall", "dcond-inter", "dcond-ext", "deffcond", "deffcond-inter")
        n_d = r.choice([0, 0, 1]) + (1 if need(dpos) or any(w.startswith("daction") for _, w in eff_plants) else 0)
        nums = [n for n in fl if n in INTS + REALS]
        for i in range(n_d):
            ps = self.params(pk)
            k = r.random()
            lo = hi = ["i", str(r.choice([1, 2, 5]))]
            if k < 0.15:
                hi = ["i", "9"]
            elif k < 0.25:
                lo = hi = ["r", "5/2"]
            elif k < 0.29:
                lo = hi = IFUN_INT + [["i", "2"]]
            elif k < 0.55 and nums:
                g = self.fexp(r.choice(nums), ps)
                lo = hi = g if r.random() < 0.5 else ["plus", g, ["i", "1"]]
                if r.random() < 0.3:
                    lo = ["i", "1"]
            conds = []
            first = i == 0
            for w, pos in (("start", "dcond-start"), ("overall", "dcond-overall"), ("inter", "dcond-inter"), ("ext", "dcond-ext")):
                for c in conds_for((pos,) if first else (), ps, 1 if (w in ("start", "overall") and r.random() < 0.4) else 0):
                    conds.append([self.interval(w), c])
            effs = []
            for w, where, cpos in (("start", "daction-start", ()), ("end", "daction-end", ("deffcond",)), ("inter", "daction-inter", ("deffcond-inter",))):
                for e in effs_for(where if first else "-", ps, 1 if (w == "end" and r.random() < 0.7) else 0, cpos if first else ()):
                    effs.append([self.timing(w), e])
            ceffs = []
            for where, w in (("daction-start", "overall"), ("daction-inter", "inter")):
                for ce in ceffs_for(where if first else "-", ps):
                    if ce[2][1][1][0] == "real":
                        ceffs.append([self.interval(w), ce])
            sim = []
            if r.random() < 0.04:
                sim.append([self.timing("end"), self.fexp(r.choice(fl), ps)])
            dacts.append(["daction", f"d{i}", ps, ["dur", lo, hi], ["conds"] + conds, ["effs"] + effs, ["ceffs"] + ceffs, ["sim"] + sim])
        # processes / events
        procs, evs = [], []
        if need(("ppre",)) or any(w == "process" for _, w in eff_plants) or r.random() < 0.1:
            ps = self.params(pk)
            ce = ceffs_for("process", ps)
            numsr = [n for n in fl if n in INTS + REALS]
            if not ce and numsr:
                ce = [["ceff", r.choice(["increase", "decrease"]), self.fexp(r.choice(numsr), ps), ["i", "1"]]]
            procs.append(["process", "pr0", ps, ["pre"] + conds_for(("ppre",), ps, r.choice([0, 1])), ["ceffs"] + ce])
        if need(("epre", "eeffcond")) or any(w == "event" for _, w in eff_plants) or r.random() < 0.1:
            ps = self.params(pk)
            evs.append(["event", "ev0", ps, ["pre"] + conds_for(("epre",), ps, r.choice([0, 1])),
                        ["effs"] + effs_for("event", ps, 1, ("eeffcond",))])
        # timed effects / goals
        teffs = [[self.timing("global"), e] for e in effs_for("timed", [], 1 if r.random() < 0.08 else 0, ("teffcond",))]
        tgoals = [[self.interval("global"), c] for c in conds_for(("tgoal",), [], 1 if r.random() < 0.08 else 0)]
        goals = conds_for(("goal",), [], r.choice([0, 1, 1, 2]))
        traj = []
        for op, pos in plants:
            if pos == "traj-always":
                traj.append(["always", self.featured(op, fl)])
            elif pos == "traj-sometime":
                traj.append([r.choice(["sometime", "at-most-once"]), self.featured(op, fl)])
        if r.random() < 0.08:
            traj.append(r.choice([["always", self.plain(fl)], ["sometime", self.plain(fl)],
                                  ["and", ["always", self.plain(fl)], ["always", self.plain(fl)]],
                                  ["sometime-before", self.plain(fl), self.plain(fl)]]))
        # metrics
        metrics, xm = [], []
        ov = [[self.featured(op, fl), r.choice(["1", "2", "5/2"])] for op, pos in plants if pos == "oversub"]
        tov = [[self.interval("global"), self.featured(op, fl), r.choice(["1", "3", "7/2"])] for op, pos in plants if pos == "toversub"]
        k = r.random()
        if ov or k < 0.05:
            metrics.append(["oversub", ov + [[self.plain(fl), r.choice(["1", "3/2"])]]])
        elif tov or k < 0.08:
            xm.append(["toversub", tov + [[self.interval("global"), self.plain(fl), "2"]]])
        elif k < 0.14 and acts:
            costs = []
            for a in acts:
                if r.random() < 0.8:
                    c = r.choice([["i", "1"], ["i", "3"], ["r", "1/2"]])
                    if nums and r.random() < 0.6:
                        g = self.fexp(r.choice(nums), a[2])
                        c = g if r.random() < 0.5 else ["plus", g, ["i", "1"]]
                    costs.append([a[1], c])
            metrics.append(["min-action-costs", costs, r.choice(["_", ["i", "1"], ["r", "1/2"]])])
        elif k < 0.18:
            metrics.append(["min-length"])
        elif k < 0.24 and nums:
            g = self.fexp(r.choice(nums))
            metrics.append([r.choice(["min-final", "max-final"]),
                            r.choice([g, ["plus", g, ["i", "1"]], ["times", g, g], ["minus", ["i", "0"], g], ["times", ["i", "-2"], g]])])
        elif k < 0.28:
            xm.append(["makespan"])
        # fluents, defaults, initial values
        fluents, init = [], []
        objects = ALL_OBJECTS if r.random() < 0.85 else r.choice([[], [["u1", "U"]], [["t1", "T"]], [["s1", "S"], ["u1", "U"]]])
        for n in fl:
            ref = POOL[n]
            k = r.random()
            if k < 0.75:
                fluents.append([ref, self.const_for(ref)])
            elif k < 0.87:
                fluents.append([ref, "_"])       # undefined
            else:
                fluents.append([ref, "_"])
                grounds = self.ground_args(ref, objects)
                if r.random() < 0.35 and len(grounds) > 1:
                    grounds = grounds[:-1]   # partially defined
                for args in grounds:
                    init.append([["fl", ref] + args, self.const_for(ref)])
        base = ["problem", "p", ["types"] + TYPES, ["objects"] + objects,
                ["fluents"] + fluents, ["init"] + init, ["actions"] + acts, ["goals"] + goals, ["traj"] + traj, ["metrics"] + metrics]
        flags = ["flags", "T" if r.random() < 0.1 else "F", "T" if r.random() < 0.1 else "F"]
        return ["kp", base, ["dactions"] + dacts, ["processes"] + procs, ["events"] + evs, ["teffs"] + teffs, ["tgoals"] + tgoals,
                ["xmetrics"] + xm, flags, ["sim"] + sims]

    def const_for(self, ref):
        r = self.r
        ty = ref[1]
        if ty == "bool":
            return ["b", r.choice(["T", "F"])]
        if ty[0] == "int":
            lo = int(ty[1]) if ty[1] != "_" else -1
            hi = int(ty[2]) if ty[2] != "_" else 3
            return ["i", str(r.randint(lo, hi))]
        if ty[0] == "real":
            return r.choice([["i", "0"], ["i", "1"], ["r", "1/2"]])
        o, t = r.choice(OBJS[ty[1]])
        return ["o", o, t]

    def ground_args(self, ref, objects):
        from itertools import product
        fathers = {n: f for n, f in TYPES}

        def sub(t, u):
            while t != "_":
                if t == u:
                    return True
                t = fathers[t]
            return False
        doms = []
        for t in ref[2]:
            if t == "bool":
                doms.append([["b", "T"], ["b", "F"]])
            elif t[0] == "int":
                doms.append([["i", str(v)] for v in range(int(t[1]), int(t[2]) + 1)])
            else:
                doms.append([["o", o, ot] for o, ot in objects if sub(ot, t[1])])
        return [list(c) for c in product(*doms)]


# ================================================================================================
# 3b. generators for the problem subclasses
# ================================================================================================

def _tm(kind, container="", delay="0"):
    return ["timing", f"{kind}|{container}|{delay}"]


def _prec(a, b):
    return ["lt", _tm("end", a), _tm("start", b)]


class XGen(KGen):
    """hierarchical / contingent / scheduling / multi-agent problems around KGen's material"""

    # ---- shared pieces ---------------------------------------------------------------------
    def xparams(self, prefix="p", kinds=("user",) * 6 + ("bool", "bint", "uint", "real"), n=None):
        out = []
        r = self.r
        for j in range(r.choice([0, 1, 1, 2]) if n is None else n):
            k = r.choice(kinds)
            ty = {"user": lambda: U(r.choice(["T", "S", "S", "U"])), "bool": lambda: "bool",
                  "bint": lambda: ["int", "0", "3"], "uint": lambda: r.choice([INT, ["int", "0", "_"]]),
                  "real": lambda: r.choice([REAL, ["real", "0", "1"]])}[k]()
            out.append([f"{prefix}{j}", ty])
        return out

    def arg_for(self, ty, params, fl, plant_fluent=False):
        """an argument expression for a task / action parameter of type ty"""
        r = self.r
        if plant_fluent:
            cands = [n for n in fl if POOL[n][1] == ty or (ty[0] in ("int", "real") and POOL[n][1][0] == ty[0])]
            if cands:
                return self.fexp(r.choice(cands), params)
        if ty == "bool" or ty[0] == "user" or (ty[0] == "int" and ty[1] != "_" and ty[2] != "_"):
            return self.term(ty, params, ())
        if ty[0] == "int":
            return ["i", str(r.choice([0, 1, 2]))]
        return r.choice([["i", "1"], ["r", "1/2"]])

    def static_atom(self, params):
        """a Boolean expression without fluents over parameters and objects"""
        r = self.r
        bools = [p for p in params if p[1] == "bool"]
        if bools and r.random() < 0.3:
            p = r.choice(bools)
            return ["p", p[0], p[1]]
        users = [p for p in params if p[1][0] == "user"]
        if users:
            p = r.choice(users)
            t = p[1]
            other = self.term(t, [q for q in params if q != p], ())
            return ["eq", ["p", p[0], t], other]
        return ["le", ["i", str(r.choice([0, 1]))], ["i", "1"]]

    def static_plain(self, params):
        """feature-free static constraint (no equality, negation, …): a Boolean parameter or a numeric comparison"""
        r = self.r
        bools = [p for p in params if p[1] == "bool"]
        if bools and r.random() < 0.5:
            p = r.choice(bools)
            return ["p", p[0], p[1]]
        nums = [p for p in params if p[1][0] in ("int", "real")]
        if nums:
            p = r.choice(nums)
            return [r.choice(["le", "lt"]), ["p", p[0], p[1]], ["i", str(r.choice([1, 2, 3]))]]
        return ["lt", ["i", "0"], ["i", str(r.choice([1, 2]))]]

    def static_featured(self, op, params):
        """a static constraint whose feature-bearing operator is `op`"""
        r = self.r
        a, b = self.static_plain(params), self.static_plain(params)
        users = [p for p in params if p[1][0] == "user"]
        if op == "not":
            return ["not", a]
        if op == "or":
            return ["or", a, b]
        if op == "implies":
            return ["implies", a, b]
        if op == "iff":
            return ["iff", a, b]
        if op in ("eq-num", "ifun"):
            return ["eq", ["i", "1"], ["i", str(r.choice([1, 2]))]]
        if op == "eq-obj":
            t = r.choice(["T", "S", "U"])
            return ["eq", self.term(U(t), params, ()), self.term(U(t), params, ())]
        if op in ("exists", "forall"):
            t = r.choice(["T", "S", "U"])
            v = ["v", "qs", U(t)]
            body = ["eq", v, self.term(U(t), params, ())]
            if r.random() < 0.3:
                body = ["and", body, a]
            return [op, [["qs", U(t)]], body]
        inner = self.static_featured(r.choice(["not", "or", "implies", "eq-obj", "exists", "forall"]), params)
        return ["and", a, ["and", b, inner]]

    def temporal(self, ids, mode, params, op=None):
        """temporal constraints over the subtask / activity identifiers `ids`"""
        r = self.r
        if len(ids) < 2 or mode == "none":
            return []
        chain = [_prec(ids[i], ids[i + 1]) for i in range(len(ids) - 1)]
        if mode == "total":
            return chain
        if mode == "total-extra":      # a total order with a redundant precedence
            return chain + ([_prec(ids[0], ids[-1])] if len(ids) > 2 else [])
        if mode == "partial":
            return chain[:-1] if len(ids) > 2 else []
        if mode == "fork" and len(ids) > 2:
            return [_prec(ids[0], ids[1]), _prec(ids[0], ids[2])]
        if mode == "delay":
            return chain[:-1] + [["lt", _tm("end", ids[-2], r.choice(["1", "3/2"])), _tm("start", ids[-1])]]
        if mode == "le":
            return chain[:-1] + [["le", _tm("end", ids[-2]), _tm("start", ids[-1])]]
        if mode == "start-start":
            return [["lt", _tm("start", ids[0]), _tm("start", ids[1])]] + chain[1:]
        if mode == "after-break":      # a non-precedence first, precedences after it
            return [["lt", _tm("end", ids[0], "1"), _tm("start", ids[1])]] + chain[1:]
        if mode == "mixed":            # a feature-bearing operator inside a constraint that also mentions time
            f = self.static_featured(op or r.choice(["not", "or", "eq-obj", "exists"]), params)
            return chain[:-1] + [r.choice([["or", chain[-1], f], ["and", chain[-1], f], ["implies", f, chain[-1]]])]
        if mode == "disj":
            return [["or", _prec(ids[0], ids[1]), _prec(ids[1], ids[0])]]
        return chain

    TMODES = ["none", "total", "total", "total-extra", "partial", "fork", "delay", "le", "start-start", "after-break", "mixed", "disj"]

    def base_kp(self):
        return sanitize(self.problem())

    # ---- hierarchical ----------------------------------------------------------------------
    def hier(self):
        r = self.r
        kp = self.base_kp()
        if kp is None:
            return None
        fl = [f[0][0] for f in upp.get(kp[1], "fluents")]
        acts = [(a[1], a[2]) for a in upp.get(kp[1], "actions")] + [(d[1], d[2]) for d in sec(kp, "dactions")]
        plants = [(r.choice(FEATURE_OPS), r.choice(["mpre", "mcons", "mtemp", "tncons", "tntemp"])) for _ in range(r.choice([0, 1, 1, 2]))]
        tasks = []
        for i in range(r.choice([1, 1, 2])):
            tasks.append([f"tk{i}", self.xparams("u")])
        targets = [(t[0], t[1]) for t in tasks] + acts

        def subtasks(prefix, params, n):
            out = []
            for j in range(n):
                name, ps = r.choice(targets)
                out.append([f"{prefix}{j}", name] + [self.arg_for(pt, params, fl, plant_fluent=r.random() < 0.15) for _, pt in ps])
            return out
        methods = []
        for i in range(r.choice([0, 1, 1, 2])):
            t = r.choice(tasks)
            params = [list(p) for p in t[1]] + self.xparams("w")
            pre = [self.plain(fl, params) for _ in range(r.choice([0, 0, 1]))]
            sts = subtasks("s", params, r.choice([0, 1, 2, 2, 3]))
            ids = [s[0] for s in sts]
            cons = [self.static_plain(params) for _ in range(1 if r.random() < 0.2 else 0)]
            mode = r.choice(self.TMODES)
            for op, pos in plants:
                if i == 0 and pos == "mpre":
                    pre.append(self.featured(op, fl, params))
                elif i == 0 and pos == "mcons":
                    cons.append(self.static_featured(op, params))
                elif i == 0 and pos == "mtemp":
                    cons += self.temporal(ids, "mixed", params, op if op != "ifun" else None)
                    mode = "none"
            cons += self.temporal(ids, mode, params)
            methods.append(["method", f"m{i}", params, ["task", t[0]] + [p[0] for p in t[1]], ["pre"] + pre, ["subtasks"] + sts,
                            ["constraints"] + cons])
        tvars = self.xparams("v", n=r.choice([0, 0, 1, 2]))
        sts = subtasks("t", tvars, r.choice([0, 1, 1, 2, 3]))
        ids = [s[0] for s in sts]
        cons = [self.static_plain(tvars) for _ in range(1 if r.random() < 0.15 else 0)]
        mode = r.choice(self.TMODES)
        for op, pos in plants:
            if pos == "tncons":
                cons.append(self.static_featured(op, tvars))
            elif pos == "tntemp":
                cons += self.temporal(ids, "mixed", tvars, op if op != "ifun" else None)
                mode = "none"
        cons += self.temporal(ids, mode, tvars)
        return ["hp", kp, ["tasks"] + tasks, ["methods"] + methods, ["tn", ["vars"] + tvars, ["subtasks"] + sts, ["constraints"] + cons]]

    def hier_special(self):
        """a feature used in exactly one position of the hierarchical part of an otherwise featureless problem"""
        r = self.r
        b, x = POOL["b0"], POOL[r.choice(["x", "xb", "z"])]
        set_b = ["eff", "assign", ["fl", b], ["b", "T"], TRUE, []]
        acts = [["action", "a0", [], ["pre"], ["effs", set_b]]]
        fluents = [[b, ["b", "F"]]]
        metrics = []
        t = U(r.choice(["S", "S", "U", "T"]))
        where = r.choice(["task-param", "method-param", "tn-var", "subtask-arg-cost", "subtask-arg-duration", "tn-subtask-arg",
                          "mpre-op", "mcons-op", "mtemp-op", "tncons-op", "tntemp-op"])
        tparams, mparams, tvars, pre, mcons, tcons, dacts = [], [], [], [], [], [], []
        op = r.choice(["not", "or", "implies", "eq-obj", "exists", "forall"])
        ids = ["s0", "s1"]
        msts = [["s0", "a0"], ["s1", "a0"]]
        tsts = [["t0", "tk0"], ["t1", "a0"]]
        objects = []
        if where == "task-param":
            tparams = [["u0", t]]
        elif where == "method-param":
            mparams = [["w0", t]]
        elif where == "tn-var":
            tvars = [["v0", t]]
        elif where in ("subtask-arg-cost", "subtask-arg-duration", "tn-subtask-arg"):
            fluents.append([x, ["i", "0"]])
            tparams = [["u0", x[1]]]
            if where == "subtask-arg-duration":
                dacts = [["daction", "d0", [], ["dur", ["fl", x], ["fl", x]], ["conds"], ["effs", [["at", "end", "0"], set_b]], ["ceffs"], ["sim"]]]
            else:
                metrics = [["min-action-costs", [["a0", ["plus", ["fl", x], ["i", "1"]]]], "_"]]
            if where == "tn-subtask-arg":
                tsts = [["t0", "tk0", ["fl", x]], ["t1", "a0"]]
            else:
                msts = [["s0", "tk0", ["fl", x]], ["s1", "a0"]]
        elif where == "mpre-op":
            pre = [self.featured(op if op != "eq-obj" else "not", ["b0"], [])]
        elif where == "mcons-op":
            mparams = [["w0", "bool"], ["w1", "bool"]]
            mcons = [self.static_featured(op, mparams)]
        elif where == "mtemp-op":
            mparams = [["w0", "bool"], ["w1", "bool"]]
            mcons = self.temporal(ids, "mixed", mparams, op)
        elif where == "tncons-op":
            tvars = [["v0", "bool"], ["v1", "bool"]]
            tcons = [self.static_featured(op, tvars)]
        else:
            tvars = [["v0", "bool"], ["v1", "bool"]]
            tcons = self.temporal(["t0", "t1"], "mixed", tvars, op)
        mp = [list(p) for p in tparams] + mparams
        if tparams and where != "tn-subtask-arg":
            tsts = [["t0", "a0"], ["t1", "a0"]]      # tk0 takes an argument: the initial network only uses the action
        base = ["problem", "p", ["types"] + TYPES, ["objects"] + objects, ["fluents"] + fluents, ["init"], ["actions"] + acts,
                ["goals"], ["traj"], ["metrics"] + metrics]
        kp = ["kp", base, ["dactions"] + dacts, ["processes"], ["events"], ["teffs"], ["tgoals"], ["xmetrics"], ["flags", "F", "F"], ["sim"]]
        methods = [["method", "m0", mp, ["task", "tk0"] + [p[0] for p in tparams], ["pre"] + pre, ["subtasks"] + msts, ["constraints"] + mcons]]
        return ["hp", kp, ["tasks", ["tk0", tparams]], ["methods"] + methods, ["tn", ["vars"] + tvars, ["subtasks"] + tsts, ["constraints"] + tcons]]

    # ---- contingent ------------------------------------------------------------------------
    def cont(self):
        r = self.r
        kp = self.base_kp()
        if kp is None:
            return None
        fl = [f[0][0] for f in upp.get(kp[1], "fluents")]
        bools = [n for n in fl if n in BOOLS]
        acts = upp.get(kp[1], "actions")
        sensing = []
        for a in acts:
            if r.random() < 0.5 and bools:
                k = r.random()
                obs = [self.fexp(r.choice(bools), a[2]) for _ in range(r.choice([1, 1, 2]))]
                nums = [n for n in fl if n in INTS + REALS]
                if k < 0.15 and nums:
                    obs.append(self.fexp(r.choice(nums), a[2]))
                sensing.append([a[1]] + obs)
        ors, ones = [], []
        for _ in range(r.choice([0, 0, 1, 2])):
            lits = [self.fexp(r.choice(bools), []) for _ in range(r.choice([2, 2, 3]))]
            k = r.random()
            if k < 0.3:
                ors.append([["not", lits[0]], lits[0]])           # add_unknown_initial_constraint
            elif k < 0.65:
                ors.append(lits)
            else:
                ones.append(lits)
        return ["cp", kp, ["sensing"] + sensing, ["or"] + ors, ["oneof"] + ones]

    def cont_special(self):
        """a numeric fluent read only in an action cost (or a duration) and in ONE position of the contingent part"""
        r = self.r
        b, x = POOL["b0"], POOL[r.choice(["x", "xb", "z", "zb"])]
        fx = ["fl", x]
        set_b = ["eff", "assign", ["fl", b], ["b", "T"], TRUE, []]
        acts = [["action", "a0", [], ["pre"], ["effs", set_b]], ["action", "sense", [], ["pre"], ["effs"]]]
        where = r.choice(["observed", "or", "oneof", "none"])
        dacts, metrics = [], []
        if r.random() < 0.5:
            metrics = [["min-action-costs", [["a0", ["plus", fx, ["i", "1"]]]], "_"]]
        else:
            dacts = [["daction", "d0", [], ["dur", fx, fx], ["conds"], ["effs", [["at", "end", "0"], set_b]], ["ceffs"], ["sim"]]]
        cmpx = ["le", fx, ["i", "2"]]
        sensing = [["sense", ["fl", b]] + ([fx] if where == "observed" else [])]
        ors = [[["fl", b], cmpx]] if where == "or" else []
        ones = [[["fl", b], cmpx]] if where == "oneof" else []
        base = ["problem", "p", ["types"] + TYPES, ["objects"], ["fluents", [b, ["b", "F"]], [x, ["i", "0"]]], ["init"], ["actions"] + acts,
                ["goals"], ["traj"], ["metrics"] + metrics]
        kp = ["kp", base, ["dactions"] + dacts, ["processes"], ["events"], ["teffs"], ["tgoals"], ["xmetrics"], ["flags", "F", "F"], ["sim"]]
        return ["cp", kp, ["sensing"] + sensing, ["or"] + ors, ["oneof"] + ones]

    # ---- scheduling ------------------------------------------------------------------------
    RES = ["res", ["int", "0", "5"], []]

    def sched(self):
        r = self.r
        fl = self.pick_fluents()
        plants = [(r.choice(FEATURE_OPS), r.choice(["acond", "acons", "ascope", "aeffcond", "bcond", "bcons", "bscope", "beffcond", "oversub"]))
                  for _ in range(r.choice([0, 1, 1, 2]))]
        eff_plants = [(r.choice(["conditional", "forall", "increase", "decrease", "dependent", "dependent", "dependent-inc"]),
                       r.choice(["act-start", "act-end", "act-inter", "act-ext", "base"])) for _ in range(r.choice([0, 1, 1, 2]))]
        for kind, _ in eff_plants:
            if kind.startswith("dependent"):
                for n in r.choice([("x", "y"), ("z", "x"), ("xq", "xb"), ("b0", "b1"), ("at", "own")]):
                    if n not in fl:
                        fl.append(n)
        use_res = r.random() < 0.5
        nums = [n for n in fl if n in INTS + REALS]

        def scoped(c, names, plant_scope=None):
            k = r.random()
            scope = []
            if names and k < 0.35:
                scope = [["present", r.choice(names)]]
            if plant_scope is not None and names:
                p = ["present", r.choice(names)]
                scope = [{"not": ["not", p], "or": ["or", p, ["present", names[0]]], "implies": ["implies", p, ["present", names[0]]]}.get(plant_scope, ["not", p])]
            return [c, scope]

        def effs(where, params, n_plain):
            out = []
            for _ in range(n_plain):
                e = self.eff(fl, params)
                if e:
                    out.append(e)
            for kind, w in eff_plants:
                if w != where:
                    continue
                e = None
                if kind == "conditional":
                    e = self.eff(fl, params, cond=self.plain(fl, params))
                elif kind == "forall":
                    e = self.eff(fl, params, forall=True)
                elif kind in ("increase", "decrease"):
                    e = self.eff(fl, params, kind=kind)
                elif kind == "dependent":
                    e = self.eff(fl, params, dependent=True)
                else:
                    e = self.eff(fl, params, kind=r.choice(["increase", "decrease"]), dependent=True)
                if e:
                    out.append(e)
            return out
        n_act = r.choice([1, 1, 2, 3])
        names = [f"a{i}" for i in range(n_act)]
        optional = [r.random() < 0.3 for _ in names]
        opt_names = [n for n, o in zip(names, optional) if o]
        acts = []
        for i, name in enumerate(names):
            ps = [[f"{name}.{pn}", pt] for pn, pt in self.xparams("q")]
            k = r.random()
            lo = hi = ["i", str(r.choice([0, 1, 2, 5]))]
            if k < 0.15:
                hi = ["i", "9"]
            elif k < 0.2:
                lo = hi = ["r", "5/2"]
            elif k < 0.5 and nums:
                g = self.fexp(r.choice(nums), ps)
                lo = hi = g if r.random() < 0.5 else ["plus", g, ["i", "1"]]
                if r.random() < 0.3:
                    lo = ["i", "1"]
            first = i == 0
            conds, aeffs, cons = [], [], []
            for w in ("start", "overall", "inter", "ext"):
                if r.random() < (0.3 if w in ("start", "overall") else 0.1):
                    conds.append([self.interval(w), self.plain(fl, ps)])
            for w, where in (("start", "act-start"), ("end", "act-end"), ("inter", "act-inter"), ("ext", "act-ext")):
                for e in effs(where if first else "-", ps, 1 if (w == "end" and r.random() < 0.5) else 0):
                    aeffs.append([self.timing(w), e])
            if use_res and r.random() < 0.7:      # Activity.uses(resource, amount)
                amt = ["i", str(r.choice([1, 2]))]
                aeffs.append([["at", "start", "0"], ["eff", "decrease", ["fl", self.RES], amt, TRUE, []]])
                aeffs.append([["at", "end", "0"], ["eff", "increase", ["fl", self.RES], amt, TRUE, []]])
            if r.random() < 0.3:
                cons.append(scoped(["le", ["i", str(r.choice([0, 3]))], _tm("start", name)], [name] if optional[i] else []))
            if r.random() < 0.2 and i > 0:
                cons.append(scoped(["le", _tm("end", names[i - 1]), _tm("start", name)], opt_names))
            for op, pos in plants:
                if not first:
                    continue
                if pos == "acond":
                    conds.append([self.interval(r.choice(["start", "overall", "inter"])), self.featured(op, fl, ps)])
                elif pos == "acons":
                    cons.append(scoped(self.static_featured(op, ps), opt_names))
                elif pos == "ascope":
                    cons.append(scoped(self.static_plain(ps), names, plant_scope=op))
                elif pos == "aeffcond":
                    e = self.eff(fl, ps, cond=self.featured(op, fl, ps))
                    if e:
                        aeffs.append([self.timing(r.choice(["start", "end"])), e])
            acts.append(["activity", name, "T" if optional[i] else "F", ps, ["dur", lo, hi], ["conds"] + conds, ["effs"] + aeffs,
                         ["constraints"] + cons])
        bvars = self.xparams("bv", n=r.choice([0, 0, 0, 1, 2]))
        bconds = [[self.interval("global"), self.plain(fl)] for _ in range(1 if r.random() < 0.15 else 0)]
        beffs = [[self.timing("global"), e] for e in effs("base", [], 1 if r.random() < 0.15 else 0)]
        bcons = [scoped(self.static_plain(bvars), opt_names) for _ in range(1 if r.random() < 0.2 else 0)]
        metrics, xm = [], []
        ov = []
        for op, pos in plants:
            if pos == "bcond":
                bconds.append([self.interval("global"), self.featured(op, fl)])
            elif pos == "bcons":
                bcons.append(scoped(self.static_featured(op, bvars), opt_names))
            elif pos == "bscope":
                bcons.append(scoped(self.static_plain(bvars), names, plant_scope=op))
            elif pos == "beffcond":
                e = self.eff(fl, [], cond=self.featured(op, fl))
                if e:
                    beffs.append([self.timing("global"), e])
            elif pos == "oversub":
                ov.append([self.featured(op, fl), r.choice(["1", "5/2"])])
        k = r.random()
        if ov:
            metrics.append(["oversub", ov])
        elif k < 0.3:
            xm.append(["makespan"])
        elif k < 0.4 and nums:
            g = self.fexp(r.choice(nums))
            metrics.append([r.choice(["min-final", "max-final"]), r.choice([g, ["plus", g, ["i", "1"]], ["times", g, g]])])
        elif k < 0.45:
            xm.append(["toversub", [[self.interval("global"), self.plain(fl), "2"]]])
        fluents, init = [], []
        objects = ALL_OBJECTS if r.random() < 0.85 else r.choice([[], [["u1", "U"]], [["s1", "S"], ["u1", "U"]]])
        for n in fl:
            ref = POOL[n]
            k = r.random()
            if k < 0.8:
                fluents.append([ref, self.const_for(ref)])
            else:
                fluents.append([ref, "_"])
                grounds = self.ground_args(ref, objects)
                if r.random() < 0.5:
                    if r.random() < 0.35 and len(grounds) > 1:
                        grounds = grounds[:-1]
                    for args in grounds:
                        init.append([["fl", ref] + args, self.const_for(ref)])
        if use_res:
            fluents.append([self.RES, ["i", "5"]])
        base = ["problem", "s", ["types"] + TYPES, ["objects"] + objects, ["fluents"] + fluents, ["init"] + init, ["actions"], ["goals"],
                ["traj"], ["metrics"] + metrics]
        return ["sp", base, ["xmetrics"] + xm, ["flags", "F" if r.random() < 0.15 else "T", "T" if r.random() < 0.1 else "F"],
                ["vars"] + bvars, ["conds"] + bconds, ["effs"] + beffs, ["constraints"] + bcons, ["activities"] + acts]

    def sched_special(self):
        """one feature in one position of an otherwise featureless scheduling problem"""
        r = self.r
        b = POOL["b0"]
        fluents = [[b, ["b", "F"]]]
        set_b = ["eff", "assign", ["fl", b], ["b", "T"], TRUE, []]
        where = r.choice(["resource-bounds", "static-duration", "dynamic-duration", "static-increase", "dynamic-increase", "var-subtype",
                          "var-bool", "var-int", "activity-param", "scope-not", "base-cons-op", "act-cons-op", "base-cond-op",
                          "act-effcond-op"])
        t = U(r.choice(["S", "U", "T"]))
        op = r.choice(["not", "or", "implies", "eq-obj", "exists", "forall"])
        bvars, bconds, beffs, bcons = [], [], [], []
        ps, dur, conds, effs, cons = [], ["dur", ["i", "2"], ["i", "2"]], [], [[["at", "end", "0"], set_b]], []
        d, w = POOL["xb"], POOL["y"]
        opt = "F"
        if where == "resource-bounds":
            fluents.append([self.RES, ["i", "5"]])
        elif where in ("static-duration", "dynamic-duration"):
            fluents.append([d, ["i", "2"]])
            dur = ["dur", ["fl", d], ["fl", d] if r.random() < 0.5 else ["plus", ["fl", d], ["i", "1"]]]
            if where == "dynamic-duration":
                beffs = [[["at", "gstart", "3"], ["eff", "assign", ["fl", d], ["i", "1"], TRUE, []]]]
        elif where in ("static-increase", "dynamic-increase"):
            fluents += [[d, ["i", "2"]], [w, ["i", "0"]]]
            effs.append([["at", "end", "0"], ["eff", "increase", ["fl", w], ["fl", d] if where == "static-increase" else ["fl", w], TRUE, []]])
        elif where == "var-subtype":
            bvars = [["bv0", t]]
        elif where == "var-bool":
            bvars = [["bv0", "bool"]]
        elif where == "var-int":
            bvars = [["bv0", r.choice([INT, ["int", "0", "3"], REAL])]]
        elif where == "activity-param":
            ps = [["a0.q0", r.choice([t, "bool", INT, ["int", "0", "3"]])]]
        elif where == "scope-not":
            opt = "T"
            cons = [[["le", ["i", "3"], _tm("start", "a0")], [["not", ["present", "a0"]]]]]
        elif where == "base-cons-op":
            bvars = [["bv0", "bool"], ["bv1", "bool"]]
            bcons = [[self.static_featured(op, bvars), []]]
        elif where == "act-cons-op":
            ps = [["a0.q0", "bool"], ["a0.q1", "bool"]]
            cons = [[self.static_featured(op, ps), []]]
        elif where == "base-cond-op":
            bconds = [[self.interval("global"), self.featured(op if op != "eq-obj" else "not", ["b0"])]]
        else:
            effs = [[["at", "end", "0"], ["eff", "assign", ["fl", b], ["b", "T"], self.featured(op if op != "eq-obj" else "or", ["b0"]), []]]]
        acts = [["activity", "a0", opt, ps, dur, ["conds"] + conds, ["effs"] + effs, ["constraints"] + cons]]
        base = ["problem", "s", ["types"] + TYPES, ["objects"], ["fluents"] + fluents, ["init"], ["actions"], ["goals"], ["traj"], ["metrics"]]
        return ["sp", base, ["xmetrics"], ["flags", "T", "F"], ["vars"] + bvars, ["conds"] + bconds, ["effs"] + beffs,
                ["constraints"] + bcons, ["activities"] + acts]

    # ---- multi-agent -----------------------------------------------------------------------
    def ma(self, seen_only=True):
        """seen_only: keep out of the positions MultiAgentProblem.kind never looks at (finding D-C10-MA)"""
        r = self.r
        pool = [n for n in POOL if seen_only is False or not any(t == "bool" or t[0] == "int" for t in POOL[n][2])]
        env_names = r.sample(pool, r.choice([0, 1, 1, 2]))
        plants = [(r.choice([o for o in FEATURE_OPS if o != "ifun"]), r.choice(["pre", "effcond", "public", "private", "goal", "dcond"]))
                  for _ in range(r.choice([0, 1, 1, 2]))]
        agents, used_types = [], set()
        n_ag = r.choice([1, 2, 2, 3])
        all_fl = list(env_names)
        ag_fl = []
        for i in range(n_ag):
            mine = [r.choice(["b0", "b1"])] + r.sample([n for n in pool if n not in env_names], r.choice([0, 1, 2]))
            mine = [n for j, n in enumerate(mine) if n not in mine[:j] and n not in env_names]
            ag_fl.append(mine)
        for i in range(n_ag):
            fl = ag_fl[i] + env_names
            first = i == 0
            acts, dacts, pub, priv = [], [], [], []
            pk = ("user",) if seen_only else ("user",) * 4 + ("bool", "bint", "uint", "real")
            for j in range(r.choice([0, 1, 1, 2])):
                ps = self.xparams("p", kinds=pk)
                pre = [self.plain(fl, ps) for _ in range(r.choice([0, 1, 1]))]
                effs = []
                for _ in range(r.choice([1, 1, 2])):
                    k = r.random()
                    e = None
                    if k < 0.4:
                        e = self.eff(fl, ps)
                    elif k < 0.52:
                        e = self.eff(fl, ps, cond=self.plain(fl, ps))
                    elif k < 0.6:
                        e = self.eff(fl, ps, forall=True)
                    elif k < 0.72:
                        # the effect attributes are independent: conditional AND forall (AND increase/decrease) in ONE effect, so that
                        # a feature reported through an if/elif chain over the attributes is seen (seeded change C10-2)
                        e = self.eff(fl, ps, forall=True, cond=self.plain(fl, ps),
                                     kind=r.choice([None, None, "increase", "decrease"]))
                    elif k < 0.78:
                        e = self.eff(fl, ps, cond=self.plain(fl, ps), kind=r.choice(["increase", "decrease"]))
                    elif k < 0.9:
                        e = self.eff(fl, ps, kind=r.choice(["increase", "decrease"]))
                    elif not seen_only:
                        e = self.eff(fl, ps, dependent=True)
                    if e:
                        effs.append(e)
                for op, pos in plants:
                    if first and j == 0 and pos == "pre":
                        pre.append(self.featured(op, fl, ps))
                    if first and j == 0 and pos == "effcond":
                        e = self.eff(fl, ps, cond=self.featured(op, fl, ps))
                        if e:
                            effs.append(e)
                acts.append(["action", f"act{j}", ps, ["pre"] + pre, ["effs"] + effs])
            if (not seen_only and r.random() < 0.4) or (first and any(pos == "dcond" for _, pos in plants) and not seen_only):
                ps = self.xparams("p", kinds=pk)
                nums = [n for n in fl if n in INTS + REALS]
                lo = hi = ["i", str(r.choice([1, 2]))]
                if nums and r.random() < 0.4:
                    lo = hi = self.fexp(r.choice(nums), ps)
                conds = [[self.interval("start"), self.plain(fl, ps)]]
                for op, pos in plants:
                    if pos == "dcond":
                        conds.append([self.interval(r.choice(["start", "overall"])), self.featured(op, fl, ps)])
                deffs = []
                e = self.eff(fl, ps, kind=r.choice([None, None, "increase"]), cond=r.choice([None, self.plain(fl, ps)]))
                if e:
                    deffs.append([self.timing(r.choice(["start", "end"])), e])
                dacts.append(["daction", "dact", ps, ["dur", lo, hi], ["conds"] + conds, ["effs"] + deffs, ["ceffs"], ["sim"]])
            elif seen_only and r.random() < 0.1:
                # an empty durative action: only CONTINUOUS_TIME can come from it
                dacts.append(["daction", "dact", [], ["dur", ["i", "1"], ["i", "1"]], ["conds"], ["effs"], ["ceffs"], ["sim"]])
            for op, pos in plants:
                if first and pos == "public":
                    pub.append(self.featured(op, fl))
                if first and pos == "private":
                    priv.append(self.featured(op, fl))
            if r.random() < 0.2:
                pub.append(self.plain(fl))
            if r.random() < 0.2:
                priv.append(self.plain(fl))
            agents.append(["agent", f"ag{i}", ["fluents"] + [[POOL[n], self.const_for(POOL[n])] for n in ag_fl[i]], ["actions"] + acts,
                           ["dactions"] + dacts, ["public"] + pub, ["private"] + priv])
        goals = []
        for i in range(n_ag):
            if r.random() < 0.5:
                bs = [n for n in ag_fl[i] if n in BOOLS]
                if bs:
                    goals.append(["dot", f"ag{i}", self.fexp(r.choice(bs))])
        envb = [n for n in env_names if n in BOOLS]
        if envb and r.random() < 0.5:
            goals.append(self.fexp(r.choice(envb)))
        for op, pos in plants:
            if pos == "goal":
                goals.append(self.featured(op, ag_fl[0] + env_names))
        objects = ALL_OBJECTS if r.random() < 0.85 else r.choice([[], [["u1", "U"]], [["s1", "S"], ["u1", "U"]]])
        payload = ["map", ["types"] + TYPES, ["objects"] + objects,
                   ["env"] + [[POOL[n], self.const_for(POOL[n])] for n in env_names], ["agents"] + agents, ["goals"] + goals]
        if seen_only:
            # objects are a position the kind never scans: keep only objects whose type a fluent or a parameter has itself
            seen = set()
            refs = [POOL[n] for n in env_names] + [POOL[n] for fls in ag_fl for n in fls]
            for ref in refs:
                seen.update(t[1] for t in [ref[1]] + ref[2] if t[0] == "user")
            for ag in agents:
                for a in ag[3][1:] + ag[4][1:]:
                    seen.update(pt[1] for _, pt in a[2] if pt[0] == "user")
            payload[2] = ["objects"] + [o for o in objects if o[1] in seen]
        return payload


def sanitize(payload):
    """drop the elements the library's constructors reject (conflicting effects, ill-typed random pieces …), so that the
    payload describes exactly the problem that gets built; returns None when the base problem itself is rejected"""
    def ok(p):
        try:
            build(p)
            return True
        except Exception:
            return False
    if ok(payload):
        return payload
    p = sexp.loads(sexp.dumps(payload))
    # try dropping single elements greedily
    for _ in range(40):
        done = False
        for cand in _all_drops(p):
            if ok(cand):
                return cand
        # nothing single fixes it: drop the first droppable element and continue
        nxt = next(_all_drops(p), None)
        if nxt is None:
            return None
        p = nxt
    return None


XDROP_HEADS = {"methods", "pre", "subtasks", "constraints", "sensing", "or", "oneof", "vars", "conds", "effs", "activities",
               "agents", "actions", "dactions", "public", "private", "goals", "env", "xmetrics", "metrics", "init", "tasks"}


def _tree_drops(x, heads):
    """copies of the tree x with one child of one list whose head is in `heads` removed (outermost lists first)"""
    if not isinstance(x, list):
        return
    if x and isinstance(x[0], str) and x[0] in heads:
        for j in range(1, len(x)):
            yield x[:j] + x[j + 1:]
    for i, c in enumerate(x):
        if isinstance(c, list):
            for nc in _tree_drops(c, heads):
                yield x[:i] + [nc] + x[i + 1:]


def _all_drops(p):
    """payloads with one element removed, for every payload form"""
    if p[0] == "kp":
        yield from _drops(p)
    elif p[0] in ("hp", "cp"):
        for i in range(2, len(p)):
            for nc in _tree_drops(p[i], XDROP_HEADS):
                yield p[:i] + [nc] + p[i + 1:]
        for nk in _drops(p[1]):
            yield [p[0], nk] + p[2:]
    else:
        for i in range(1, len(p)):
            for nc in _tree_drops(p[i], XDROP_HEADS):
                yield p[:i] + [nc] + p[i + 1:]


def _drops(p):
    """payloads with one element removed (sections of the extension, then of the base problem, then inside actions)"""
    for si in range(2, len(p)):
        s = p[si]
        if s[0] in ("dactions", "processes", "events", "teffs", "tgoals", "xmetrics", "sim"):
            for j in range(1, len(s)):
                yield p[:si] + [s[:j] + s[j + 1:]] + p[si + 1:]
    base = p[1]
    for bi in range(3, len(base)):
        s = base[bi]
        if s[0] in ("init", "actions", "goals", "traj", "metrics"):
            for j in range(1, len(s)):
                nb = base[:bi] + [s[:j] + s[j + 1:]] + base[bi + 1:]
                yield [p[0], nb] + p[2:]
    # inside instantaneous actions: preconditions / effects
    acts = upp.get(base, "actions")
    for ai, a in enumerate(acts):
        for part in (3, 4):
            for j in range(1, len(a[part])):
                na = a[:part] + [a[part][:j] + a[part][j + 1:]] + a[part + 1:]
                nacts = ["actions"] + acts[:ai] + [na] + acts[ai + 1:]
                nb = [nacts if (isinstance(s, list) and s and s[0] == "actions") else s for s in base]
                yield [p[0], nb] + p[2:]
    # inside durative actions / processes / events
    for si in range(2, len(p)):
        s = p[si]
        if s[0] in ("dactions", "processes", "events"):
            for j in range(1, len(s)):
                el = s[j]
                for part in range(3, len(el)):
                    if isinstance(el[part], list) and el[part] and el[part][0] in ("conds", "effs", "ceffs", "sim", "pre"):
                        for k in range(1, len(el[part])):
                            ne = el[:part] + [el[part][:k] + el[part][k + 1:]] + el[part + 1:]
                            yield p[:si] + [s[:j] + [ne] + s[j + 1:]] + p[si + 1:]


# ================================================================================================
# 4. check interface
# ================================================================================================

STATEMENT_FEATURES = {
    "FLAT_TYPING", "HIERARCHICAL_TYPING", "INT_FLUENTS", "REAL_FLUENTS", "OBJECT_FLUENTS", "BOOL_FLUENT_PARAMETERS",
    "BOUNDED_INT_FLUENT_PARAMETERS", "BOOL_ACTION_PARAMETERS", "BOUNDED_INT_ACTION_PARAMETERS", "UNBOUNDED_INT_ACTION_PARAMETERS",
    "REAL_ACTION_PARAMETERS", "BOUNDED_TYPES", "NEGATIVE_CONDITIONS", "DISJUNCTIVE_CONDITIONS", "EQUALITIES",
    "EXISTENTIAL_CONDITIONS", "UNIVERSAL_CONDITIONS", "CONDITIONAL_EFFECTS", "FORALL_EFFECTS", "INCREASE_EFFECTS",
    "DECREASE_EFFECTS", "INCREASE_CONTINUOUS_EFFECTS", "DECREASE_CONTINUOUS_EFFECTS", "STATIC_FLUENTS_IN_BOOLEAN_ASSIGNMENTS",
    "STATIC_FLUENTS_IN_NUMERIC_ASSIGNMENTS", "STATIC_FLUENTS_IN_OBJECT_ASSIGNMENTS", "FLUENTS_IN_BOOLEAN_ASSIGNMENTS",
    "FLUENTS_IN_NUMERIC_ASSIGNMENTS", "FLUENTS_IN_OBJECT_ASSIGNMENTS", "STATIC_FLUENTS_IN_DURATIONS", "FLUENTS_IN_DURATIONS",
    "TIMED_EFFECTS", "TIMED_GOALS", "STATE_INVARIANTS", "TRAJECTORY_CONSTRAINTS", "ACTIONS_COST", "FINAL_VALUE", "MAKESPAN",
    "PLAN_LENGTH", "OVERSUBSCRIPTION", "TEMPORAL_OVERSUBSCRIPTION", "UNDEFINED_INITIAL_NUMERIC", "UNDEFINED_INITIAL_SYMBOLIC"}
BASIC = {"FLAT_TYPING", "HIERARCHICAL_TYPING", "INT_FLUENTS", "REAL_FLUENTS", "OBJECT_FLUENTS", "BOUNDED_TYPES"}


def special_typing(rng):
    """a subtype (or a flat type) that occurs in exactly ONE position of an otherwise untyped problem"""
    t = U(rng.choice(["S", "S", "U", "T"]))
    where = rng.choice(["object", "fluent-type", "fluent-param", "iaction-param", "daction-param", "process-param", "event-param",
                        "forall-iaction", "forall-daction", "forall-event", "forall-timed"])
    b = POOL["b0"]
    fluents = [[b, ["b", "F"]]]
    set_b = ["eff", "assign", ["fl", b], ["b", "T"], TRUE, []]
    objects, acts, dacts, procs, evs, teffs = [], [], [], [], [], []
    super_t = U("T") if t == U("S") else t           # the fluent parameter is declared on the supertype
    bq = ["bqq", "bool", [super_t]]
    fa = ["eff", "assign", ["fl", bq, ["v", "w", t]], ["b", "T"], TRUE, [["w", t]]]
    if where == "object":
        objects = [["o1", t[1]]]
    elif where == "fluent-type":
        fluents.append([["loc2", t, []], "_"])
    elif where == "fluent-param":
        fluents.append([["bp", "bool", [t]], ["b", "F"]])
    elif where == "iaction-param":
        acts = [["action", "a0", [["p0", t]], ["pre"], ["effs", set_b]]]
    elif where == "daction-param":
        dacts = [["daction", "d0", [["p0", t]], ["dur", ["i", "1"], ["i", "1"]], ["conds"], ["effs", [["at", "end", "0"], set_b]], ["ceffs"], ["sim"]]]
    elif where == "process-param":
        fluents.append([POOL["z"], ["i", "0"]])
        procs = [["process", "pr0", [["p0", t]], ["pre"], ["ceffs", ["ceff", "increase", ["fl", POOL["z"]], ["i", "1"]]]]]
    elif where == "event-param":
        evs = [["event", "ev0", [["p0", t]], ["pre", ["fl", b]], ["effs", set_b]]]
    else:
        fluents.append([bq, ["b", "F"]])
        if where == "forall-iaction":
            acts = [["action", "a0", [], ["pre"], ["effs", fa]]]
        elif where == "forall-daction":
            dacts = [["daction", "d0", [], ["dur", ["i", "1"], ["i", "1"]], ["conds"], ["effs", [["at", rng.choice(["start", "end"]), "0"], fa]], ["ceffs"], ["sim"]]]
        elif where == "forall-event":
            evs = [["event", "ev0", [], ["pre", ["fl", b]], ["effs", fa]]]
        else:
            teffs = [[["at", "gstart", "2"], fa]]
    base = ["problem", "p", ["types"] + TYPES, ["objects"] + objects, ["fluents"] + fluents, ["init"], ["actions"] + acts,
            ["goals"], ["traj"], ["metrics"]]
    return ["kp", base, ["dactions"] + dacts, ["processes"] + procs, ["events"] + evs, ["teffs"] + teffs, ["tgoals"], ["xmetrics"],
            ["flags", "F", "F"], ["sim"]]


def special_unused(rng):
    """a numeric fluent that occurs in a duration (or an action cost) and in exactly ONE other read position"""
    n = POOL[rng.choice(["x", "xb", "z", "zb"])]
    b = POOL["b0"]
    fn, fb = ["fl", n], ["fl", b]
    cmpn = [rng.choice(["le", "lt"]), fn, ["i", "2"]]
    fluents = [[b, ["b", "F"]], [n, ["i", "0"]]]
    set_b = ["eff", "assign", fb, ["b", "T"], TRUE, []]
    cond_b = ["eff", "assign", fb, ["b", "T"], cmpn, []]
    acts, dconds, deffs, procs, evs, teffs, tgoals, goals, traj, metrics, xm = [], [], [[["at", "end", "0"], set_b]], [], [], [], [], [], [], [], []
    where = rng.choice(["ipre", "ieffcond", "dcond", "deffcond", "ppre", "epre", "eeffcond", "teffcond", "tgoal", "goal", "traj",
                        "oversub", "toversub", "final", "ivalue", "none"])
    if where == "ipre":
        acts = [["action", "a0", [], ["pre", cmpn], ["effs", set_b]]]
    elif where == "ieffcond":
        acts = [["action", "a0", [], ["pre"], ["effs", cond_b]]]
    elif where == "ivalue":
        acts = [["action", "a0", [], ["pre"], ["effs", ["eff", "assign", fb, cmpn, TRUE, []]]]]
    elif where == "dcond":
        dconds = [[["iv", "F", "F", ["at", "start", "0"], ["at", "end", "0"]], cmpn]]
    elif where == "deffcond":
        deffs = [[["at", "end", "0"], cond_b]]
    elif where == "ppre":
        zz = POOL["zq"]
        fluents.append([zz, ["i", "0"]])
        procs = [["process", "pr0", [], ["pre", cmpn], ["ceffs", ["ceff", "increase", ["fl", zz, ["o", "s1", "S"]], ["i", "1"]]]]]
    elif where == "epre":
        evs = [["event", "ev0", [], ["pre", cmpn], ["effs", set_b]]]
    elif where == "eeffcond":
        evs = [["event", "ev0", [], ["pre", fb], ["effs", cond_b]]]
    elif where == "teffcond":
        teffs = [[["at", "gstart", "2"], cond_b]]
    elif where == "tgoal":
        tgoals = [[["iv", "F", "F", ["at", "gstart", "1"], ["at", "gstart", "3"]], cmpn]]
    elif where == "goal":
        goals = [cmpn]
    elif where == "traj":
        traj = [[rng.choice(["always", "sometime"]), cmpn]]
    elif where == "oversub":
        metrics = [["oversub", [[cmpn, "2"]]]]
    elif where == "toversub":
        xm = [["toversub", [[["iv", "F", "F", ["at", "gstart", "1"], ["at", "gstart", "3"]], cmpn, "3/2"]]]]
    elif where == "final":
        metrics = [[rng.choice(["min-final", "max-final"]), fn]]
    dur = ["dur", fn, fn if rng.random() < 0.6 else ["plus", fn, ["i", "1"]]]
    if rng.random() < 0.25 and not metrics:
        # the other occurrence is in an action cost instead of a duration
        dur = ["dur", ["i", "2"], ["i", "2"]]
        acts = acts or [["action", "a0", [], ["pre"], ["effs", set_b]]]
        metrics = [["min-action-costs", [["a0", ["plus", fn, ["i", "1"]]]], "_"]]
    dacts = [["daction", "d0", [], dur, ["conds"] + dconds, ["effs"] + deffs, ["ceffs"], ["sim"]]]
    base = ["problem", "p", ["types"] + TYPES, ["objects", ["s1", "S"]], ["fluents"] + fluents, ["init"], ["actions"] + acts,
            ["goals"] + goals, ["traj"] + traj, ["metrics"] + metrics]
    return ["kp", base, ["dactions"] + dacts, ["processes"] + procs, ["events"] + evs, ["teffs"] + teffs, ["tgoals"] + tgoals,
            ["xmetrics"] + xm, ["flags", "F", "F"], ["sim"]]


def special(rng):
    """hand-shaped families around the corners of the static/unused-fluent analysis and of typing"""
    k = rng.random()
    if k < 0.3:
        return special_typing(rng)
    if k < 0.85:
        return special_unused(rng)
    k = rng.randrange(6)
    n = POOL[rng.choice(["x", "xb", "z", "zb"])]
    b = POOL["b0"]
    fn = ["fl", n]
    fluents = [[b, ["b", "F"]], [n, ["i", "0"]]]
    dact = lambda lo, hi, effs=(): ["daction", "d0", [], ["dur", lo, hi], ["conds"], ["effs"] + list(effs), ["ceffs"], ["sim"]]
    acts, dacts, procs, metrics, goals = [], [], [], [], []
    set_b = [["at", "end", "0"], ["eff", "assign", ["fl", b], ["b", "T"], TRUE, []]]
    if k == 0:      # numeric fluent used only in a duration
        dacts = [dact(fn, fn, [set_b])]
    elif k == 1:    # only in a duration and in a process precondition
        dacts = [dact(["i", "1"], ["plus", fn, ["i", "1"]], [set_b])]
        procs = [["process", "pr0", [], ["pre", ["le", fn, ["i", "3"]]], ["ceffs", ["ceff", "increase", fn, ["i", "1"]]][:2] + ([["ceff", "increase", fn, ["i", "1"]]] if rng.random() < 0.5 else [])]]
    elif k == 2:    # only in an action cost
        acts = [["action", "a0", [], ["pre"], ["effs", ["eff", "assign", ["fl", b], ["b", "T"], TRUE, []]]]]
        metrics = [["min-action-costs", [["a0", ["plus", fn, ["i", "1"]]]], "_"]]
    elif k == 3:    # in a duration, and written by a timed effect of another action (non-static)
        dacts = [dact(fn, fn, [set_b, [["at", "start", "0"], ["eff", "increase", fn, ["i", "1"], TRUE, []]]])]
    elif k == 4:    # not used at all
        pass
    else:           # in a duration and in a goal
        dacts = [dact(fn, fn, [set_b])]
        goals = [["le", fn, ["i", "2"]]]
    base = ["problem", "p", ["types"] + TYPES, ["objects"], ["fluents"] + fluents, ["init"], ["actions"] + acts,
            ["goals"] + goals, ["traj"], ["metrics"] + metrics]
    return ["kp", base, ["dactions"] + dacts, ["processes"] + procs, ["events"], ["teffs"], ["tgoals"], ["xmetrics"],
            ["flags", "F", "F"], ["sim"]]


def corpus_cases():
    """the bundled example / test-case problems: in the wire format when they fit (checked by rebuilding them and
    comparing the rebuilt problem's kind), else as extern"""
    out = []
    for name, pb in sorted(extern_problems().items()):
        if name.startswith("probe:"):
            continue
        try:
            pl = enc(pb)
            rebuilt = build(pl)
            pl = add_facts(pl, rebuilt)
            if sorted(rebuilt.kind.features) != sorted(pb.kind.features):
                raise NotFit("rebuilt problem has another kind")
            out.append(pl)
        except Exception:
            out.append(["extern", name])
    return out


def ext_case(g, rng, blind_ma=False):
    """one raw payload of a problem subclass"""
    k = rng.randrange(8)
    if k == 0:
        return g.hier_special() if rng.random() < 0.5 else g.hier()
    if k == 1:
        return g.hier()
    if k == 2:
        return g.cont_special() if rng.random() < 0.3 else g.cont()
    if k == 3:
        return g.cont()
    if k in (4, 5):
        return g.sched_special() if rng.random() < 0.3 else g.sched()
    return g.ma(seen_only=not (blind_ma and rng.random() < 0.5))


def cases(rng, tier):
    n = 240 if tier == "quick" else 7000
    nx = 200 if tier == "quick" else 5000
    for c in corpus_cases():
        yield c
    g = XGen(rng)
    for i in range(n + nx):
        if (i * nx) // (n + nx) != ((i + 1) * nx) // (n + nx):
            raw = ext_case(g, rng)       # evenly interleaved with the `Problem` cases, so a budget cut keeps the mix
        else:
            raw = special(rng) if rng.random() < 0.2 else g.problem()
        if raw is None:
            continue
        p = sanitize(raw)
        if p is None:
            continue
        try:
            yield with_facts(p)
        except Exception:
            continue   # a walker of another property failed on this problem: not a C10 case


def search(rng, tier):
    """wider failing-input search: also multi-agent problems inside the positions of the open finding (the caller
    discards inputs that the finding explains)"""
    g = XGen(rng)
    while True:
        raw = ext_case(g, rng, blind_ma=True) if rng.random() < 0.5 else (special(rng) if rng.random() < 0.2 else g.problem())
        if raw is None:
            continue
        p = sanitize(raw)
        if p is None:
            continue
        try:
            yield with_facts(p)
        except Exception:
            continue


def _err(e):
    if isinstance(e, UPProblemDefinitionError) and "groundable" in str(e):
        return ["error", "not-groundable"]
    return ["error", "other:" + type(e).__name__]


def impl(payload):
    if payload[0] == "extern":
        return "unmodelled"
    P = build(payload)
    try:
        k = P.kind
    except Exception as e:
        return _err(e)
    return ["kind"] + sorted(k.features)


def _problem_of(payload):
    return get_extern(payload[1]) if payload[0] == "extern" else build(payload)


def oracle(payload):
    """the property on the real code: every syntactically used feature is in problem.kind, and (the stated consequence)
    an engine whose supported kind contains the computed kind has declared every used feature"""
    pb = _problem_of(payload)
    try:
        k = pb.kind
    except UPProblemDefinitionError as e:
        if "groundable" in str(e):
            return None     # documented rejection of a fluent whose parameters cannot be enumerated
        raise
    used = used_features(pb)
    miss = sorted(f for f in used if f not in k.features)
    if miss:
        return "kind lacks used feature(s): " + ", ".join(f"{f} ({used[f]})" for f in miss)
    # the stated consequence, through the real `<=`: an engine whose supported kind contains the computed kind (here: equals
    # it) has declared each used feature, i.e. the feature survives the version filtering that `<=` applies
    from unified_planning.model import ProblemKind
    sup = ProblemKind(set(k.features), version=k.version)
    if not (k <= sup):
        return "the computed kind is not <= itself"
    lost = sorted(f for f in used if not (ProblemKind({f}, version=k.version) <= ProblemKind(set(sup.features), version=sup.version)))
    if lost:
        return "a supported kind containing the computed kind does not declare: " + ", ".join(lost)
    return None


def ma_seen_features(pb):
    """the statement's features that a multi-agent problem uses in the positions MultiAgentProblem.kind does look at:
    types of fluents, fluent parameters and action parameters; numeric / object fluents and their bounds; the operators of
    instantaneous preconditions, of the conditions of instantaneous effects, of the agents' goals and of the shared goals;
    conditional / forall / increase / decrease effects of instantaneous actions.  Written from ma_problem.py's docstrings and
    the property text, not from the model."""
    out = set()

    def use_type(t):
        if t.is_user_type():
            out.add("FLAT_TYPING")
            if t.father is not None:
                out.add("HIERARCHICAL_TYPING")

    def cond(c):
        for f, ops in (("NEGATIVE_CONDITIONS", {OK.NOT}), ("DISJUNCTIVE_CONDITIONS", {OK.OR, OK.IMPLIES}), ("EQUALITIES", {OK.EQUALS}),
                       ("EXISTENTIAL_CONDITIONS", {OK.EXISTS}), ("UNIVERSAL_CONDITIONS", {OK.FORALL})):
            if _has_op(c, ops):
                out.add(f)
    fluents = list(pb.ma_environment.fluents) + [f for ag in pb.agents for f in ag.fluents]
    for f in fluents:
        use_type(f.type)
        if f.type.is_int_type() or f.type.is_real_type():
            out.add("INT_FLUENTS" if f.type.is_int_type() else "REAL_FLUENTS")
            if f.type.lower_bound is not None or f.type.upper_bound is not None:
                out.add("BOUNDED_TYPES")
        elif f.type.is_user_type():
            out.add("OBJECT_FLUENTS")
        for q in f.signature:
            use_type(q.type)
    for ag in pb.agents:
        for g in list(ag.public_goals) + list(ag.private_goals):
            cond(g)
        for a in ag.actions:
            for q in a.parameters:
                use_type(q.type)
            if isinstance(a, InstantaneousAction):
                for c in a.preconditions:
                    cond(c)
                for e in a.effects:
                    if not e.condition.is_true():
                        out.add("CONDITIONAL_EFFECTS")
                        cond(e.condition)
                    if e.forall:
                        out.add("FORALL_EFFECTS")
                    if e.kind == EffectKind.INCREASE:
                        out.add("INCREASE_EFFECTS")
                    elif e.kind == EffectKind.DECREASE:
                        out.add("DECREASE_EFFECTS")
    for g in pb.goals:
        cond(g)
    return out


def known_cause(payload):
    """D-C10-MA: a multi-agent problem whose missing features are all used only in positions MultiAgentProblem.kind never looks
    at (objects, forall-effect variables, parameter kinds, effect values, everything inside a durative action)"""
    from unified_planning.model.multi_agent import MultiAgentProblem
    pb = _problem_of(payload)
    if not isinstance(pb, MultiAgentProblem):
        return None
    miss = set(missing_features(pb))
    if miss and not (miss & ma_seen_features(pb)):
        return "D-C10-MA"
    return None


def nontrivial(payload, ans):
    if payload[0] == "extern":
        return True
    return ans[0] == "kind" and any(f in STATEMENT_FEATURES and f not in BASIC for f in ans[1:])


CLASS_OF = {"kp": "Problem", "hp": "HierarchicalProblem", "cp": "ContingentProblem", "sp": "SchedulingProblem", "map": "MultiAgentProblem"}


def stats(payload, ans):
    if payload[0] == "extern":
        return ["extern:" + type(get_extern(payload[1])).__name__]
    if ans[0] != "kind":
        return ["answer:" + sexp.dumps(ans)]
    t = ["feat:" + f for f in ans[1:]]
    t.append("n-features:%d" % (len(ans) - 1))
    t.append("class:" + CLASS_OF[payload[0]])
    kp = payload[1] if payload[0] in ("hp", "cp") else payload
    for s in kp[2:]:
        if s[0] in ("dactions", "processes", "events", "teffs", "tgoals") and len(s) > 1:
            t.append("has:" + s[0])
    return t


def shrink(payload):
    if payload[0] == "extern":
        return
    for cand in _all_drops(strip_facts(payload)):
        try:
            yield with_facts(cand)
        except Exception:
            continue


MANIFEST = {
    "level_text": ("Lean 4 theorem C10_complete (Props/C10.lean): for every problem of the modelled syntax (classical, numeric, "
                   "temporal with durative actions / timed effects and goals, processes and events), every answer of the linear "
                   "checker and simplifier, and every feature f that the problem syntactically uses according to the positional "
                   "specification Spec/Uses.lean (one rule per feature named in the statement, phrased over sub-expressions and "
                   "positions, not over the traversal), f is in kindOf(problem); C10_engine_consequence lifts it to any supported "
                   "kind K (latest version) with kindOf <= K. kindOf mirrors _KindFactory statement by statement and is tied to the "
                   "code by exact set equality with problem.kind on generated problems with features planted in unusual positions "
                   "and on the bundled corpora. Props/C10Ext.lean: C10_complete_htn, C10_complete_contingent and "
                   "C10_complete_scheduling prove the same for hierarchical, contingent and scheduling problems (kindOfH / kindOfC / "
                   "kindOfS mirror the subclasses' kind extensions after three repairs; specifications UsesH / UsesC / UsesS in "
                   "Spec/UsesExt.lean add the positions only those classes have); for multi-agent problems the code violates "
                   "the property (open finding D-C10-MA): C10_complete_ma_full_refuted is a kernel-checked counterexample and "
                   "C10_complete_ma_partial holds for every feature outside the decidable set maBlind(problem) that the unscanned "
                   "positions contribute; C10_engine_consequence_ext lifts all four to supported kinds. All four models are compared "
                   "with the real kind by exact set equality on generated problems of each class and the bundled examples."),
    "level_note": ("Trusted: Lean kernel; axioms propext, Classical.choice, Quot.sound at most; the statements of Spec/Uses and "
                   "Spec/UsesExt (incl. the readings of a subclass problem as a planning problem); Driver + harness (wire formats, "
                   "generator). Not modelled: LinearChecker/Simplifier answers (supplied per case by the real code; theorems hold "
                   "for every answer). The ordering classification of task networks (TASK_ORDER_*) is modelled and compared but no "
                   "theorem is stated about it (not a feature of the statement)."),
    "technique": "Lean 4 proof over an executable model + model/code correspondence + syntactic oracle",
    "design_ref": "DESIGN.md §5 C10",
}
