"""C08 — Compilers succeed and produce well-formed results inside their supported kind.

Payloads (grammar shared with lean/UPVerif/Drv/C08.lean):

  (fresh (init (K name)*) (reqs (req base (p*) T)*))       K ::= fluent | object | action | type
        T ::= (none) | (some s)
        a problem holding the `init` names is built; every request obtains a name through the real
        `get_fresh_name` against the problem UNDER CONSTRUCTION and registers it as an action
  (result PB MB BK (plan n*))                               decision table of CompilerResult
        PB ::= problem | none          MB ::= none | (map (n (to m)|drop)*)      BK ::= none | rev | id
  (compile C <problem>)                                     C ::= grounder | cond | disj | neg | quant | utf | bounded
                                                                 | inv | traj | undef | pipe-qg | pipe-qcdn | pipe-gc
                                                                 | t2s | d2p   (on the durative reading of <problem>)
        <problem> is harness/upp.py's wire format (Core/Problem.lean)
        sent to the model as an observation of the real run (model_payload):
        C = grounder:  (ground-names (names n*) (actions (a name ((inst survived arg*)*))*))   the naming requests
        otherwise:     (declared (names n*) (orig n*))    the declared names of the compiled / original problem
        not compiled:  (skip status)
  (wfcheck C <problem> (M k))                               C as above (not t2s / d2p); M ::= none | drop-fluent | drop-object | drop-type
                                                                 | clash-name | dup-action | drop-param | goal-param | alien-fluent
                                                                 | alien-object | foreign-cost
        the REAL compiled problem of C, damaged in place by mutation M (k selects where), is judged by the oracle's
        well-formedness predicate and sent to the model as (wf <problem>): the Lean predicate WF.wfProblem must agree
        (verdict and first failing clause)
  (model C <problem>)                                       C ::= cer | dcr | sir | btr | qr   (the compilers with a Lean model)
        sent to the model as (compile-model C <problem>): the NAMED model's compiled problem in C06's canonical view plus the
        action names in order with their origins, the fluent names, the Lean judgement, back-map check and target check —
        compared with the same observations of the real compilation
"""
import itertools
import warnings
from collections import OrderedDict

warnings.simplefilter("ignore")
import unified_planning as up
from unified_planning.engines import CompilationKind
from unified_planning.engines.compilers import (BoundedTypesRemover, CompilersPipeline, ConditionalEffectsRemover,
                                                DisjunctiveConditionsRemover, Grounder, GrounderHelper,
                                                NegativeConditionsRemover, QuantifiersRemover,
                                                StateInvariantsRemover, TrajectoryConstraintsRemover,
                                                UndefinedInitialNumericRemover)
from unified_planning.engines.compilers.durative_actions_to_processes import DurativeActionToProcesses
from unified_planning.engines.compilers.timed_to_sequential import TimedToSequential
from unified_planning.engines.compilers.usertype_fluents_remover import UsertypeFluentsRemover
from unified_planning.engines.compilers.utils import get_fresh_name
from unified_planning.engines.results import CompilerResult
from unified_planning.environment import Environment
from unified_planning.exceptions import (UPConflictingEffectsException, UPExpressionDefinitionError,
                                         UPProblemDefinitionError, UPUnboundedVariablesError, UPUsageError)
from unified_planning.model import DurativeAction, EndTiming, Fluent, InstantaneousAction, Object, Problem, StartTiming
from unified_planning.model.metrics import MinimizeActionCosts
from unified_planning.model.operators import OperatorKind as OK
from unified_planning.plans import ActionInstance, SequentialPlan

import complib
import sexp
import upp
import upx

ID = "C08"
GEN = []
EXTRA_PROPS = ["UPVerif.Props.C08Models"]
CORR_NAME = "fresh-name-choices+grounded-action-names+result-decision-table+wellformedness-judgement+named-compiler-models"
RULE = ("three streams. (1) fresh: 0-8 initial names (registered as fluent / object / action / user type) and 1-8 requests "
        "(base, 0-3 parameter names, optional / empty trailing info) over an adversarial identifier pool (stems joined with '_', "
        "counter suffixes _0/_1/_0_0, mixed case, digits, names that are joins / prefixes / mangled forms of one another); every "
        "chosen name is registered before the next request. (2) compile: ProblemGen problems (harness/upp.py: conditional, "
        "quantified, disjunctive, numeric effects, invariants, metrics) whose types, objects, fluents, actions and parameters are "
        "renamed into the adversarial pool, plus 0-3 extra objects, plus planted shapes (prefix actions over shared objects: "
        "s(t_u,u) / s(t,u_t) / s_t(u); fluent triples a, a_0, not_a under negation; trajectory constraints next to fluents named "
        "hold-0 / seen-phi-1; undefined numeric fluents next to things named is_value_defined_<f>; disjunctive goals next to "
        "things named dcrm_fake_goal / dcrm_fake_action); on every problem the grounder and three more of {conditional-effects, "
        "disjunctive-conditions, negative-conditions, quantifiers, usertype-fluents, bounded-types, state-invariants, "
        "trajectory-constraints, undefined-initial-numeric removers, three pipelines, timed-to-sequential and "
        "durative-actions-to-processes on the durative reading of the problem} are run when supports(kind) holds; the grounder's "
        "names are compared with the model's naming state machine, the declared names of every other compiled problem with the "
        "model's uniqueness check. (3) result: all combinations of problem / map_back / plan_back with a random action map "
        "and plan. Non-trivial = a fresh request whose joined base is already taken (counter search entered), a grounding in "
        "which two instances share their joined name or a counter suffix was needed, another compilation that declared names "
        "the input did not have, or a result case that reaches a back-conversion of a non-empty plan. (4) wfcheck: the REAL compiled problem of two of "
        "the compilations of every stream-2 problem, once as it is and once damaged in place by one of 10 mutations (a fluent / "
        "object / leaf user type dropped from the declarations, an action renamed into a declared name or duplicated, a parameter "
        "dropped from an action, a goal mentioning a parameter, a goal over a same-named fluent of another type / a same-named "
        "object of another type, an action cost for an action that is not in the problem), is judged by the oracle's "
        "well-formedness predicate and, in the wire format, by the Lean judgement WF.wfProblem: verdict and first failing clause "
        "must agree. (5) model: problems of C06's generator for the five compilers that have a Lean model (conditional-effects, "
        "disjunctive-conditions, state-invariants, bounded-types, quantifiers removers; half of the disjunctive ones with a "
        "disjunctive goal), renamed into the adversarial pool with planted neighbours (<action>_0 / _1 / _0_0, dcrm_fake_goal / "
        "dcrm_fake_action / ..._0); the NAMED model's compiled problem (C06's canonical view: origin, parameters, sorted "
        "preconditions, effects of every action; goals; trajectory constraints; initial state) plus the action names IN ORDER with "
        "their origins, the fluent names, the Lean judgement on the model's output, the back-map check and the target check are "
        "compared with the same observations of the real compilation. Deterministic cases on every run: negation chains "
        "(a, a_0, a_1, not_a next to not_a_0 / not_a_0_0 / not_a_1_0 in every order of first use) and grounding clashes "
        "(move(a_b,c) / move(a,b_c) next to a declared move_a_b_c_0 / _1 as action, fluent or object). Non-trivial additionally = "
        "a damaged problem judged ill-formed, a model case whose compilation handed out a name that is not its origin's.")
ASSUMPTIONS = [
    "environment flag error_used_name = True (the library default): a name is 'unique' when no two of {user types, objects, "
    "fluents, actions} of one problem share it; parameter and variable names are scoped to their action / quantifier",
    "documented rejections (not failures): ConditionalEffectsRemover raises UPProblemDefinitionError '... could not be removed "
    "without changing the problem' for a conditional TIMED effect on a non-Boolean fluent (conditional_effects_remover.py:183; "
    "not reachable from the generated problems); TrajectoryConstraintsRemover raises UPProblemDefinitionError 'PROBLEM NOT "
    "SOLVABLE' (trajectory_constraints_remover.py:376,397) when an always / sometime-before constraint is violated in the "
    "initial state; "
    "NegativeConditionsRemover raises UPExpressionDefinitionError 'Unable to remove negative conditions' for a negation (in "
    "NNF) of something that is neither a fluent, an equality nor a comparison, e.g. a negated quantifier "
    "(negative_conditions_remover.py:145); a CompilersPipeline raises UPUsageError '<engine> cannot handle this kind of "
    "problem' when a stage does not support the kind it is given (compilers_pipeline.py:86); every compiler rejects kinds outside supported_kind() (not generated: "
    "cases are filtered by supports(problem.kind))",
    "ASCII identifiers without whitespace, parentheses or quotes",
    "divisors are non-zero constants (DESIGN 2.11): Simplifier.walk_div asserts on a static divisor that is 0",
    "inputs are themselves well-formed by the oracle's predicate (a quantifier over a user type that nothing declares is "
    "skipped) and have a computable kind (Problem.kind raises ZeroDivisionError when a static fluent with value 0 is a "
    "divisor: C10's domain, DESIGN 2.11 'divisors are non-zero')",
    "an action whose effects conflict once a forall effect is expanded / the parameters are instantiated "
    "(UPConflictingEffectsException out of compile) is an ill-defined input, not a compiler failure; a conditional effect whose "
    "condition mentions the variable of its own forall cannot be removed by ConditionalEffectsRemover: it is rejected, though with "
    "UPUnboundedVariablesError (conditional_effects_remover.py:256 add_precondition) instead of the documented "
    "UPProblemDefinitionError — counted as a documented rejection",
    "trajectory constraints that Problem.add_trajectory_constraint simplifies to a Boolean constant (Sometime(TRUE), Always(a or "
    "not a)) are generated: the repaired add_trajectory_constraint accepts the constants it stores itself "
    "(notes/patches/C08-constant-trajectory-constraint.patch)",
    "well-formedness as judged by the oracle (wf_report) and by the Lean predicate: a variable (bound by a quantifier or a forall "
    "effect) must have a declared type, but variables are not checked to be in the scope of their binder; a fluent must be "
    "applied to as many arguments as its signature has (the library's constructors guarantee it)",
    "the back-conversion clause is exercised with a sequential plan listing one ground instance of every compiled action; for "
    "action-mapping compilers every mapped-back instance must name an action of the ORIGINAL problem with as many actual "
    "parameters as that action has formal ones",
]
MODELLED = [
    "modelled by hand (tied by correspondence): utils.get_fresh_name; the naming discipline of GrounderHelper / "
    "create_action_with_given_subs (repaired: names already handed out are seen); CompilerResult.__post_init__ decision table; "
    "SequentialPlan.replace_action_instances",
    "modelled by hand (tied by correspondence, streams wfcheck / model): the well-formedness judgement WF.wfProblem "
    "(Core/WellFormed.lean) and the naming of the compiled actions / of the fake goal fluent by ConditionalEffectsRemover, "
    "DisjunctiveConditionsRemover, StateInvariantsRemover, BoundedTypesRemover, QuantifiersRemover (Core/Compile/Named.lean, on "
    "top of the compiler models of C06/C07, Core/Compile/*.lean)",
    "modelled not verified: the transformations of the OTHER compilers (grounder's simplification, negative-conditions, "
    "usertype-fluents, trajectory-constraints, undefined-initial-numeric removers, timed-to-sequential, durative-to-processes: "
    "covered by the property oracle on the real code only: uniqueness of names, declaredness of every referenced symbol, "
    "availability of plan back-conversion); which ground instances survive simplification is an observation of the real run "
    "handed to the model; the quality metrics of a compiled problem (the five models carry them over unchanged, the theorems "
    "are stated for metric-free problems)",
    "the simplifier and the DNF walker are parameters of the theorems of Props/C08Models.lean (properties C11 / C12 own their "
    "models); 'introduces no new symbol' and 'creates no quantifier' are PROVED for C11's simplifier model as the driver "
    "configures it (no problem) and for C12's DNF walker, so the preservation theorems and the quantifiers-remover target hold "
    "for the models exactly as the check runs them; still assumed for two targets: the simplifier creates no disjunction "
    "(disjunctive-conditions remover) and no state invariant out of a trajectory constraint of the accepted form "
    "(state-invariants remover)",
]
BUDGET_S = {"quick": 55, "thorough": 500}

# ------------------------------------------------------------------------------------------------
# adversarial identifiers
# ------------------------------------------------------------------------------------------------

STEMS = ["a", "b", "c", "mv", "x", "at", "A", "b0"]


def name_pool(rng):
    st = rng.sample(STEMS, 3)
    pool = list(st)
    for s in st:
        pool += [s + "_0", s + "_1", s + "_0_0", s + "0", s + "1", "not_" + s, "not_" + s + "_0", s.upper(), s + "_" + s,
                 "is_value_defined_" + s]
        for t in st:
            if s != t:
                pool += [s + "_" + t, s + "_" + t.upper(), s + "_" + t + "_0"]
                for u in st:
                    if u != s and u != t:
                        pool += [s + "_" + t + "_" + u]
    pool += ["dcrm_fake_goal", "dcrm_fake_action",
             "dcrm_fake_action_0", "not", "_0", "0", "true"]
    seen, out = set(), []
    for n in pool:
        if n not in seen:
            seen.add(n)
            out.append(n)
    return out


# ------------------------------------------------------------------------------------------------
# stream 1: fresh names
# ------------------------------------------------------------------------------------------------

def gen_fresh(rng):
    pool = name_pool(rng)
    small = rng.sample(pool, min(len(pool), rng.choice([3, 5, 8, 12])))
    init, used = [], set()
    for _ in range(rng.choice([0, 1, 2, 4, 6, 8])):
        n = rng.choice(small)
        if n in used:
            continue
        used.add(n)
        init.append([rng.choice(["fluent", "object", "action", "action", "type"]), n])
    reqs = []
    for _ in range(rng.choice([1, 2, 3, 5, 8])):
        base = rng.choice(small)
        params = [rng.choice(small) for _ in range(rng.choice([0, 0, 0, 1, 1, 2, 3]))]
        k = rng.random()
        trail = ["none"] if k < 0.6 else ["some", ""] if k < 0.68 else ["some", rng.choice(["start", "0", "read_lock", rng.choice(small)])]
        reqs.append(["req", base, params, trail])
        if rng.random() < 0.35:     # the same joined name again, or split differently
            j = "_".join([base] + params)
            reqs.append(["req", j, [], trail] if rng.random() < 0.5 else ["req", base, params, trail])
    return ["fresh", ["init"] + init, ["reqs"] + reqs]


def run_fresh(payload):
    env = Environment()
    tm = env.type_manager
    P = Problem("p", env)
    for kind, n in payload[1][1:]:
        if kind == "fluent":
            P.add_fluent(Fluent(n, tm.BoolType(), environment=env), default_initial_value=False)
        elif kind == "object":
            P.add_object(Object(n, tm.UserType("C08_T_of_" + n), env))
        elif kind == "action":
            P.add_action(InstantaneousAction(n, _env=env))
        elif kind == "type":
            P._add_user_type(tm.UserType(n))
        else:
            raise ValueError(kind)
    out = []
    for _, base, params, trail in payload[2][1:]:
        n = get_fresh_name(P, base, list(params), None if trail[0] == "none" else trail[1])
        P.add_action(InstantaneousAction(n, _env=env))
        out.append(n)
    return P, out


# ------------------------------------------------------------------------------------------------
# stream 3: CompilerResult decision table
# ------------------------------------------------------------------------------------------------

def gen_result(rng):
    names = rng.sample(name_pool(rng), 4)
    pb = rng.choice(["problem", "problem", "problem", "none"])
    k = rng.random()
    if k < 0.25:
        mb = "none"
    else:
        mb = ["map"] + [[n, "drop" if rng.random() < 0.3 else ["to", rng.choice(["o1", "o2", "o3"])]] for n in names
                        if rng.random() < 0.85]
    bk = rng.choice(["none", "none", "none", "rev", "id"])
    dom = names if mb == "none" else [e[0] for e in mb[1:]]     # the map-back is total on the plan's actions
    plan = [rng.choice(dom) for _ in range(rng.choice([0, 1, 2, 3, 5]))] if dom else []
    return ["result", pb, mb, bk, ["plan"] + plan]


def run_result(payload):
    _, pb, mb, bk, plan = payload
    env = Environment()
    comp = Problem("compiled", env)
    orig = {n: InstantaneousAction(n, _env=env) for n in ("o1", "o2", "o3")}
    cacts = {}
    for n in set(plan[1:]) | (set(e[0] for e in mb[1:]) if mb != "none" else set()):
        cacts[n] = InstantaneousAction(n, _env=env)
        comp.add_action(cacts[n])
    table = None
    if mb != "none":
        table = {e[0]: (None if e[1] == "drop" else e[1][1]) for e in mb[1:]}

    def map_back(ai):
        t = table[ai.action.name]          # KeyError for an unmapped action, as utils.replace_action's UPUsageError
        return None if t is None else ActionInstance(orig[t])
    backs = {"none": None, "rev": lambda p: SequentialPlan(list(reversed(p.actions)), env), "id": lambda p: p}
    try:
        res = CompilerResult(comp if pb == "problem" else None, map_back if table is not None else None, "c08",
                             plan_back_conversion=backs[bk])
    except UPUsageError:
        return ["error", "usage"]
    if res.plan_back_conversion is None:
        return ["ok", "no-back-conversion"]
    p = SequentialPlan([ActionInstance(cacts[n]) for n in plan[1:]], env)
    try:
        back = res.plan_back_conversion(p)
    except KeyError:
        return ["ok", ["back", "unmapped"]]
    return ["ok", ["back"] + [ai.action.name for ai in back.actions]]


# ------------------------------------------------------------------------------------------------
# stream 2: compilers on renamed problems
# ------------------------------------------------------------------------------------------------

def _pipe(*cs):
    return lambda: CompilersPipeline([c() for c in cs])


COMPILERS = OrderedDict([
    ("grounder", (Grounder, CompilationKind.GROUNDING)),
    ("cond", (ConditionalEffectsRemover, CompilationKind.CONDITIONAL_EFFECTS_REMOVING)),
    ("disj", (DisjunctiveConditionsRemover, CompilationKind.DISJUNCTIVE_CONDITIONS_REMOVING)),
    ("neg", (NegativeConditionsRemover, CompilationKind.NEGATIVE_CONDITIONS_REMOVING)),
    ("quant", (QuantifiersRemover, CompilationKind.QUANTIFIERS_REMOVING)),
    ("utf", (UsertypeFluentsRemover, CompilationKind.USERTYPE_FLUENTS_REMOVING)),
    ("bounded", (BoundedTypesRemover, CompilationKind.BOUNDED_TYPES_REMOVING)),
    ("inv", (StateInvariantsRemover, CompilationKind.STATE_INVARIANTS_REMOVING)),
    ("traj", (TrajectoryConstraintsRemover, CompilationKind.TRAJECTORY_CONSTRAINTS_REMOVING)),
    ("undef", (UndefinedInitialNumericRemover, CompilationKind.UNDEFINED_INITIAL_NUMERIC_REMOVING)),
    ("pipe-qg", (_pipe(QuantifiersRemover, Grounder), None)),
    ("pipe-qcdn", (_pipe(QuantifiersRemover, ConditionalEffectsRemover, DisjunctiveConditionsRemover,
                         NegativeConditionsRemover), None)),
    ("pipe-gc", (_pipe(Grounder, ConditionalEffectsRemover), None)),
    # the two temporal compilers run on the durative reading of the problem (see to_durative)
    ("t2s", (TimedToSequential, CompilationKind.TIMED_TO_SEQUENTIAL)),
    ("d2p", (DurativeActionToProcesses, CompilationKind.DURATIVE_ACTIONS_TO_PROCESSES)),
])
DURATIVE = ("t2s", "d2p")


def to_durative(P):
    """the same problem with every action turned into a DurativeAction of duration 1 (conditions at start, effects at end)"""
    env = P.environment
    Q = Problem(P.name, env)
    for t in P.user_types:
        Q._add_user_type(t)
    for f in P.fluents:
        d = P.fluents_defaults.get(f)
        if d is None:
            Q.add_fluent(f)
        else:
            Q.add_fluent(f, default_initial_value=d)
    for o in P.all_objects:
        Q.add_object(o)
    for k, v in P.explicit_initial_values.items():
        Q.set_initial_value(k, v)
    for a in P.actions:
        d = DurativeAction(a.name, OrderedDict((p.name, p.type) for p in a.parameters), env)
        d.set_fixed_duration(1)
        for c in a.preconditions:
            d.add_condition(StartTiming(), c)
        for e in a.effects:
            d._add_effect_instance(EndTiming(), e.clone())
        Q.add_action(d)
    for g in P.goals:
        Q.add_goal(g)
    return Q


def rename_expr(e, R):
    h = e[0]
    if h in ("b", "i", "r"):
        return e
    if h == "o":
        return ["o", R["obj"].get(e[1], e[1]), R["type"].get(e[2], e[2])]
    if h == "p":
        return ["p", R["par"].get(e[1], e[1]), rename_ty(e[2], R)]
    if h == "v":
        return ["v", e[1], rename_ty(e[2], R)]
    if h == "fl":
        return ["fl", rename_ref(e[1], R)] + [rename_expr(a, R) for a in e[2:]]
    if h in ("exists", "forall"):
        return [h, [[n, rename_ty(t, R)] for n, t in e[1]], rename_expr(e[2], R)]
    return [h] + [rename_expr(a, R) for a in e[1:]]


def rename_ty(t, R):
    if isinstance(t, list) and t[0] == "user":
        return ["user", R["type"].get(t[1], t[1])]
    return t


def rename_ref(ref, R):
    return [R["fl"].get(ref[0], ref[0]), rename_ty(ref[1], R), [rename_ty(t, R) for t in ref[2]]]


def rename_problem(ps, R):
    g = lambda k: upp.get(ps, k)
    types = [[R["type"].get(n, n), "_" if f == "_" else R["type"].get(f, f)] for n, f in g("types")]
    objects = [[R["obj"].get(n, n), R["type"].get(t, t)] for n, t in g("objects")]
    fluents = [[rename_ref(ref, R), d if d == "_" else rename_expr(d, R)] for ref, d in g("fluents")]
    init = [[rename_expr(f, R), rename_expr(v, R)] for f, v in g("init")]
    actions = []
    for _, name, params, pre, effs in g("actions"):
        actions.append(["action", R["act"].get(name, name), [[R["par"].get(pn, pn), rename_ty(pt, R)] for pn, pt in params],
                        ["pre"] + [rename_expr(c, R) for c in pre[1:]],
                        ["effs"] + [["eff", k, rename_expr(f, R), rename_expr(v, R), rename_expr(c, R),
                                     [[vn, rename_ty(vt, R)] for vn, vt in vs]] for _, k, f, v, c, vs in effs[1:]]])
    goals = [rename_expr(x, R) for x in g("goals")]
    traj = [rename_expr(x, R) for x in g("traj")]
    metrics = []
    for m in g("metrics"):
        if m[0] == "min-action-costs":
            metrics.append([m[0], [[R["act"].get(a, a), rename_expr(e, R)] for a, e in m[1]], m[2] if m[2] == "_" else rename_expr(m[2], R)])
        elif m[0] in ("min-final", "max-final"):
            metrics.append([m[0], rename_expr(m[1], R)])
        elif m[0] == "oversub":
            metrics.append([m[0], [[rename_expr(x, R), w] for x, w in m[1]]])
        else:
            metrics.append(m)
    return ["problem", ps[1], ["types"] + types, ["objects"] + objects, ["fluents"] + fluents, ["init"] + init,
            ["actions"] + actions, ["goals"] + goals, ["traj"] + traj, ["metrics"] + metrics]


def global_names(ps):
    g = lambda k: upp.get(ps, k)
    return ([n for n, _ in g("types")] + [n for n, _ in g("objects")] + [ref[0] for ref, _ in g("fluents")]
            + [a[1] for a in g("actions")])


def nonzero_divisors(e):
    """DESIGN 2.11: divisors are non-zero constants (Simplifier.walk_div asserts, Problem.kind raises otherwise)"""
    if not isinstance(e, list):
        return e
    e = [nonzero_divisors(x) for x in e]
    if len(e) == 3 and e[0] == "div":
        d = e[2]
        if not (isinstance(d, list) and len(d) == 2 and d[0] in ("i", "r") and d[1] not in ("0", "0/1")):
            e = ["div", e[1], ["i", "2"]]
    return e


def gen_problem(rng, planted=None):
    pg = upp.ProblemGen(rng, undefined=rng.random() < 0.3, invariants=rng.random() < 0.5, metrics=rng.random() < 0.5,
                        quantifiers=rng.random() < 0.6)
    ps = pg.problem("p")
    pool = name_pool(rng)
    rng.shuffle(pool)
    # extra objects (only grounding and quantifier expansion see them)
    objs = upp.get(ps, "objects")
    extra = [[f"e{i}", rng.choice(["T", "S", "S", "U"])] for i in range(rng.choice([0, 0, 1, 2, 3]))]
    ps = [s if not (isinstance(s, list) and s and s[0] == "objects") else ["objects"] + objs + extra for s in ps]
    syms = {"type": [n for n, _ in upp.get(ps, "types")], "obj": [n for n, _ in upp.get(ps, "objects")],
            "fl": [ref[0] for ref, _ in upp.get(ps, "fluents")], "act": [a[1] for a in upp.get(ps, "actions")]}
    R = {"type": {}, "obj": {}, "fl": {}, "act": {}, "par": {}}
    rate = rng.choice([0.3, 0.6, 0.9])
    taken = set(sum(syms.values(), []))
    for k in ("act", "obj", "fl", "type"):
        for n in syms[k]:
            if rng.random() < rate and pool:
                m = pool.pop()
                if m in taken:
                    continue
                R[k][n] = m
                taken.add(m)
                taken.discard(n)
    if rng.random() < 0.5:
        R["par"] = {"p0": rng.choice(["a", "b_c", "p0", "x_0"]), "p1": rng.choice(["b", "a_b", "p1", "x"])}
        if R["par"]["p0"] == R["par"]["p1"]:
            R["par"] = {}
    return nonzero_divisors(rename_problem(ps, R))


def gen_planted(rng):
    """shapes that the random renaming reaches rarely: prefix actions over shared objects; a / a_0 / not_a under negation"""
    s, t, u = rng.sample(["a", "b", "c", "mv", "x"], 3)
    k = rng.random()
    T = ["user", "T"]
    f = [s + "_f", "bool", [T]]
    fl = lambda o: ["fl", f, o]
    if k < 0.15:
        # monitoring atoms of the trajectory-constraints remover: hold-<i>, seen-phi-<i>, seen-psi-<i>
        names = rng.sample(["hold-0", "hold-1", "hold-0_0", "seen-phi-0", "seen-phi-1", "seen-psi-1", s, t], rng.choice([2, 3, 4]))
        kinds = ["fluent"] * len(names)
        if rng.random() < 0.4:
            kinds[0] = "action"
        refs = [[n, "bool", []] for n, kd in zip(names, kinds) if kd == "fluent"]
        if not refs:
            refs = [[u, "bool", []]]
        e = lambda: ["fl", rng.choice(refs)]
        traj = []
        for _ in range(rng.choice([1, 2, 3])):
            c = rng.choice(["sometime", "sometime", "at-most-once", "sometime-before", "sometime-after"])
            traj.append([c, e()] if c in ("sometime", "at-most-once") else [c, e(), e()])
        if rng.random() < 0.5:
            # a constraint that Problem.add_trajectory_constraint simplifies to a Boolean constant (and stores as such): the
            # compilers that rebuild the problem add the stored constant back
            x = e()
            traj.insert(rng.randrange(len(traj) + 1),
                        rng.choice([["sometime", ["b", "T"]], ["always", ["b", "T"]], ["at-most-once", ["b", "F"]],
                                    ["always", ["or", x, ["not", x]]], ["sometime-before", ["b", "F"], x]]))
        acts = [["action", n, [], ["pre"], ["effs", ["eff", "assign", e(), ["b", "T"], ["b", "T"], []]]]
                for n, kd in zip(names, kinds) if kd == "action"]
        acts.append(["action", u + "_act", [], ["pre"], ["effs"] + [["eff", "assign", ["fl", r], ["b", rng.choice(["T", "F"])], ["b", "T"], []] for r in refs]])
        return ["problem", "p", ["types"], ["objects"], ["fluents"] + [[r, ["b", "F"]] for r in refs], ["init"],
                ["actions"] + acts, ["goals", e()], ["traj"] + traj, ["metrics"]]
    if k < 0.3:
        # undefined numeric fluents next to things named is_value_defined_<fluent>
        T = ["user", "T"]
        num = [[s, ["int", "_", "_"], []], [t, ["real", "_", "_"], [T]]]
        clash = rng.choice(["is_value_defined_" + s, "is_value_defined_" + t, "is_value_defined_" + s + "_0"])
        kd = rng.choice(["object", "action", "fluent", "type"])
        objs = [[u, "T"]] + ([[clash, "T"]] if kd == "object" else [])
        fls = [[num[0], "_"], [num[1], "_" if rng.random() < 0.7 else ["i", "0"]]] + ([[[clash, "bool", []], ["b", "F"]]] if kd == "fluent" else [])
        acts = [["action", clash if kd == "action" else "act", [["y", T]], ["pre", ["le", ["fl", num[0]], ["fl", num[1], ["p", "y", T]]]],
                 ["effs", ["eff", "increase", ["fl", num[0]], ["i", "1"], ["b", "T"], []],
                  ["eff", "assign", ["fl", num[1], ["p", "y", T]], ["i", "2"], ["b", "T"], []]]]]
        types = [["T", "_"]] + ([[clash, "T"]] if kd == "type" else [])
        if kd == "type":
            objs.append([u + "_1", clash])
        return ["problem", "p", ["types"] + types, ["objects"] + objs, ["fluents"] + fls, ["init"],
                ["actions"] + acts, ["goals", ["le", ["i", "1"], ["fl", num[0]]]], ["traj"], ["metrics"]]
    if k < 0.42:
        # a disjunctive goal next to things named like the remover's fake goal fluent / fake actions
        clash = rng.choice(["dcrm_fake_goal", "dcrm_fake_action",
                            "dcrm_fake_action_0", "dcrm_fake_goal_0"])
        kd = rng.choice(["object", "action", "fluent"])
        q, r = [s, "bool", []], [t, "bool", []]
        fls = [[q, ["b", "F"]], [r, ["b", "F"]]] + ([[[clash, "bool", []], ["b", "F"]]] if kd == "fluent" else [])
        acts = [["action", clash if kd == "action" else u, [], ["pre", ["or", ["fl", q], ["not", ["fl", r]]]],
                 ["effs", ["eff", "assign", ["fl", q], ["b", "T"], ["b", "T"], []]]]]
        return ["problem", "p", ["types", ["T", "_"]], ["objects"] + ([[clash, "T"]] if kd == "object" else []),
                ["fluents"] + fls, ["init"], ["actions"] + acts, ["goals", ["or", ["fl", q], ["fl", r]]], ["traj"], ["metrics"]]
    if k < 0.7:
        # action s(x,y) over objects {t_u, u, t, ...} and action s_t(y): s_t_u twice
        objs = [[t + "_" + u, "T"], [u, "T"], [t, "T"]] + ([[u + "_" + t, "T"]] if rng.random() < 0.5 else [])
        rng.shuffle(objs)
        a1 = ["action", s, [["x", T], ["y", T]], ["pre", ["not", fl(["p", "y", T])]],
              ["effs", ["eff", "assign", fl(["p", "x", T]), ["b", "T"], ["b", "T"], []]]]
        a2 = ["action", s + "_" + t, [["y", T]], ["pre"], ["effs", ["eff", "assign", fl(["p", "y", T]), ["b", "T"], ["b", "T"], []]]]
        a3 = ["action", s + "_" + t + "_" + u, [], ["pre"], ["effs", ["eff", "assign", fl(["o", objs[0][0], "T"]), ["b", "F"], ["b", "T"], []]]]
        acts = [a1] + ([a2] if rng.random() < 0.7 else []) + ([a3] if rng.random() < 0.4 else [])
        rng.shuffle(acts)
        return ["problem", "p", ["types", ["T", "_"]], ["objects"] + objs, ["fluents", [f, ["b", "F"]]], ["init"],
                ["actions"] + acts, ["goals", fl(["o", objs[0][0], "T"])], ["traj"], ["metrics"]]
    # fluents s, s_0, not_s negated in preconditions / goals
    names = [s, s + "_0", "not_" + s] + (["not_" + s + "_0"] if rng.random() < 0.3 else [])
    if rng.random() < 0.5:
        # deeper chains: s_1 (and s_2) too, so that the negation of s has to skip SEVERAL names handed out earlier in this
        # very compilation (not_s_0, not_s_1 are the natural negations of s_0, s_1), in every order of first use
        names += [s + "_1"] + ([s + "_2"] if rng.random() < 0.4 else [])
    refs = [[n, "bool", []] for n in names]
    rng.shuffle(refs)
    pre = [["not", ["fl", r]] for r in refs if rng.random() < 0.8]
    act = ["action", t, [], ["pre"] + pre, ["effs"] + [["eff", "assign", ["fl", r], ["b", "T"], ["b", "T"], []] for r in refs]]
    act2 = ["action", t + "_0", [], ["pre", ["fl", refs[0]]], ["effs", ["eff", "assign", ["fl", refs[0]], ["b", "F"], ["b", "T"], []]]]
    return ["problem", "p", ["types"], ["objects"], ["fluents"] + [[r, ["b", "F"]] for r in refs], ["init"],
            ["actions", act, act2], ["goals"] + [["not", ["fl", r]] for r in refs if rng.random() < 0.5] + [["fl", refs[-1]]],
            ["traj"], ["metrics"]]


def plant_suffix_names(rng, ps, always=False):
    """declares things named <J>_<k> for small k (as fluent, object or parameterless action), where J is a name the grounder
    hands out more than once (two ground instances whose flattened names coincide: move(a_b,c) / move(a,b_c)) or a flattened
    name that is itself declared: the counter search of get_fresh_name must then dodge the names handed out so far
    (used_names) AND the names of the problem, whichever comes first, in ONE loop"""
    if not always and rng.random() < 0.4:
        return ps
    declared = set(global_names(ps))
    joins = {}
    try:
        for a, args in upp.ground_instances(ps):
            if args:
                j = "_".join([a] + list(args))
                joins[j] = joins.get(j, 0) + 1
    except Exception:
        return ps
    hot = sorted(j for j, c in joins.items() if c >= 2 or j in declared)
    if not hot:
        return ps
    rng.shuffle(hot)
    types = [n for n, _ in upp.get(ps, "types")]
    objs, fls, acts = list(upp.get(ps, "objects")), list(upp.get(ps, "fluents")), list(upp.get(ps, "actions"))
    for j in hot[:rng.choice([1, 1, 2])]:
        for suffix in rng.sample(["_0", "_1", "_0_0", "_2"], rng.choice([1, 1, 2, 3])):
            n = j + suffix
            if n in declared:
                continue
            declared.add(n)
            kd = rng.choice(["fluent", "action", "object"] if types else ["fluent", "action"])
            if kd == "fluent":
                fls.append([[n, "bool", []], ["b", "F"]])
            elif kd == "object":
                objs.append([n, rng.choice(types)])     # (a new object also adds ground instances: fine)
            else:
                acts.append(["action", n, [], ["pre"], ["effs"]])
    return _with(_with(_with(ps, "objects", objs), "fluents", fls), "actions", acts)


def build(ps):
    """real problem in a fresh default environment (error_used_name = True)"""
    types = [(n, None if f == "_" else f) for n, f in upp.get(ps, "types")]
    ctx = upx.Ctx(types)
    ctx.env.error_used_name = True
    P, ctx = upp.build_problem(ps, ctx)
    for n, _ in types:          # a declared type stays declared even when no object / fluent / parameter uses it yet
        P._add_user_type(ctx.utypes[n])
    return P, ctx


def build_for(cname, ps):
    P, ctx = build(ps)
    return (to_durative(P) if cname in DURATIVE else P), ctx


def compiler_of(cname):
    cls, kind = COMPILERS[cname]
    return cls(), kind


def supported(c, P):
    if isinstance(c, CompilersPipeline):
        return True     # decided engine by engine inside compile(); an unsupported stage is a UPUsageError = not-applicable
    return c.supports(P.kind)


REJECTIONS = ("could not be removed without changing the problem", "PROBLEM NOT SOLVABLE", "cannot handle this kind of problem",
              "Unable to remove negative conditions from expression")


def run_compile(cname, P):
    """-> ('ok', result) | ('unsupported', None) | ('rejected', msg) | ('raised', 'Class: msg')"""
    c, kind = compiler_of(cname)
    try:
        if not supported(c, P):
            return "unsupported", None
    except Exception as e:
        return "raised", f"supports: {type(e).__name__}: {e}"
    try:
        res = c.compile(P, kind)
    except (UPProblemDefinitionError, UPUsageError, UPExpressionDefinitionError) as e:
        msg = str(e)
        if any(r in msg for r in REJECTIONS):
            return "rejected", msg[:80]
        return "raised", f"{type(e).__name__}: {msg[:160]}"
    except UPConflictingEffectsException as e:
        return "rejected", "conflicting effects in the input action"
    except UPUnboundedVariablesError as e:
        if cname in ("cond", "pipe-qcdn", "pipe-gc"):
            return "rejected", "conditional effect under a forall cannot be removed"
        return "raised", f"{type(e).__name__}: {str(e)[:160]}"
    except Exception as e:
        return "raised", f"{type(e).__name__}: {str(e)[:160]}"
    return "ok", res


# -- well-formedness of a real problem (the property's second sentence) ---------------------------------

def all_names(P):
    out = [("type", t.name) for t in P.user_types] + [("object", o.name) for o in P.all_objects] + \
          [("fluent", f.name) for f in P.fluents] + [("action", a.name) for a in P.actions]
    for attr in ("processes", "events"):
        for x in getattr(P, attr, []):
            out.append((attr, x.name))
    return out


WF_CLAUSES = ("names", "object-type", "fluent-decl", "init", "action", "goal", "traj", "metric")


def wf_report(P):
    """(clause, message) of the FIRST failing clause of well-formedness, or None.  Written from the property text (every
    name unique; every referenced fluent, object, parameter and type declared) and from what the library's constructors
    demand (a fluent is applied to as many arguments as its signature has); the clauses are visited in the order of
    WF_CLAUSES so that the Lean judgement (Core/WellFormed.lean, wfVerdict) can be compared clause by clause."""
    names = all_names(P)
    seen = {}
    for k, n in names:
        if n in seen:
            return "names", f"name {n!r} declared twice ({seen[n]} and {k})"
        seen[n] = k
    fluents = set(P.fluents)
    objects = set(P.all_objects)
    types = set(P.user_types)

    def ty_ok(t):
        return (not t.is_user_type()) or t in types

    def walk(e, params, where):
        stack = [e]
        while stack:
            x = stack.pop()
            t = x.node_type
            if t == OK.FLUENT_EXP:
                if x.fluent() not in fluents:
                    return f"{where}: fluent {x.fluent().name!r} is not declared"
                if len(x.args) != len(x.fluent().signature):
                    return f"{where}: fluent {x.fluent().name!r} applied to {len(x.args)} arguments"
            elif t == OK.OBJECT_EXP:
                if x.object() not in objects:
                    return f"{where}: object {x.object().name!r} is not declared"
            elif t == OK.PARAM_EXP:
                if params is None or x.parameter() not in params:
                    return f"{where}: parameter {x.parameter().name!r} is not a parameter of the action"
            elif t == OK.VARIABLE_EXP:
                if not ty_ok(x.variable().type):
                    return f"{where}: type {x.variable().type} of variable {x.variable().name} is not declared"
            elif t in (OK.EXISTS, OK.FORALL):
                for v in x.variables():
                    if not ty_ok(v.type):
                        return f"{where}: type {v.type} of variable {v.name} is not declared"
            stack.extend(x.args)
        return None

    def walk_transition(a, ps, where):
        if isinstance(a, DurativeAction):
            conds = [c for cl in a.conditions.values() for c in cl]
            effs = [e for el in a.effects.values() for e in el]
            conds += [a.duration.lower, a.duration.upper]
        else:
            conds = list(getattr(a, "preconditions", []))
            effs = list(getattr(a, "effects", []))
        for c in conds:
            r = walk(c, ps, f"{where} condition")
            if r:
                return r
        for e in effs:
            for x in (e.fluent, e.value, e.condition):
                r = walk(x, ps, f"{where} effect")
                if r:
                    return r
            for v in e.forall:
                if not ty_ok(v.type):
                    return f"{where}: type of forall variable {v.name} is not declared"
        return None

    for o in P.all_objects:
        if not ty_ok(o.type):
            return "object-type", f"object {o.name}: type {o.type} is not declared"
    for f in P.fluents:
        for t in [f.type] + [p.type for p in f.signature]:
            if not ty_ok(t):
                return "fluent-decl", f"fluent {f.name}: type {t} is not declared"
        d = P.fluents_defaults.get(f)
        if d is not None:
            r = walk(d, None, f"default value of {f.name}")
            if r:
                return "fluent-decl", r
    for f, d in P.fluents_defaults.items():
        if f not in fluents:
            return "fluent-decl", f"default value for undeclared fluent {f.name!r}"
    for k, v in P.explicit_initial_values.items():
        for x in (k, v):
            r = walk(x, None, "initial value")
            if r:
                return "init", r
    for a in P.actions:
        ps = set(a.parameters)
        for p in a.parameters:
            if not ty_ok(p.type):
                return "action", f"action {a.name}: type {p.type} of parameter {p.name} is not declared"
        r = walk_transition(a, ps, f"action {a.name}")
        if r:
            return "action", r
    for attr in ("processes", "events"):
        for a in getattr(P, attr, []):
            r = walk_transition(a, set(a.parameters), f"{attr[:-1]} {a.name}")
            if r:
                return "action", r
    for g in P.goals:
        r = walk(g, None, "goal")
        if r:
            return "goal", r
    for tc in P.trajectory_constraints:
        r = walk(tc, None, "trajectory constraint")
        if r:
            return "traj", r
    for m in P.quality_metrics:
        if isinstance(m, MinimizeActionCosts):
            for a, c in m.costs.items():
                if a not in P.actions:
                    return "metric", f"metric: cost for action {a.name!r} which is not in the problem"
                if c is not None:
                    r = walk(c, set(a.parameters), f"metric cost of {a.name}")
                    if r:
                        return "metric", r
            if m.default is not None:
                r = walk(m.default, None, "metric default cost")
                if r:
                    return "metric", r
        elif hasattr(m, "expression"):
            r = walk(m.expression, None, "metric")
            if r:
                return "metric", r
        elif hasattr(m, "goals"):
            for g in m.goals:
                r = walk(g, None, "metric goal") if not isinstance(g, tuple) else walk(g[1], None, "metric goal")
                if r:
                    return "metric", r
    return None


def wellformed(P):
    """None, or a string naming what is wrong with problem P"""
    r = wf_report(P)
    return None if r is None else r[1]


def instance_of(P, a):
    """one ground instance of action a over P's objects (None when a parameter's domain is empty)"""
    em = P.environment.expression_manager
    args = []
    for p in a.parameters:
        t = p.type
        if t.is_user_type():
            objs = list(P.objects(t))
            if not objs:
                return None
            args.append(em.ObjectExp(objs[0]))
        elif t.is_bool_type():
            args.append(em.TRUE())
        elif t.is_int_type():
            args.append(em.Int(t.lower_bound if t.lower_bound is not None else 0))
        else:
            args.append(em.Real(t.lower_bound if t.lower_bound is not None else 0))
    return ActionInstance(a, tuple(args))


def back_conversion(orig, res):
    """None, or what is wrong with the plan back-conversion of result `res`"""
    if res.plan_back_conversion is None or not callable(res.plan_back_conversion):
        return "plan_back_conversion is not available (None)"
    if res.map_back_action_instance is None:
        return None
    ais = [ai for ai in (instance_of(res.problem, a) for a in res.problem.actions) if ai is not None]
    plan = SequentialPlan(ais, res.problem.environment)
    try:
        back = res.plan_back_conversion(plan)
    except Exception as e:
        return f"plan_back_conversion raised {type(e).__name__}: {str(e)[:120]}"
    if not isinstance(back, SequentialPlan):
        return f"plan_back_conversion returned {type(back).__name__}"
    oacts = set(orig.actions)
    n_none = 0
    for ai in ais:
        m = res.map_back_action_instance(ai)
        if m is None:
            n_none += 1
            continue
        if m.action not in oacts:
            return f"compiled action {ai.action.name} maps back to {m.action.name!r}, not an action of the original problem"
        if len(m.actual_parameters) != len(m.action.parameters):
            return f"compiled action {ai.action.name} maps back with a wrong number of parameters"
    if len(back.actions) != len(ais) - n_none:
        return "back-converted plan does not consist of the mapped-back instances"
    return None


def check_compile(cname, ps):
    """the property on one (compiler, problem): None | failing clause.  Second value: run status for stats."""
    P, _ = build_for(cname, ps)
    if wellformed(P) is not None:
        return None, "input-ill-formed"
    try:
        P.kind
    except Exception:
        return None, "kind-raises"
    st, res = run_compile(cname, P)
    if st in ("unsupported", "rejected"):
        return None, st
    if st == "raised":
        return f"{cname}: compile raised inside the supported kind: {res}", st
    if res.problem is None:
        return f"{cname}: result without a problem", st
    w = wellformed(res.problem)
    if w:
        return f"{cname}: compiled problem ill-formed: {w}", st
    b = back_conversion(P, res)
    if b:
        return f"{cname}: {b}", st
    return None, st


# ------------------------------------------------------------------------------------------------
# shrinking
# ------------------------------------------------------------------------------------------------

def _with(ps, key, items):
    return [s if not (isinstance(s, list) and s and s[0] == key) else [key] + items for s in ps]


def shrink_problem(ps):
    for key in ("actions", "goals", "traj", "metrics", "init", "objects"):
        items = upp.get(ps, key)
        for i in range(len(items)):
            yield _with(ps, key, items[:i] + items[i + 1:])
    acts = upp.get(ps, "actions")
    for i, a in enumerate(acts):
        _, name, params, pre, effs = a
        for j in range(1, len(pre)):
            yield _with(ps, "actions", acts[:i] + [["action", name, params, pre[:j] + pre[j + 1:], effs]] + acts[i + 1:])
        for j in range(1, len(effs)):
            yield _with(ps, "actions", acts[:i] + [["action", name, params, pre, effs[:j] + effs[j + 1:]]] + acts[i + 1:])
        for j in range(1, len(effs)):
            e = effs[j]
            if e[4] != ["b", "T"]:
                ne = ["eff", e[1], e[2], e[3], ["b", "T"], e[5]]
                yield _with(ps, "actions", acts[:i] + [["action", name, params, pre, effs[:j] + [ne] + effs[j + 1:]]] + acts[i + 1:])
    fl = upp.get(ps, "fluents")
    used = sexp.dumps([upp.get(ps, k) for k in ("init", "actions", "goals", "traj", "metrics")])
    for i, (ref, d) in enumerate(fl):
        if sexp.dumps(ref) not in used:
            yield _with(ps, "fluents", fl[:i] + fl[i + 1:])


def shrink(payload):
    if payload[0] in ("compile", "model"):
        for ps in shrink_problem(payload[2]):
            yield [payload[0], payload[1], ps]
    elif payload[0] == "fresh":
        init, reqs = payload[1], payload[2]
        for i in range(1, len(init)):
            yield ["fresh", init[:i] + init[i + 1:], reqs]
        for i in range(1, len(reqs)):
            yield ["fresh", init, reqs[:i] + reqs[i + 1:]]
    elif payload[0] == "result":
        plan = payload[4]
        for i in range(1, len(plan)):
            yield payload[:4] + [plan[:i] + plan[i + 1:]]


# ------------------------------------------------------------------------------------------------
# stream 4: the well-formedness judgement itself (oracle's predicate vs Lean's WF.wfProblem) on real compiled problems
# ------------------------------------------------------------------------------------------------

MUTATIONS = ["drop-fluent", "drop-object", "drop-type", "clash-name", "dup-action", "drop-param", "goal-param", "alien-fluent",
             "alien-object", "foreign-cost"]


def mutate(Q, mut, k):
    """damages the real problem Q in place (through its containers, the way a defective compiler would leave it);
    returns False when the mutation does not apply to Q"""
    env = Q.environment
    em, tm = env.expression_manager, env.type_manager
    if mut == "none":
        return True
    if mut == "drop-fluent":
        if not Q._fluents:
            return False
        f = Q._fluents[k % len(Q._fluents)]
        Q._fluents.remove(f)
        Q._fluents_defaults.pop(f, None)
        return True
    if mut == "drop-object":
        if not Q._objects:
            return False
        Q._objects.pop(k % len(Q._objects))
        return True
    if mut == "drop-type":
        fathers = set(t.father for t in Q._user_types if t.father is not None)
        leaves = [t for t in Q._user_types if t not in fathers]
        if not leaves:
            return False
        Q._user_types.remove(leaves[k % len(leaves)])
        return True
    if mut == "clash-name":
        acts = list(Q.actions)
        others = [n for kd, n in all_names(Q)]
        if not acts or len(others) < 2:
            return False
        a = acts[k % len(acts)]
        cand = [n for n in others if n != a.name]
        a.name = cand[(k // 7) % len(cand)]
        return True
    if mut == "dup-action":
        if not Q._actions:
            return False
        Q._actions.append(Q._actions[k % len(Q._actions)].clone())
        return True
    if mut == "drop-param":
        acts = [a for a in Q.actions if len(a.parameters) > 0]
        if not acts:
            return False
        acts[k % len(acts)]._parameters.popitem()
        return True
    if mut == "goal-param":
        ps = [p for a in Q.actions for p in a.parameters if p.type.is_user_type()]
        if not ps:
            return False
        pe = em.ParameterExp(ps[k % len(ps)])
        Q._goals.append(em.Equals(pe, pe))
        return True
    if mut == "alien-fluent":
        if not Q._fluents:
            return False
        f = Q._fluents[k % len(Q._fluents)]
        ty = tm.RealType() if (f.type.is_int_type() and f.type == tm.IntType()) else tm.IntType()
        alien = Fluent(f.name, ty, environment=env)
        Q._goals.append(em.LE(em.FluentExp(alien), em.Int(0)))
        return True
    if mut == "alien-object":
        if not Q._objects:
            return False
        o = Q._objects[k % len(Q._objects)]
        others = [t for t in Q._user_types if t != o.type]
        ty = others[(k // 5) % len(others)] if others else tm.UserType("C08_alien_type")
        oe = em.ObjectExp(Object(o.name, ty, env))
        Q._goals.append(em.Equals(oe, oe))
        return True
    if mut == "foreign-cost":
        names = set(n for _, n in all_names(Q))
        n = "C08_foreign"
        while n in names:
            n += "_"
        Q._metrics.append(MinimizeActionCosts({InstantaneousAction(n, _env=env): em.Int(1)}, environment=env))
        return True
    raise ValueError(mut)


def run_wfcheck(payload):
    """-> (impl answer, model payload)"""
    _, cname, ps, (mut, k) = payload
    P, _ = build_for(cname, ps)
    if wellformed(P) is not None:
        return ["skip", "input-ill-formed"], ["skip", "input-ill-formed"]
    try:
        P.kind
    except Exception:
        return ["skip", "kind-raises"], ["skip", "kind-raises"]
    st, res = run_compile(cname, P)
    if st != "ok" or res.problem is None:
        return ["skip", st], ["skip", st]
    Q = res.problem
    if not mutate(Q, mut, int(k)):
        return ["skip", "mutation-not-applicable"], ["skip", "mutation-not-applicable"]
    try:
        enc = upp.enc_problem(Q)
    except Exception:
        return ["skip", "not-in-wire-format"], ["skip", "not-in-wire-format"]
    r = wf_report(Q)
    return ["wf", "T", "_"] if r is None else ["wf", "F", r[0]], ["wf", enc]


# ------------------------------------------------------------------------------------------------
# stream 5: the named compiler models (Core/Compile/Named.lean) against the real compilers
# ------------------------------------------------------------------------------------------------

MODEL_COMPILER = {"cer": "cond", "dcr": "disj", "sir": "inv", "btr": "bounded", "qr": "quant"}


def adversarial_renaming(rng, ps, comp):
    """a renaming of the problem's types / objects / fluents / actions into the adversarial pool, plus planted neighbours:
    something named <action>_0 / <action>_1 (the counter suffixes the compilers hand out) and, for the disjunctive-conditions
    remover, things named like its fake goal fluent / fake actions"""
    pool = name_pool(rng)
    rng.shuffle(pool)
    syms = {"type": [n for n, _ in upp.get(ps, "types")], "obj": [n for n, _ in upp.get(ps, "objects")],
            "fl": [ref[0] for ref, _ in upp.get(ps, "fluents")], "act": [a[1] for a in upp.get(ps, "actions")]}
    R = {"type": {}, "obj": {}, "fl": {}, "act": {}, "par": {}}
    rate = rng.choice([0.0, 0.3, 0.6, 0.9])
    taken = set(sum(syms.values(), []))

    def put(k, n, m):
        if m in taken or n in R[k]:
            return False
        R[k][n] = m
        taken.add(m)
        taken.discard(n)
        return True
    for k in ("act", "obj", "fl", "type"):
        for n in syms[k]:
            if rng.random() < rate and pool:
                put(k, n, pool.pop())
    free = [(k, n) for k in ("act", "obj", "fl") for n in syms[k] if n not in R[k]]
    rng.shuffle(free)
    if syms["act"] and rng.random() < 0.6:
        a = rng.choice(syms["act"])
        an = R["act"].get(a, a)
        for suffix in rng.sample(["_0", "_1", "_0_0", "_2"], rng.choice([1, 2, 3])):
            if free:
                k, n = free.pop()
                put(k, n, an + suffix)
    if comp == "dcr" and rng.random() < 0.5:
        for m in rng.sample(["dcrm_fake_goal", "dcrm_fake_action", "dcrm_fake_action_0", "dcrm_fake_goal_0",
                             "dcrm_fake_action_1"], rng.choice([1, 2, 3])):
            if free:
                k, n = free.pop()
                put(k, n, m)
    return R


def gen_model_case(rng, comp):
    for _try in range(60):
        c = complib.gen_case(rng, comp, 1)
        if c is None:
            continue
        ps = c[3]
        if comp == "dcr" and rng.random() < 0.5:
            # a disjunctive goal: the remover's fake goal fluent and fake actions are created and named
            bools = [ref for ref, _ in upp.get(ps, "fluents") if ref[1] == "bool" and not ref[2]]
            if len(bools) >= 2:
                r1, r2 = rng.sample(bools, 2)
                lits = [["fl", r1], rng.choice([["fl", r2], ["not", ["fl", r2]]])] + ([["not", ["fl", r1]]] if rng.random() < 0.3 else [])
                ps = _with(ps, "goals", upp.get(ps, "goals")[:rng.choice([0, 1])] + [["or"] + lits])
        if comp in ("sir", "qr") and rng.random() < 0.5:
            # a universally quantified state invariant (forall k. always ...) next to the plain ones
            unary = [ref for ref, _ in upp.get(ps, "fluents") if ref[1] == "bool" and len(ref[2]) == 1 and ref[2][0][0] == "user"]
            if unary:
                ref = rng.choice(unary)
                v = ["k", ref[2][0]]
                body = ["fl", ref, ["v"] + v]
                if rng.random() < 0.5:
                    body = ["not", body]
                if rng.random() < 0.4:
                    nullary = [r for r, _ in upp.get(ps, "fluents") if r[1] == "bool" and not r[2]]
                    if nullary:
                        body = ["or", body, ["fl", rng.choice(nullary)]]
                ps = _with(ps, "traj", upp.get(ps, "traj") + [["forall", [v], ["always", body]]])
        try:
            ps = nonzero_divisors(rename_problem(ps, adversarial_renaming(rng, ps, comp)))
            P, _ = build(ps)
            if wellformed(P) is not None or not complib.supports(comp, P) or not complib.relevant(comp, P):
                continue
            canon = upp.enc_problem(P)
            P2, _ = build(canon)
            if upp.enc_problem(P2) != canon:
                continue            # the stored (simplified) expressions must survive the round trip through the wire format
        except Exception:
            continue
        return ["model", comp, canon]
    return None


def _ops(e):
    out, stack = set(), [e]
    while stack:
        x = stack.pop()
        out.add(x.node_type)
        stack.extend(x.args)
    return out


def target_reached(comp, Q):
    """is the compiled problem free of what the compiler removes (read off the compilers' docstrings)"""
    if comp == "cer":
        return not any(e.is_conditional() for a in Q.actions for e in a.effects)
    if comp == "dcr":
        return not any(OK.OR in _ops(c) or OK.IMPLIES in _ops(c) for c in [c for a in Q.actions for c in a.preconditions] + list(Q.goals))
    if comp == "qr":
        exprs = [c for a in Q.actions for c in a.preconditions] + [x for a in Q.actions for e in a.effects for x in (e.condition, e.value)]
        exprs += list(Q.goals) + list(Q.trajectory_constraints)
        return not any(OK.EXISTS in _ops(c) or OK.FORALL in _ops(c) for c in exprs) and \
            not any(e.is_forall() for a in Q.actions for e in a.effects)
    if comp == "sir":
        return len(Q.state_invariants) == 0
    if comp == "btr":
        def bounded(t):
            return (t.is_int_type() or t.is_real_type()) and (t.lower_bound is not None or t.upper_bound is not None)
        return not any(bounded(f.type) for f in Q.fluents)
    raise ValueError(comp)


def compiled_view(Q):
    """the compiled problem in the canonical view of complib.variants (C06's model correspondence) minus the variants"""
    from itertools import product
    goals = sorted((upx.enc_expr(g, sort_vars=True) for g in Q.goals), key=sexp.dumps)
    traj = sorted((upx.enc_expr(t, sort_vars=True) for t in Q.trajectory_constraints), key=sexp.dumps)
    init = []
    em = Q.environment.expression_manager
    for f in Q.fluents:
        doms = [list(Q.objects(p.type)) if p.type.is_user_type() else [] for p in f.signature]
        for combo in product(*doms):
            v = Q.initial_value(em.FluentExp(f, tuple(em.ObjectExp(o) for o in combo)))
            init.append([f.name, [o.name for o in combo], "undef" if v is None else upx.enc_val(v)])
    init.sort(key=sexp.dumps)
    return [["goals"] + goals, ["traj"] + traj, ["init"] + init]


def run_model(payload):
    """-> impl answer of a model case: the real compiled problem in C06's view (variants = origin, parameters, sorted
    preconditions, effects) + the action names in ORDER with their origins + fluent names + judgement + back-map + target"""
    _, comp, ps = payload
    cname = MODEL_COMPILER[comp]
    P, _ = build(ps)
    if wellformed(P) is not None:
        return ["skip"]
    st, res = run_compile(cname, P)
    if st in ("unsupported", "rejected"):
        return ["skip"]
    if st == "raised":
        return ["raised", res]
    Q = res.problem
    oacts = list(P.actions)
    names, variants, back_ok = [], [], True
    for a in Q.actions:
        ai = instance_of(Q, a)
        if ai is None:
            return ["skip"]
        b = res.map_back_action_instance(ai)
        origin = "_" if b is None else b.action.name
        if b is not None and b.action not in oacts:
            back_ok = False
        names.append([a.name, origin])
        pre = sorted((upx.enc_expr(c, sort_vars=True) for c in a.preconditions), key=sexp.dumps)
        variants.append(["variant", origin, [[p.name, upx.enc_ty(p.type)] for p in a.parameters], ["pre"] + pre,
                         ["effs"] + [upp.enc_effect(e) for e in a.effects]])
    variants.sort(key=sexp.dumps)
    r = wf_report(Q)
    return ["compiled", ["variants"] + variants] + compiled_view(Q) + [
        ["names"] + names, ["fluents"] + [f.name for f in Q.fluents],
        ["wf", "T", "_"] if r is None else ["wf", "F", r[0]],
        ["back-ok", "T" if back_ok else "F"], ["target", "T" if target_reached(comp, Q) else "F"]]


# ------------------------------------------------------------------------------------------------
# interface
# ------------------------------------------------------------------------------------------------

QUICK = {"fresh": 700, "result": 150, "problems": 110, "models": 100}
THOROUGH = {"fresh": 12000, "result": 1500, "problems": 1600, "models": 1000}
CHEAP = ["grounder", "cond", "disj", "neg", "quant", "utf", "bounded", "inv", "undef", "pipe-qg", "pipe-qcdn", "pipe-gc", "traj",
         "t2s", "d2p", "d2p"]


def negation_chain_cases():
    """deterministic: fluents a, a_0, a_1 and not_a, negated in every order of first use (the negative-conditions
    remover must name the negation of `a` past BOTH not_a_0 and not_a_1 whichever was handed out first)"""
    import itertools
    for order in itertools.permutations(["a_1", "a_0", "a"]):
        for extra in ([], ["not_a_0"], ["not_a_0_0"], ["not_a_1_0"], ["not_a_0_0", "not_a_1_0", "not_a_0_1"]):
            decl = ["a_1", "a_0", "a", "not_a", "done"] + extra
            refs = {n: [n, "bool", []] for n in decl}
            pre = [["not", ["fl", refs[n]]] for n in order]
            act = ["action", "act", [], ["pre"] + pre, ["effs", ["eff", "assign", ["fl", refs["done"]], ["b", "T"], ["b", "T"], []]]]
            yield ["problem", "p", ["types"], ["objects"], ["fluents"] + [[refs[n], ["b", "F"]] for n in decl], ["init"],
                   ["actions", act], ["goals", ["fl", refs["done"]]], ["traj"], ["metrics"]]


def grounding_clash_cases():
    """deterministic: move(a_b, c) and move(a, b_c) flatten to move_a_b_c; the problem also declares move_a_b_c_0 (and _1) as
    an action, a fluent or an object -- the second instance must skip the first one's name AND the declared ones"""
    T = ["user", "T"]
    f = ["f", "bool", [T]]
    objs = [["a_b", "T"], ["c", "T"], ["a", "T"], ["b_c", "T"]]
    move = ["action", "move", [["x", T], ["y", T]], ["pre", ["not", ["fl", f, ["p", "y", T]]]],
            ["effs", ["eff", "assign", ["fl", f, ["p", "x", T]], ["b", "T"], ["b", "T"], []]]]
    for kd in ("action", "fluent", "object"):
        for names in (["move_a_b_c_0"], ["move_a_b_c_0", "move_a_b_c_1"], ["move_a_b_c_1"]):
            o, fl, acts = list(objs), [[f, ["b", "F"]]], [move]
            for n in names:
                if kd == "action":
                    acts.append(["action", n, [], ["pre"], ["effs", ["eff", "assign", ["fl", f, ["o", "c", "T"]], ["b", "T"], ["b", "T"], []]]])
                elif kd == "fluent":
                    fl.append([[n, "bool", []], ["b", "F"]])
                else:
                    o.append([n, "T"])
            yield ["problem", "p", ["types", ["T", "_"]], ["objects"] + o, ["fluents"] + fl, ["init"], ["actions"] + acts,
                   ["goals", ["fl", f, ["o", "a", "T"]]], ["traj"], ["metrics"]]


def cases(rng, tier):
    n = QUICK if tier == "quick" else THOROUGH
    for ps in grounding_clash_cases():
        for cn in ("grounder", "pipe-gc", "traj"):
            yield ["compile", cn, ps]
    neg = [c for c in CHEAP if c in ("neg", "pipe-qcdn")]
    for ps in negation_chain_cases():
        for cn in (neg or CHEAP[:1]):
            yield ["compile", cn, ps]
    mi = 0
    for kind, (a, b, c, d) in enumerate(zip(*[_spread(n[k], 10) for k in ("fresh", "result", "problems", "models")])):
        for _ in range(d):
            # the compilers that Core/Compile/Named.lean names (complib.MODELLED has grown since: grounder, ncr)
            named = [c for c in complib.MODELLED if c in ("cer", "dcr", "sir", "btr", "qr")]
            comp = named[mi % len(named)]
            mi += 1
            mc = gen_model_case(rng, comp)
            if mc is not None:
                yield mc
        for _ in range(a):
            yield gen_fresh(rng)
        for _ in range(b):
            yield gen_result(rng)
        for _ in range(c):
            ps = gen_planted(rng) if rng.random() < 0.3 else gen_problem(rng)
            ps = plant_suffix_names(rng, ps)
            try:
                build(ps)
            except Exception:
                continue            # the real constructors reject the drawn problem (e.g. a conflicting effect pair)
            cs = ["grounder"] + rng.sample(CHEAP[1:], 3)
            for cn in cs:
                yield ["compile", cn, ps]
            # the judgement itself: the real compiled problem of two of these compilations, as it is and damaged
            plain = [x for x in cs if x not in DURATIVE]
            for j, cn in enumerate(rng.sample(plain, min(2, len(plain)))):
                if j == 0:
                    yield ["wfcheck", cn, ps, ["none", "0"]]
                if j == 1 or len(plain) < 2:
                    yield ["wfcheck", cn, ps, [rng.choice(MUTATIONS), str(rng.randrange(1000))]]


def _spread(n, k):
    return [n // k + (1 if i < n % k else 0) for i in range(k)]


def _compile_obs(payload):
    """runs the real compiler; -> (status, observation dict)"""
    cname, ps = payload[1], payload[2]
    P, _ = build_for(cname, ps)
    if wellformed(P) is not None:
        return "input-ill-formed", None
    try:
        P.kind
    except Exception:
        return "kind-raises", None
    st, res = run_compile(cname, P)
    if st != "ok":
        return st, res
    return st, (P, res)


def _ground_trace(P, res):
    """the naming requests of the grounder as observed on the real run, and its real answer"""
    helper = GrounderHelper(P, None, True)
    surv = {}
    for a in res.problem.actions:
        back = res.map_back_action_instance(ActionInstance(a))
        surv[(back.action.name, tuple(str(x) for x in back.actual_parameters))] = a.name
    acts, real = [], []
    for a in P.actions:
        insts = []
        for params in helper.get_possible_parameters(a):
            key = (a.name, tuple(str(x) for x in params))
            insts.append(["inst", "T" if key in surv else "F"] + list(key[1]))
        acts.append(["a", a.name, insts])
    for a in res.problem.actions:
        back = res.map_back_action_instance(ActionInstance(a))
        real.append([a.name, back.action.name] + [str(x) for x in back.actual_parameters])
    return ["ground-names", ["names"] + [n for _, n in all_names(P)], ["actions"] + acts], real


def _unique(names):
    return "T" if len(set(names)) == len(names) else "F"


_cache = {}


def _run(payload):
    """(impl answer, model payload) of one case; cached by case text because run_check asks for both separately"""
    key = sexp.dumps(payload)
    if key in _cache:
        return _cache[key]
    if len(_cache) > 4:
        _cache.clear()
    h = payload[0]
    if h == "fresh":
        P, out = run_fresh(payload)
        r = (["names"] + out + [["unique", _unique([n for _, n in all_names(P)])]], payload)
    elif h == "result":
        r = (run_result(payload), payload)
    elif h == "compile":
        st, obs = _compile_obs(payload)
        if st != "ok":
            if st == "raised":
                r = (["raised", obs], ["skip", "raised"])
            else:
                r = (["skip", st], ["skip", st])
        else:
            P, res = obs
            declared = [n for _, n in all_names(res.problem)]
            if payload[1] == "grounder":
                mp, real = _ground_trace(P, res)
                r = (["acts"] + real + [["unique", _unique(declared)]], mp)
            else:
                orig = set(n for _, n in all_names(P))
                new = [n for n in declared if n not in orig]
                r = (["unique", _unique(declared), ["new", str(len(new))]],
                     ["declared", ["names"] + declared, ["orig"] + [n for _, n in all_names(P)]])
    elif h == "wfcheck":
        r = run_wfcheck(payload)
    elif h == "model":
        r = (run_model(payload), ["compile-model", payload[1], payload[2]])
    else:
        raise ValueError(h)
    _cache[key] = r
    return r


def impl(payload):
    return _run(payload)[0]


def model_payload(payload):
    return _run(payload)[1]


def _fresh_entered_search(payload):
    taken = set(n for _, n in payload[1][1:])
    hit = False
    for _, base, params, trail in payload[2][1:]:
        j = "_".join([base] + list(params) + ([trail[1]] if trail[0] == "some" and trail[1] else []))
        if j in taken:
            hit = True
        k, n = 0, j
        while n in taken:
            n = f"{j}_{k}"
            k += 1
        taken.add(n)
    return hit


def nontrivial(payload, ans):
    h = payload[0]
    if h == "fresh":
        return _fresh_entered_search(payload)
    if h == "result":
        return isinstance(ans, list) and ans[0] == "ok" and payload[2] != "none" and len(payload[4]) > 1
    if h == "compile":
        if not isinstance(ans, list) or ans[0] in ("skip", "raised"):
            return False
        if payload[1] == "grounder":
            # some grounded name is not the plain join of its origin (the counter search was entered), or two instances
            # share their joined base
            joins = ["_".join(a[1:]) for a in ans[1:-1]]
            return len(set(joins)) < len(joins) or any(a[0] != "_".join(a[1:]) for a in ans[1:-1])
        return ans[0] == "unique" and ans[2][1] != "0"       # the compiler declared names the input did not have
    if h == "wfcheck":
        # a damaged compiled problem that is judged ill-formed
        return isinstance(ans, list) and ans[0] == "wf" and ans[1] == "F"
    if h == "model":
        # the compilation handed out at least one name that is not the name of the action it comes from
        return isinstance(ans, list) and ans[0] == "compiled" and any(n != o for n, o in _section(ans, "names"))
    return False


def _section(ans, key):
    for x in ans[1:]:
        if isinstance(x, list) and x and x[0] == key:
            return x[1:]
    return []


def compare(model_ans, impl_ans):
    if isinstance(impl_ans, list) and impl_ans and impl_ans[0] == "skip" and len(impl_ans) == 1:
        return True         # a model case the real compiler does not accept (outside the kind / documented rejection)
    return model_ans == impl_ans


def stats(payload, ans):
    h = payload[0]
    t = [h]
    if h == "compile":
        st = ans[0] if isinstance(ans, list) else str(ans)
        t.append(f"compile:{payload[1]}:{'ok' if st in ('acts', 'unique') else ans[1] if st == 'skip' else st}")
        if st == "acts":
            joins = ["_".join(a[1:]) for a in ans[1:-1]]
            if len(set(joins)) < len(joins):
                t.append("grounder:two-instances-share-joined-name")
            if any(a[0] != "_".join(a[1:]) for a in ans[1:-1]):
                t.append("grounder:counter-suffix-used")
    elif h == "wfcheck":
        if isinstance(ans, list) and ans[0] == "wf":
            t.append(f"wfcheck:{payload[3][0]}:{'well-formed' if ans[1] == 'T' else 'ill-formed:' + ans[2]}")
        else:
            t.append(f"wfcheck:skip:{ans[1] if isinstance(ans, list) and len(ans) > 1 else ans}")
    elif h == "model":
        st = ans[0] if isinstance(ans, list) else str(ans)
        t.append(f"model:{payload[1]}:{st}")
        if st == "compiled":
            names = _section(ans, "names")
            if any(n != o and o != "_" for n, o in names):
                t.append("model:counter-suffix-used")
            if any(o == "_" for n, o in names):
                t.append("model:fake-goal-actions")
            t.append("model:target-" + _section(ans, "target")[0])
    elif h == "fresh":
        if _fresh_entered_search(payload):
            t.append("fresh:counter-search")
    elif h == "result":
        t.append("result:" + (ans[0] if ans[0] == "error" else ans[1] if isinstance(ans[1], str) else "back-converted"))
    return t


def oracle(payload):
    """The property on the real code, from its text: compile succeeds (documented rejections excepted), every name of the
    compiled problem is unique, every referenced symbol is declared, a plan back-conversion is available and usable;
    names with separators never clash."""
    h = payload[0]
    if h == "compile":
        v, _ = check_compile(payload[1], payload[2])
        return v
    if h == "model":
        v, _ = check_compile(MODEL_COMPILER[payload[1]], payload[2])
        return v
    if h == "fresh":
        try:
            P, out = run_fresh(payload)
        except UPProblemDefinitionError as e:
            return f"registering a fresh name raised a name clash: {str(e)[:80]}"
        names = [n for _, n in all_names(P)]
        if len(set(names)) != len(names):
            return "names obtained through get_fresh_name clash"
        return None
    if h == "result":
        _, pb, mb, bk, plan = payload
        ans = run_result(payload)
        if pb == "problem" and (mb != "none") != (bk != "none"):
            # a result with a problem and exactly one way back: the back-conversion must be available
            if ans[0] != "ok" or ans[1] == "no-back-conversion":
                return "a result with a problem and an action map-back has no usable plan_back_conversion"
        return None
    return None


def _contains_fluent(e):
    return isinstance(e, list) and bool(e) and (e[0] == "fl" or any(_contains_fluent(x) for x in e[1:]))


def _nested_fluent(e):
    """some fluent application has an argument that itself contains a fluent application"""
    if not isinstance(e, list) or not e:
        return False
    if e[0] == "fl" and any(_contains_fluent(x) for x in e[2:]):
        return True
    return any(_nested_fluent(x) for x in e[1:])


def known_cause(payload):
    """id of the listed finding (known_findings.json) whose cause predicate this case satisfies"""
    if payload[0] == "model":
        payload = ["compile", MODEL_COMPILER[payload[1]], payload[2]]
    if payload[0] != "compile":
        return None
    cname, ps = payload[1], payload[2]
    if cname == "utf":
        # a numeric expression of a metric mentions a user-typed fluent
        ms = sexp.dumps(upp.get(ps, "metrics"))
        for ref, _ in upp.get(ps, "fluents"):
            if isinstance(ref[1], list) and ref[1][0] == "user" and sexp.dumps(["fl", ref])[:-1] in ms:
                return "C08-utf-metric-usertype-fluent"
    if cname == "t2s":
        # some effect of some action is a forall effect
        for a in upp.get(ps, "actions"):
            if any(e[5] for e in a[4][1:]):
                return "C08-t2s-forall-effect"
    if cname == "d2p":
        # some action applies a fluent to an argument that contains a fluent application
        if any(_nested_fluent(a) for a in upp.get(ps, "actions")):
            return "C08-d2p-nested-fluent-argument"
    return None


MANIFEST = {
    "level_text": ("Lean 4 theorems (Props/C08.lean, Props/C08Models.lean). Naming: over executable models of utils.get_fresh_name, "
                   "of the naming discipline of a compiler (requests answered against the name set of the problem under "
                   "construction, as the repaired GrounderHelper does) and of the CompilerResult decision table: the counter search "
                   "terminates without fuel and returns a name outside the set, any sequence of fresh-named additions keeps all "
                   "names pairwise distinct whatever separators the identifiers contain (with a kernel-checked clash for the "
                   "stale-set discipline of the unrepaired grounder: move(a_b,c) / move(a,b_c)), and a result with a problem and an "
                   "action map-back has a plan back-conversion equal to replace_action_instances. Well-formedness: a decidable "
                   "judgement WellFormed on problem syntax (all names of types / objects / fluents / actions pairwise distinct; every "
                   "fluent with its arity, object, parameter and type referenced by a precondition, effect, goal, trajectory "
                   "constraint, initial value, default or metric is declared) and, for the NAMED models of five compilers "
                   "(ConditionalEffectsRemover, DisjunctiveConditionsRemover incl. its fake goal fluent and fake actions, "
                   "StateInvariantsRemover, BoundedTypesRemover, QuantifiersRemover), for all problems: a well-formed metric-free "
                   "problem compiles to a well-formed problem, the map-back is total and lands in the original action list, and the "
                   "compiled problem is inside the compiler's target (no conditional effect; no disjunction in a precondition or "
                   "goal w.r.t. the DNF walker's postcondition; no quantifier / forall effect; no state invariant; no bounded "
                   "fluent type); closed under pipeline composition. Judgement, named models and naming models are tied to the code "
                   "by a differential correspondence check (incl. the judgement on damaged real compiled problems); every compiler "
                   "is additionally run on adversarially renamed problems under an oracle of the property (uniqueness, "
                   "declaredness, back-conversion) on the real code."),
    "level_note": ("Trusted: Lean kernel; axioms propext, Classical.choice, Quot.sound; the correspondence harness. Partial: the "
                   "well-formedness theorems cover five of the compilers (models of C06/C07 plus names) on metric-free problems "
                   "(hypothesis-free for the simplifier model of C11 and the DNF walker of C12 as the check runs them; for the "
                   "targets of the disjunctive-conditions and state-invariants removers the simplifier is assumed to create no "
                   "disjunction / no state invariant, and the DNF walker's postcondition on the conditions it is applied to is a "
                   "hypothesis); the grounder's transformation and the other compilers (negative-conditions, "
                   "usertype-fluents, trajectory-constraints, undefined-initial-numeric removers, the temporal ones) are covered by "
                   "the oracle on the real code only (12 compilers and 3 pipelines); the multi-agent, interpreted-function, conformant "
                   "(KS0) and tarski compilers are not exercised; three open findings (usertype-fluents remover on metrics, "
                   "timed-to-sequential on forall effects, durative-to-processes on nested fluent arguments) are excluded by cause "
                   "predicates."),
    "technique": "Lean 4 proof + model/code correspondence + property oracle over all compilers",
    "design_ref": "DESIGN.md §5 C08",
}
