"""C24 — Effect conflict detection is order-independent and exception-safe."""
import hashlib
import itertools
import random
import warnings
from fractions import Fraction

warnings.simplefilter("ignore")
import unified_planning as up
from unified_planning.shortcuts import (BoolType, IntType, RealType, UserType, Fluent, Object, InstantaneousAction,
                                        DurativeAction, Problem, StartTiming, EndTiming, GlobalStartTiming, Int,
                                        ObjectExp, Plus, Times, Div, Not, Or, TRUE, FALSE, get_environment)
from unified_planning.model import Event, Timepoint, TimepointKind, Timing
from unified_planning.model.scheduling import SchedulingProblem, Activity
from unified_planning.model.effect import SimulatedEffect
from unified_planning.exceptions import UPConflictingEffectsException

ID = "C24"
GEN = []
CORR_NAME = "raise-pattern-and-stored-content-after-every-insertion"
RULE = ("histories of 1-8 insertion attempts (add_effect / add_increase_effect / add_decrease_effect / "
        "add_timed_effect / set_simulated_effect) on an InstantaneousAction, an Event, a DurativeAction (1-3 timings, "
        "attempts interleaved across timings) or a Problem's timed effects (1-2 timings); fluents drawn from a pool of "
        "2-3 per case so that collisions are the norm; assign/increase/decrease, ~25% conditional (incl. a tautological "
        "condition), Boolean / int / real / user-typed / parametrised fluents, values equal or different, equal across "
        "int/real constants, non-constant values; 0-1 simulated effect per timing (sometimes 2: outside the symmetric "
        "class, exercised for correspondence and exception safety only). Every collection is emitted in several "
        "insertion orders (all 24 for sizes <= 4 in the thorough tier). Non-trivial = some attempt is rejected and a "
        "later attempt follows it, or two attempts of one time point interact (same tracked fluent, or a simulated "
        "effect covering a tracked fluent). "
        "TIME POINTS AS WRITTEN (payload head thist, ~60% of the collections): DurativeAction, scheduling Activity, "
        "SchedulingProblem (base chronicle) and Problem timed effects with 1-3 time points drawn from pools that contain "
        "near misses (start / global start / start of the activity / the number 0); every insertion writes its time "
        "point in a form drawn per insertion from all forms its signature accepts: Timing objects built by StartTiming(d) "
        "/ GlobalStartTiming(d) / EndTiming() / GlobalEndTiming(), base+d, base-(-d), (base+1/2)+(d-1/2), Timing(d, "
        "Timepoint), Timepoint+d, Timepoint-(-d), activity.start/.end+d, with the delay given as int, Fraction, float or "
        "str; a bare Timepoint (also activity.start/.end) for delay 0; a plain int / Fraction / float for global times "
        "(add_effect / add_increase_effect / add_decrease_effect of TimedCondsEffs objects only; set_simulated_effect and "
        "Problem.add_*effect get Timing objects as their signatures say). Orders of one collection are emitted with the "
        "spellings kept and with the spellings redrawn.")
ASSUMPTIONS = [
    "values are type-compatible with their fluents (an ill-typed value raises UPTypeError before the conflict check)",
    "'adding the collection raises' = some insertion of the collection raises UPConflictingEffectsException when the "
    "caller catches the error and goes on; by exception safety this coincides with stopping at the first error",
    "order independence is claimed for time points with at most one simulated effect in play: set_simulated_effect "
    "documents that it REPLACES the previous one, so with two of them acceptance depends on which is current "
    "(Props/C24 two_simulated_effects_order_dependent); the oracle skips the permutation clause for such time points",
    "empty bookkeeping entries created by dict.setdefault for a timing are not content (read through .get(timing, empty))",
    "forall-quantified effects and action parameters in fluent arguments are not generated (the check treats the "
    "fluent expression as an opaque hash-consed node either way)",
    "'the same time point' = the same canonical Timing (timepoint kind, container, delay as a number) however it is "
    "written; time expressions are given in the forms the SIGNATURES accept: TimeExpression (Timing | Timepoint | int | "
    "float | Fraction) for add_effect/add_increase_effect/add_decrease_effect of DurativeAction / Activity / "
    "SchedulingProblem, Timing for set_simulated_effect and for Problem.add_timed_effect/add_increase_effect/"
    "add_decrease_effect (these store under the object as given: a Timepoint or number handed to them against the "
    "signature becomes a separate dictionary key - observed, not generated); float delays are dyadic (exact)",
    "Activity.uses (a decrease at start followed by an increase at end in one call) is not generated as one operation",
]
MODELLED = ["modelled by hand (tied by correspondence): check_conflicting_effects, check_conflicting_simulated_effects, "
            "UntimedEffectMixin/TimedCondsEffs/Problem._add_effect_instance, set_simulated_effect, Timing.from_time, "
            "Timing.__add__/__eq__, Timepoint.__eq__ and the four dictionaries keyed by the raw time object",
            "Python numeric equality/hash across int/Fraction/float (a delay is a Rat); the constructors of Timing objects "
            "(StartTiming, +, -, uniform_numeric_constant) are exercised on the Python side only: the model receives the "
            "resulting (timepoint, delay)",
            "FNode identity as structural equality (C16); Python dict/set semantics; Fraction/int equality; "
            "the bool-as-int reading of payloadEq is unreachable through the public API (type check) and not exercised"]
BUDGET_S = {"quick": 40, "thorough": 500}

# ------------------------------------------------------------------------------------------------
# fixed universe of expressions (global environment; the actions/problems are fresh per case)
# ------------------------------------------------------------------------------------------------
_ENV = get_environment()
_EM = _ENV.expression_manager
Loc = UserType("Loc")
L1, L2 = Object("l1", Loc), Object("l2", Loc)
_FL = {
    "x": Fluent("x", IntType()), "z": Fluent("z", IntType()), "y": Fluent("y", RealType()),
    "b": Fluent("b", BoolType()), "bb": Fluent("bb", BoolType()),
    "loc": Fluent("loc", Loc), "loc2": Fluent("loc2", Loc),
    "c1": Fluent("c1", BoolType()), "c2": Fluent("c2", BoolType()),
    "w": Fluent("w", IntType(), p=Loc),
}
FLUENTS = {  # model key -> (FNode, type tag)
    "x": (_FL["x"](), "int"), "z": (_FL["z"](), "int"), "y": (_FL["y"](), "real"),
    "b": (_FL["b"](), "bool"), "bb": (_FL["bb"](), "bool"),
    "loc": (_FL["loc"](), "user"), "w_l1": (_FL["w"](L1), "int"), "w_l2": (_FL["w"](L2), "int"),
}
FL_NAME = {node: k for k, (node, _) in FLUENTS.items()}
SYMS = {  # non-constant value expressions by type
    "int": {"z": _FL["z"](), "z+1": Plus(_FL["z"](), 1), "x*2": Times(_FL["x"](), 2), "w_l1": _FL["w"](L1)},
    "real": {"y/2": Div(_FL["y"](), 2), "z": _FL["z"](), "y+z": Plus(_FL["y"](), _FL["z"]())},
    "bool": {"!bb": Not(_FL["bb"]()), "c1": _FL["c1"]()},
    "user": {"loc2": _FL["loc2"]()},
}
SYM_NODE = {k: v for d in SYMS.values() for k, v in d.items()}
SYM_NAME = {v: k for k, v in SYM_NODE.items()}
CONDS = {"c1": _FL["c1"](), "c2": _FL["c2"](), "!c1": Not(_FL["c1"]()), "taut": Or(_FL["c1"](), Not(_FL["c1"]()))}
COND_NAME = {v: k for k, v in CONDS.items()}
OBJS = {"l1": L1, "l2": L2}
DA_TIMINGS = ["start", "start+1", "end", "end-2"]
PB_TIMINGS = ["g0", "g5", "g7/2"]


def mk_timing(t, idx=0):
    if t == "start":
        return StartTiming()
    if t == "start+1":      # two spellings of one Timing
        return StartTiming(1) if idx % 2 == 0 else StartTiming() + 1
    if t == "end":
        return EndTiming()
    if t == "end-2":
        return EndTiming() - 2
    if t == "g0":
        return GlobalStartTiming()
    if t == "g5":
        return GlobalStartTiming(5)
    if t == "g7/2":
        return GlobalStartTiming(Fraction(7, 2))
    raise ValueError(t)


def mk_val(v):
    tag = v[0]
    if tag == "bool":
        return TRUE() if v[1] == "T" else FALSE()
    if tag == "int":
        return Int(int(v[1]))
    if tag == "real":
        return _EM.Real(Fraction(int(v[1]), int(v[2])))
    if tag == "obj":
        return ObjectExp(OBJS[v[1]])
    if tag == "sym":
        return SYM_NODE[v[1]]
    raise ValueError(v)


def val_out(node):
    if node.is_bool_constant():
        return ["bool", "T" if node.bool_constant_value() else "F"]
    if node.is_int_constant():
        return ["int", str(node.int_constant_value())]
    if node.is_real_constant():
        q = node.real_constant_value()
        return ["real", str(q.numerator), str(q.denominator)]
    if node.is_object_exp():
        return ["obj", node.object().name]
    return ["sym", SYM_NAME.get(node, "?" + str(node))]


def eff_out(e):
    kind = "assign" if e.is_assignment() else ("inc" if e.is_increase() else ("dec" if e.is_decrease() else "other"))
    cond = "T" if e.condition.is_true() else ["c", COND_NAME.get(e.condition, "?" + str(e.condition))]
    return [kind, FL_NAME.get(e.fluent, "?" + str(e.fluent)), val_out(e.value), cond]


def _dummy(problem, state, params):
    return []


class Container:
    """one fresh model object of /repo and accessors for what it stores per time point"""

    def __init__(self, kind):
        self.kind = kind
        if kind == "ia":
            self.o = InstantaneousAction("a")
        elif kind == "ev":
            self.o = Event("e")
        elif kind == "da":
            self.o = DurativeAction("d")
        elif kind == "pb":
            self.o = Problem("p")
        else:
            raise ValueError(kind)

    def attempt(self, op, idx):
        """True iff the insertion raised UPConflictingEffectsException"""
        o, k = self.o, self.kind
        try:
            if op[0] == "sim":
                se = SimulatedEffect([FLUENTS[f][0] for f in op[2]], _dummy)
                if k in ("ia", "ev"):
                    o.set_simulated_effect(se)
                elif k == "da":
                    o.set_simulated_effect(mk_timing(op[1], idx), se)
                else:
                    raise ValueError("no simulated effects on a problem")
            else:
                _, t, kind, f, _bt, v, c = op
                fl, val = FLUENTS[f][0], mk_val(v)
                cond = TRUE() if c == "T" else CONDS[c[1]]
                if k in ("ia", "ev"):
                    meth = {"assign": o.add_effect, "inc": o.add_increase_effect, "dec": o.add_decrease_effect}[kind]
                    meth(fl, val, cond)
                elif k == "da":
                    meth = {"assign": o.add_effect, "inc": o.add_increase_effect, "dec": o.add_decrease_effect}[kind]
                    meth(mk_timing(t, idx), fl, val, cond)
                else:
                    meth = {"assign": o.add_timed_effect, "inc": o.add_increase_effect, "dec": o.add_decrease_effect}[kind]
                    meth(mk_timing(t, idx), fl, val, cond)
            return False
        except UPConflictingEffectsException:
            return True

    def slot(self, t):
        o, k = self.o, self.kind
        if k in ("ia", "ev"):
            effs, sim = o.effects, o.simulated_effect
            asg, idc = o._fluents_assigned, o._fluents_inc_dec
        elif k == "da":
            T = mk_timing(t)
            effs, sim = o.effects.get(T, []), o.simulated_effects.get(T, None)
            asg, idc = o._fluents_assigned.get(T, {}), o._fluents_inc_dec.get(T, set())
        else:
            T = mk_timing(t)
            effs, sim = o.timed_effects.get(T, []), None
            asg, idc = o._fluents_assigned.get(T, {}), o._fluents_inc_dec.get(T, set())
        return [t,
                ["effects"] + [eff_out(e) for e in effs],
                ["sim", "none" if sim is None else sorted(FL_NAME[f] for f in sim.fluents)],
                ["assigned"] + sorted([FL_NAME.get(f, "?" + str(f)), val_out(v)] for f, v in asg.items()),
                ["incdec"] + sorted(FL_NAME.get(f, "?" + str(f)) for f in idc)]

    def state(self, timings):
        return [self.slot(t) for t in timings]



# ------------------------------------------------------------------------------------------------
# time points AS WRITTEN (payload head `thist`): containers with several time points whose insertion
# methods accept a TimeExpression; canonical time point = (timepoint kind, container, delay)
# ------------------------------------------------------------------------------------------------
ACT = "act1"
TP_KIND = {"gs": TimepointKind.GLOBAL_START, "ge": TimepointKind.GLOBAL_END,
           "s": TimepointKind.START, "e": TimepointKind.END}
KIND_TP = {v: k for k, v in TP_KIND.items()}
HALF = Fraction(1, 2)
T_POOLS = {  # near misses on purpose: start / global start / start of the activity / the number 0
    "da": [("s", "-", 0), ("s", "-", 1), ("e", "-", 0), ("e", "-", -2), ("gs", "-", 0), ("gs", "-", 5),
           ("gs", "-", Fraction(7, 2)), ("s", "-", HALF), ("ge", "-", 0)],
    "act": [("s", ACT, 0), ("e", ACT, 0), ("s", ACT, 1), ("e", ACT, -2), ("s", "-", 0), ("gs", "-", 0),
            ("gs", "-", 5), ("gs", "-", Fraction(7, 2))],
    "sp": [("gs", "-", 0), ("gs", "-", 5), ("gs", "-", Fraction(7, 2)), ("s", ACT, 0), ("e", ACT, 0),
           ("e", ACT, 2), ("ge", "-", 0)],
    "pb": [("gs", "-", 0), ("gs", "-", 5), ("gs", "-", Fraction(7, 2)), ("gs", "-", 1), ("s", "-", 0)],
}
T_POOLS = {k: [(a, b, Fraction(c)) for a, b, c in v] for k, v in T_POOLS.items()}
TIMED_KINDS = ("da", "act", "sp", "pb")


def tm_label(point):
    K, C, q = point
    return ["tm", K, C, str(q.numerator), str(q.denominator)]


def label_point(lb):
    return (lb[1], lb[2], Fraction(int(lb[3]), int(lb[4])))


def point_of(te):
    """the time point a written time expression denotes (doc of Timing.from_time: a number is a delay from the
    global start, a Timepoint is itself with delay 0) - computed from the payload, never from library objects"""
    if te[0] == "timing":
        return (te[1], te[2], Fraction(int(te[3]), int(te[4])))
    if te[0] == "timepoint":
        return (te[1], te[2], Fraction(0))
    if te[0] == "num":
        return ("gs", "-", Fraction(int(te[1]), int(te[2])))
    raise ValueError(te)


def canonical_texpr(point):
    K, C, q = point
    return ["timing", K, C, str(q.numerator), str(q.denominator), "raw", "frac"]


def tkey(op):
    """grouping key of an insertion: its time point (old payloads: the name of the timing)"""
    return op[1] if isinstance(op[1], str) else point_of(op[1])


def lkey(label):
    return label if isinstance(label, str) else label_point(label)


def mk_number(q, ty):
    if ty == "int":
        assert q.denominator == 1
        return int(q)
    if ty == "frac":
        return Fraction(q)
    if ty == "float":
        return float(q)
    if ty == "str":
        return str(q)
    raise ValueError(ty)


def _tp(K, C):
    return Timepoint(TP_KIND[K], container=None if C == "-" else C)


def _base(K, C):
    c = None if C == "-" else C
    if K == "s":
        return StartTiming(container=c)
    if K == "e":
        return EndTiming(container=c)
    assert c is None
    return GlobalStartTiming() if K == "gs" else up.model.GlobalEndTiming()


def mk_time(te, act=None):
    """the Python object the caller writes"""
    if te[0] == "num":
        return mk_number(Fraction(int(te[1]), int(te[2])), te[3])
    if te[0] == "timepoint":
        K, C, form = te[1], te[2], te[3]
        if form == "attr":
            return act.start if K == "s" else act.end
        return _tp(K, C)
    K, C, q, route, ty = te[1], te[2], Fraction(int(te[3]), int(te[4])), te[5], te[6]
    c = None if C == "-" else C
    if route == "ctor":
        if K == "s":
            return StartTiming(mk_number(q, ty), container=c)
        if K == "gs":
            return GlobalStartTiming(mk_number(q, ty))
        assert q == 0
        return _base(K, C)
    if route == "plus":
        return _base(K, C) + mk_number(q, ty)
    if route == "minus":
        return _base(K, C) - mk_number(-q, ty)
    if route == "split":
        return (_base(K, C) + HALF) + mk_number(q - HALF, ty)
    if route == "raw":
        return Timing(mk_number(q, ty), _tp(K, C))
    if route == "tpplus":
        return _tp(K, C) + mk_number(q, ty)
    if route == "tpminus":
        return _tp(K, C) - mk_number(-q, ty)
    if route == "attrplus":
        return (act.start if K == "s" else act.end) + mk_number(q, ty)
    raise ValueError(te)


def written_forms(point, kind):
    """every way the harness can write `point` for a container of class `kind`, by class of Python object"""
    K, C, q = point
    n, d = str(q.numerator), str(q.denominator)
    out = {"timing": [], "timepoint": [], "num": []}

    def tys(x, allow_str):
        return ["frac", "float"] + (["int"] if x.denominator == 1 else []) + (["str"] if allow_str else [])

    for route, arg, allow_str in [("ctor", q, True), ("plus", q, False), ("minus", -q, False),
                                  ("split", q - HALF, False), ("raw", q, True), ("tpplus", q, False),
                                  ("tpminus", -q, False), ("attrplus", q, False)]:
        if route == "ctor" and K in ("e", "ge"):
            if q == 0:
                out["timing"].append(["timing", K, C, n, d, "ctor", "int"])
            continue
        if route == "attrplus" and not (kind in ("act", "sp") and C == ACT):
            continue
        for ty in tys(arg, allow_str):
            out["timing"].append(["timing", K, C, n, d, route, ty])
    if q == 0:
        out["timepoint"].append(["timepoint", K, C, "tp"])
        if kind in ("act", "sp") and C == ACT:
            out["timepoint"].append(["timepoint", K, C, "attr"])
    if K == "gs" and C == "-":
        for ty in tys(q, False):
            out["num"].append(["num", n, d, ty])
    return out


def rand_texpr(rng, point, kind, timing_only, plain):
    f = written_forms(point, kind)
    if plain:
        return canonical_texpr(point)
    classes = ["timing"] if timing_only else [c for c in ("timing", "timepoint", "num") if f[c]]
    other = [c for c in classes if c != "timing"]
    cls = rng.choice(other) if other and rng.random() < 0.6 else "timing"
    return rng.choice(f[cls])


def key_out(k):
    if isinstance(k, Timing):
        q = Fraction(k.delay)
        return ["tm", KIND_TP[k.timepoint.kind], k.timepoint.container or "-", str(q.numerator), str(q.denominator)]
    if isinstance(k, Timepoint):
        return ["timepoint", KIND_TP[k.kind], k.container or "-"]
    if isinstance(k, (int, float, Fraction)) and not isinstance(k, bool):
        q = Fraction(k)
        return ["num", str(q.numerator), str(q.denominator)]
    return ["other", type(k).__name__]


def _dump(x):
    import sexp as _sexp
    return _sexp.dumps(x)


class TContainer:
    """one fresh object of /repo with several time points, and what its four dictionaries hold"""

    def __init__(self, kind):
        self.kind, self.act = kind, None
        if kind == "da":
            self.o = DurativeAction("d")
            self.tce = self.o
        elif kind == "act":
            self.o = Activity(ACT, 3)
            self.act, self.tce = self.o, self.o
        elif kind == "sp":
            self.o = SchedulingProblem("sp")
            self.act = self.o.add_activity(ACT, 3)
            self.tce = self.o._base
        elif kind == "pb":
            self.o = Problem("p")
            self.tce = None
        else:
            raise ValueError(kind)

    def dicts(self):
        if self.kind == "pb":
            return self.o.timed_effects, {}, self.o._fluents_assigned, self.o._fluents_inc_dec
        t = self.tce
        return t.effects, t.simulated_effects, t._fluents_assigned, t._fluents_inc_dec

    def attempt(self, op, idx=0):
        """True iff the insertion raised UPConflictingEffectsException"""
        o, k = self.o, self.kind
        time = mk_time(op[1], self.act)
        try:
            if op[0] == "sim":
                if k not in ("da", "act"):
                    raise ValueError("no public set_simulated_effect on this container")
                o.set_simulated_effect(time, SimulatedEffect([FLUENTS[f][0] for f in op[2]], _dummy))
            else:
                _, _, ekind, f, _bt, v, c = op
                fl, val = FLUENTS[f][0], mk_val(v)
                cond = TRUE() if c == "T" else CONDS[c[1]]
                first = o.add_timed_effect if k == "pb" else o.add_effect
                meth = {"assign": first, "inc": o.add_increase_effect, "dec": o.add_decrease_effect}[ekind]
                meth(time, fl, val, cond)
            return False
        except UPConflictingEffectsException:
            return True

    @staticmethod
    def _slot(label, effs, sim, asg, idc):
        return [label,
                ["effects"] + [eff_out(e) for e in effs],
                ["sim", "none" if sim is None else sorted(FL_NAME[f] for f in sim.fluents)],
                ["assigned"] + sorted([FL_NAME.get(f, "?" + str(f)), val_out(v)] for f, v in asg.items()),
                ["incdec"] + sorted(FL_NAME.get(f, "?" + str(f)) for f in idc)]

    def state(self, timings):
        """[(slots ...), (stray ...)]: content under the canonical Timing of every listed time point, and every OTHER
        key under which some dictionary holds content"""
        E, S, A, I = self.dicts()
        canon = []
        slots = []
        for lb in timings:
            K, C, q = label_point(lb)
            T = Timing(q, _tp(K, C))
            canon.append(T)
            slots.append(self._slot(lb, E.get(T, []), S.get(T, None), A.get(T, {}), I.get(T, set())))
        stray = []
        for dct in (E, S, A, I):
            for key, content in dct.items():
                if (content is not None and (dct is S or len(content) > 0)) and not any(
                        isinstance(key, Timing) and key == T for T in canon):
                    ko = key_out(key)
                    if ko not in stray:
                        stray.append(ko)
        return [["slots"] + slots, ["stray"] + sorted(stray, key=_dump)]

    def snapshot(self):
        """everything the four dictionaries hold, under whatever key"""
        E, S, A, I = self.dicts()
        keys = []
        for dct in (E, S, A, I):
            for key in dct:
                if not any(type(key) is type(k2) and key == k2 for k2 in keys):
                    keys.append(key)
        out = [self._slot(key_out(k), E.get(k, []), S.get(k, None), A.get(k, {}), I.get(k, set())) for k in keys]
        return sorted((x for x in out if x[1:] != [["effects"], ["sim", "none"], ["assigned"], ["incdec"]]), key=_dump)


def container(kind, timed):
    return TContainer(kind) if timed else Container(kind)


def parts(payload):
    return payload[1], payload[2][1:], payload[3][1:]


def is_timed(payload):
    return payload[0] == "thist"


def run_history(kind, timings, ops, timed=False):
    c = container(kind, timed)
    out = []
    for i, op in enumerate(ops):
        r = c.attempt(op, i)
        out.append((r, c.state(timings)))
    return out


def impl(payload):
    kind, timings, ops = parts(payload)
    try:
        if is_timed(payload):
            return [["r", "T" if r else "F"] + st for r, st in run_history(kind, timings, ops, True)]
        return [["r", "T" if r else "F", st] for r, st in run_history(kind, timings, ops)]
    except Exception as e:   # anything but a conflict error is outside the model
        return ["error", type(e).__name__, str(e)[:120]]


# ------------------------------------------------------------------------------------------------
# generation
# ------------------------------------------------------------------------------------------------

def tracked(op):
    return op[0] == "eff" and op[4] == "N" and op[6] == "T"


def rand_value(rng, ty, pool):
    """a value for a fluent of type `ty`; `pool` keeps values few so that equal values are common"""
    if ty == "int":
        r = rng.random()
        if r < 0.75:
            return ["int", str(rng.choice(pool["ints"]))]
        return ["sym", rng.choice(sorted(SYMS["int"]))]
    if ty == "real":
        r = rng.random()
        if r < 0.35:
            return ["int", str(rng.choice(pool["ints"]))]
        if r < 0.6:      # the same number as a REAL constant (possibly unnormalised)
            k = rng.choice(pool["ints"])
            m = rng.choice([1, 1, 2, 3])
            return ["real", str(k * m), str(m)]
        if r < 0.8:
            return ["real", str(rng.choice(pool["ints"])), str(rng.choice([2, 3, 4]))]
        return ["sym", rng.choice(sorted(SYMS["real"]))]
    if ty == "bool":
        r = rng.random()
        if r < 0.8:
            return ["bool", rng.choice(["T", "F"])]
        return ["sym", rng.choice(sorted(SYMS["bool"]))]
    r = rng.random()
    if r < 0.8:
        return ["obj", rng.choice(["l1", "l2"])]
    return ["sym", "loc2"]


def rand_collection(rng, kind, size_hint=None, timings=None, sims_ok=None):
    """returns (timings, ops) — ops in one arbitrary order"""
    if sims_ok is None:
        sims_ok = kind != "pb"
    if timings is not None:
        pass
    elif kind in ("ia", "ev"):
        timings = ["now"]
    elif kind == "da":
        timings = rng.sample(DA_TIMINGS, rng.choice([1, 1, 2, 3]))
    else:
        timings = rng.sample(PB_TIMINGS, rng.choice([1, 1, 2]))
    fl_pool = rng.sample(sorted(FLUENTS), rng.choice([1, 2, 2, 3]))
    if rng.random() < 0.7 and not any(FLUENTS[f][1] in ("int", "real") for f in fl_pool):
        fl_pool[0] = rng.choice(["x", "y", "z", "w_l1"])
    pool = {"ints": rng.sample([0, 1, 2, -3, 7, 2 ** 53 + 1, 10 ** 30], 2)}
    if rng.random() < 0.15:      # the real-typed fluent: int and real constants of few numbers meet
        fl_pool = ["y"] + [f for f in fl_pool if f != "y"][:1]
        pool["ints"] = pool["ints"][:rng.choice([1, 2])]
    n = size_hint or rng.choice([1, 2, 3, 3, 4, 4, 4, 5, 5, 6, 7, 8])
    ops = []
    sims = {t: 0 for t in timings}
    for _ in range(n):
        t = rng.choice(timings)
        r = rng.random()
        if sims_ok and r < 0.22 and (sims[t] == 0 or rng.random() < 0.12):
            k = rng.choice([1, 1, 2, 3])
            cand = fl_pool + ([rng.choice(sorted(FLUENTS))] if rng.random() < 0.3 else [])
            fl = [rng.choice(cand) for _ in range(k)]
            ops.append(["sim", t, fl])
            sims[t] += 1
            continue
        f = rng.choice(fl_pool)
        ty = FLUENTS[f][1]
        if ty in ("int", "real"):
            ekind = rng.choice(["assign", "assign", "inc", "dec"])
        else:
            ekind = "assign"
        if ekind == "assign":
            v = rand_value(rng, ty, pool)
        else:   # increase / decrease amounts: constants or expressions of the fluent's numeric type
            v = rand_value(rng, "int" if ty == "int" else "real", pool)
        c = "T" if rng.random() < 0.75 else ["c", rng.choice(sorted(CONDS))]
        ops.append(["eff", t, ekind, f, "B" if ty == "bool" else "N", v, c])
    return timings, ops


def mk_case(kind, timings, ops):
    return ["hist", kind, ["timings"] + list(timings), ["ops"] + [list(o) for o in ops]]


def mk_tcase(kind, points, ops):
    return ["thist", kind, ["timings"] + [tm_label(p) for p in points], ["ops"] + [list(o) for o in ops]]


def rand_tcollection(rng, kind):
    """a collection for a container with several time points: (points, abstract ops whose time is an index into points)"""
    pool = T_POOLS[kind]
    r = rng.random()
    if r < 0.25:      # near misses together: same delay, different time point
        q0 = [p for p in pool if p[2] == 0]
        points = rng.sample(q0, min(len(q0), rng.choice([2, 3])))
    else:
        points = rng.sample(pool, rng.choice([1, 1, 2, 3]))
    names = [f"p{i}" for i in range(len(points))]
    _, ops = rand_collection(rng, kind, timings=names, sims_ok=kind in ("da", "act"))
    return points, [[op[0], names.index(op[1])] + op[2:] for op in ops]


def spell(rng, kind, points, aops, plain=False):
    """writes the time point of every insertion in a form drawn for that insertion"""
    out = []
    for op in aops:
        timing_only = kind == "pb" or op[0] == "sim"
        out.append([op[0], rand_texpr(rng, points[op[1]], kind, timing_only, plain)] + op[2:])
    return out


def _orders(rng, n, tier):
    if tier != "quick" and n <= 4:
        return list(itertools.permutations(range(n)))
    k = 5 if tier == "quick" else 8
    orders = {tuple(range(n)), tuple(reversed(range(n)))}
    for _ in range(k):
        p = list(range(n))
        rng.shuffle(p)
        orders.add(tuple(p))
    return sorted(orders)


def cases(rng, tier):
    n_coll = 600 if tier == "quick" else 6000
    for _ in range(n_coll):
        kind = rng.choice(["ia", "ia", "ev", "da", "pb", "tda", "tda", "tda", "tda", "tact", "tact", "tsp", "tpb"])
        if kind[0] == "t" and kind[1:] in TIMED_KINDS:
            kind = kind[1:]
            points, aops = rand_tcollection(rng, kind)
            plain = rng.random() < 0.1       # every time point as the canonical Timing (the old domain)
            ops = spell(rng, kind, points, aops, plain)
            for p in _orders(rng, len(ops), tier):
                if not plain and rng.random() < 0.5:     # the same collection, same order, spellings redrawn
                    ops2 = spell(rng, kind, points, aops)
                    yield mk_tcase(kind, points, [ops2[i] for i in p])
                else:
                    yield mk_tcase(kind, points, [ops[i] for i in p])
            continue
        timings, ops = rand_collection(rng, kind)
        for p in _orders(rng, len(ops), tier):
            yield mk_case(kind, timings, [ops[i] for i in p])


# ------------------------------------------------------------------------------------------------
# evidence helpers
# ------------------------------------------------------------------------------------------------

def _interacting(ops):
    by_t = {}
    for op in ops:
        by_t.setdefault(tkey(op), []).append(op)
    for t, l in by_t.items():
        tr = [op[3] for op in l if tracked(op)]
        if len(tr) != len(set(tr)):
            return True
        for op in l:
            if op[0] == "sim" and set(op[2]) & set(tr):
                return True
    return False


def nontrivial(payload, ans):
    if not ans or ans[0] == "error":
        return False
    _, _, ops = parts(payload)
    rs = [a[1] == "T" for a in ans]
    reject_then_more = any(r and i + 1 < len(rs) for i, r in enumerate(rs))
    return reject_then_more or _interacting(ops)


def spelling_tags(ops):
    """how the time points of a history are written"""
    t = []
    by_point = {}
    for op in ops:
        by_point.setdefault(point_of(op[1]), []).append(op)
    if all(op[1][0] == "timing" for op in ops):
        t.append("spelling:timing-objects-only")
    else:
        t.append("spelling:some-timepoint-or-number")
    if any(len({_dump(op[1]) for op in l}) > 1 for l in by_point.values()):
        t.append("spelling:one-point-written-in-several-forms")
    if any(len({op[1][0] for op in l}) > 1 for l in by_point.values()):
        t.append("spelling:one-point-as-several-classes-of-object")
    if any(op[1][0] == "timing" and op[1][6] in ("frac", "float", "str") and int(op[1][4]) == 1 for op in ops) and \
            any(op[1][0] == "timing" and op[1][6] == "int" for op in ops):
        t.append("spelling:integral-delay-as-int-and-as-fraction/float/str")
    for l in by_point.values():      # the shape of the seeded change C24-2 and its neighbours
        sims = [op for op in l if op[0] == "sim"]
        hit = [op for op in l if tracked(op) and op[1][0] != "timing"]
        if any(op[3] in sm[2] for sm in sims for op in hit):
            t.append("spelling:sim-covers-tracked-effect-written-as-timepoint/number")
            break
    for l in by_point.values():
        tr = [op for op in l if tracked(op)]
        if any(a[3] == b[3] and a[1][0] != b[1][0] for a in tr for b in tr):
            t.append("spelling:two-tracked-effects-on-one-fluent-written-as-different-classes")
            break
    return t


def stats(payload, ans):
    if not ans or ans[0] == "error":
        return ["error"]
    kind, timings, ops = parts(payload)
    rs = [a[1] == "T" for a in ans]
    timed = is_timed(payload)
    t = [f"container={kind}{'(as-written)' if timed else ''}", f"ops={len(ops)}", f"raised={sum(rs)}",
         f"timings={len(timings)}"]
    if timed:
        t += spelling_tags(ops)
    if any(op[0] == "sim" for op in ops):
        t.append("with-sim")
    if any(sum(1 for op in ops if op[0] == "sim" and tkey(op) == lkey(tm)) > 1 for tm in timings):
        t.append("two-sims-at-one-timing")
    for i, r in enumerate(rs):
        if r and any(not q for q in rs[i + 1:]):
            t.append("accepted-after-a-rejection")
            break
    if any(r and ops[i][0] == "sim" for i, r in enumerate(rs)):
        t.append("sim-rejected")
    if any(r and ops[i][0] == "eff" and ops[i][2] != "assign" for i, r in enumerate(rs)):
        t.append("incdec-rejected")
    cur = {}
    for i, r in enumerate(rs):
        op = ops[i]
        if op[0] == "sim" and not r:
            cur[tkey(op)] = op[2]
        if r and op[0] == "eff" and op[2] != "assign" and op[3] in cur.get(tkey(op), []):
            t.append("incdec-rejected-under-covering-sim")
            break
    if any(r and ops[i][0] == "eff" and ops[i][2] == "assign" for i, r in enumerate(rs)):
        t.append("assign-rejected")
    vals = {}
    for op in ops:
        if tracked(op) and op[2] == "assign" and op[5][0] in ("int", "real"):
            q = Fraction(int(op[5][1]), int(op[5][2]) if op[5][0] == "real" else 1)
            vals.setdefault((tkey(op), op[3], q), set()).add(op[5][0])
    if any(len(s) > 1 for s in vals.values()):
        t.append("same-number-as-int-and-real")
    return t


# ------------------------------------------------------------------------------------------------
# the property itself on the real code
# ------------------------------------------------------------------------------------------------

def _pattern(kind, timings, ops, timed=False):
    c = container(kind, timed)
    return [c.attempt(op, i) for i, op in enumerate(ops)], c


def _content(c, timings):
    """everything stored; for the containers with several time points: under whatever key"""
    return c.snapshot() if isinstance(c, TContainer) else c.state(timings)


def oracle(payload):
    kind, timings, ops = parts(payload)
    timed = is_timed(payload)
    # clause 2a: a rejected insertion leaves stored effects, simulated effect and bookkeeping unchanged
    c = container(kind, timed)
    rs = []
    for i, op in enumerate(ops):
        before = _content(c, timings)
        r = c.attempt(op, i)
        rs.append(r)
        if r and _content(c, timings) != before:
            return f"rejected insertion #{i} changed the stored content"
    final = _content(c, timings)
    # clause 2b: later insertions are judged as if a rejected one had never been attempted
    acc = [op for op, r in zip(ops, rs) if not r]
    if len(acc) != len(ops):
        prs, c2 = _pattern(kind, timings, acc, timed)
        if any(prs):
            return "replaying only the accepted insertions raises"
        if _content(c2, timings) != final:
            return "replaying only the accepted insertions gives different content"
        for i, r in enumerate(rs):
            if r:
                prs, _ = _pattern(kind, timings, ops[:i] + ops[i + 1:], timed)
                if prs != rs[:i] + rs[i + 1:]:
                    return f"dropping rejected insertion #{i} changes how the others are judged"
    # clause 1: whether adding the collection of one time point raises does not depend on the order
    rng = random.Random(int(hashlib.sha1(repr(payload).encode()).hexdigest()[:8], 16))
    for t in timings:
        coll = [op for op in ops if tkey(op) == lkey(t)]     # the SAME time point, however it is written
        if sum(1 for op in coll if op[0] == "sim") > 1 or len(coll) < 2:
            continue
        n = len(coll)
        if n <= 4:
            orders = list(itertools.permutations(range(n)))
        else:
            orders = [tuple(range(n)), tuple(reversed(range(n)))]
            for _ in range(14):
                p = list(range(n))
                rng.shuffle(p)
                orders.append(tuple(p))
        verdicts = set()
        for p in orders:
            prs, _ = _pattern(kind, [t], [coll[i] for i in p], timed)
            verdicts.add(any(prs))
            if len(verdicts) > 1:
                return f"at {_dump(t)}: whether the collection raises depends on the insertion order ({list(p)})"
    # whole history reversed (interleaving across time points)
    if all(sum(1 for op in ops if op[0] == "sim" and tkey(op) == lkey(t)) <= 1 for t in timings):
        prs, _ = _pattern(kind, timings, list(reversed(ops)), timed)
        if any(prs) != any(rs):
            return "whether the history raises differs for the reversed history"
    # the collection is the same collection however its time points are written: every insertion with its time point
    # as the canonical Timing object is judged the same and leaves the same content
    if timed and any(op[1] != canonical_texpr(point_of(op[1])) for op in ops):
        prs, c3 = _pattern(kind, timings, [[op[0], canonical_texpr(point_of(op[1]))] + op[2:] for op in ops], True)
        if prs != rs:
            return "writing the time points as canonical Timing objects changes which insertions raise"
        if _content(c3, timings) != final:
            return "writing the time points as canonical Timing objects changes the stored content"
    return None


def shrink_t(payload):
    kind, timings, ops = parts(payload)
    pts = [label_point(t) for t in timings]

    def mk(ops2):
        used = [p for p in pts if any(point_of(op[1]) == p for op in ops2)] or pts[:1]
        return mk_tcase(kind, used, ops2)
    for i in range(len(ops)):
        yield mk(ops[:i] + ops[i + 1:])
    for i, op in enumerate(ops):
        if op[0] == "sim" and len(op[2]) > 1:
            for j in range(len(op[2])):
                yield mk(ops[:i] + [[op[0], op[1], op[2][:j] + op[2][j + 1:]]] + ops[i + 1:])
        if op[0] == "eff" and op[6] != "T":
            yield mk(ops[:i] + [op[:6] + ["T"]] + ops[i + 1:])
        ct = canonical_texpr(point_of(op[1]))
        if op[1] != ct:
            yield mk(ops[:i] + [[op[0], ct] + op[2:]] + ops[i + 1:])


def shrink(payload):
    if is_timed(payload):
        yield from shrink_t(payload)
        return
    kind, timings, ops = parts(payload)
    for i in range(len(ops)):
        rest = ops[:i] + ops[i + 1:]
        used = [t for t in timings if any(op[1] == t for op in rest)] or timings[:1]
        yield mk_case(kind, used, rest)
    for i, op in enumerate(ops):
        if op[0] == "sim" and len(op[2]) > 1:
            for j in range(len(op[2])):
                yield mk_case(kind, timings, ops[:i] + [["sim", op[1], op[2][:j] + op[2][j + 1:]]] + ops[i + 1:])
        if op[0] == "eff" and op[6] != "T" :
            yield mk_case(kind, timings, ops[:i] + [op[:6] + ["T"]] + ops[i + 1:])
    if kind in ("ev", "da") and len(timings) == 1:
        yield mk_case("ia", ["now"], [[op[0], "now"] + op[2:] for op in ops])


MANIFEST = {
    "level_text": ("Lean 4 theorems (Props/C24.lean) about an executable, mutation-faithful model of check_conflicting_effects / "
                   "check_conflicting_simulated_effects / _add_effect_instance / set_simulated_effect prove, for every stored "
                   "content, every insertion and every collection or history without size bound: a rejected insertion leaves "
                   "effects, simulated effect and both bookkeeping containers unchanged (also per time point in multi-timing "
                   "containers); a history with rejections is indistinguishable, now and for all later insertions, from the "
                   "history of its accepted insertions; acceptance of a collection equals 'each member admissible and members "
                   "pairwise compatible' for a symmetric compatibility relation, hence is invariant under every permutation "
                   "(also of whole multi-timing histories), for collections with at most one simulated effect in play. "
                   "The model is tied to /repo by a differential check of the raise pattern and the full stored content after "
                   "every insertion on InstantaneousAction, Event, DurativeAction and Problem timed effects, plus a direct "
                   "oracle of the property on the real objects."),
    "level_note": ("Trusted: Lean kernel; axioms propext, Classical.choice, Quot.sound at most; the correspondence harness. Modelled "
                   "not verified: FNode identity as structural equality, dict/set, Fraction equality. Requires the fix "
                   "notes/patches/C24-incdec-residue.patch (a rejected increase was left recorded in fluents_inc_dec). With two "
                   "simulated effects at one time point the code is order-dependent by documented design (replacement); kernel-"
                   "checked witness in Props/C24."),
    "technique": "Lean 4 proof over an executable model + model/code correspondence",
    "design_ref": "DESIGN.md §5 C24",
}
EXTRA_PROPS = ["UPVerif.Props.C24Timed"]
