"""C35 — Simulated execution environment is faithful to its contingent problem."""
import random as _random
import sys
import warnings
from collections import OrderedDict
from fractions import Fraction
from itertools import product

warnings.simplefilter("ignore")
import unified_planning as up
from unified_planning.engines import UPSequentialSimulator
from unified_planning.exceptions import UPProblemDefinitionError, UPStateMissingFluentError, UPUsageError
from unified_planning.model import InstantaneousAction
from unified_planning.model.contingent import ContingentProblem, SensingAction, SimulatedExecutionEnvironment
from unified_planning.plans import ActionInstance

import sexp
import simlib
import upp
import upx
from upx import Ctx, enc_expr, enc_val

ID = "C35"
GEN = []
CORR_NAME = "models-initial-state-apply-observations-goal"
RULE = ("one case = one generated contingent problem (types T>S,U; Boolean/int/bounded-int/real/bounded-real/object fluents with "
        "parameters; every fluent's initial value declared as explicit values, per-fluent default, per-type default or a mix, "
        "with per-type defaults for a random subset of the seven fluent types; 0-3 oneof/or/unknown initial constraints over "
        "2-3 literals (18% negated) of the ground Boolean fluents, occasionally contradictory; the HIDDEN ground fluents "
        "additionally carry explicit initial values in 4 of 6 cases (per case one of: none / each with probability 1/2 a "
        "random value / all a random value / all the negation of the resolved default), whatever the declaration mode of "
        "their fluent, so that every combination resolved default in {none, true, false} (per-fluent or per-type) x explicit "
        "value in {absent, equal, different} x chosen value occurs, also for atoms hidden only through a negated literal and "
        "for parametrised fluents with hidden and non-hidden groundings side by side; 1-3 ordinary actions of "
        "upp.ProblemGen's grammar (conditional/forall/increase/decrease effects, quantified conditions), ~40% of them turned "
        "into sensing actions with 1-2 observed fluents, plus a parametrised sensing action observing (and sometimes writing) a "
        "hidden fluent) x one random seed x max_constraints in {None (85%), 1, 2, 3} x a sequence of 6 (quick) / 10 (thorough) "
        "apply calls (70% chosen among the currently applicable instances) interleaved with is_goal_reached. Compared: the set "
        "of models handed to random.choice, the full initial state, and after every apply the outcome (observation dict | "
        "UPUsageError | other exception) with the full state. Non-trivial = the environment is built from >= 2 models and at "
        "least one apply succeeds.")
ASSUMPTIONS = [
    "the hidden-state clause is demanded for max_constraints=None (the default): a given max_constraints deliberately drops "
    "`or` constraints; the model mirrors the truncation and the correspondence compares the resulting model set",
    "hidden fluents are Boolean ground fluent expressions; a literal Not(f) hides f (as in Ks0Compiler._literal_parts)",
    "every non-hidden ground fluent has a declared initial value (explicit, per-fluent default or per-type default): the "
    "property is silent about undeclared ones (after the repair they stay undefined, as in the plain simulator)",
    "an explicit initial value given to a hidden fluent is not a declaration the environment has to honour: the property text "
    "lets the environment PICK the hidden state, so the oracle demands the constraints of the state actually observed and "
    "replays on a reference problem whose hidden fluents carry the observed values (the code drops such explicit values)",
    "contradictory initial constraints: no faithful hidden state exists; the environment's constructor raises (IndexError "
    "from random.choice) and the oracle accepts any exception there; model and code are compared on `construction failed`",
    "no trajectory constraints / timed effects / timed goals (the deterministic clone does not copy them; outside the quantifier text)",
    "action and fluent parameters are user-typed (objects); observed fluents take parameters and objects as arguments",
    "divisors are non-zero constants; no interpreted functions; no simulated effects (as for C01)",
    "the grounder's simplifier in the driver is property C11's verified model, configured as for C01",
]
MODELLED = [
    "modelled by hand (tied by correspondence): SimulatedExecutionEnvironment.__init__, _get_stateless_deterministic_problem_clone, "
    "_hidden_atoms, _randomly_set_full_initial_state (constraint construction incl. max_constraints, set_initial_value loop), "
    "apply, is_goal_reached; FluentsSetMixin.add_fluent's default resolution; ContingentProblem.add_*_initial_constraint containers; "
    "SensingAction.observed_fluents; on top of C01's model of UPSequentialSimulator",
    "NOT modelled, replaced by their contract: pysmt + z3 (`all_smt` returns every total assignment of the symbols satisfying "
    "the formula, once) and random.choice (returns an element of its argument). The list random.choice receives and the "
    "element it returns are read from the real run on every case: the list is compared with the model's `models`, the "
    "element is an input of the model, which checks that it is one of them",
    "harness reads the local `symbol_to_fnode` of _randomly_set_full_initial_state through the frame of the random.choice call",
]
EXTRA_PROPS = ["UPVerif.Props.C35Hidden"]
BUDGET_S = {"quick": 50, "thorough": 420}
SEARCH_S = {"quick": 40, "thorough": 200}

B = sexp.B


# ------------------------------------------------------------------------------------------------
# payload access
# ------------------------------------------------------------------------------------------------

def sec(payload, name):
    for s in payload[2:]:
        if isinstance(s, list) and s and s[0] == name:
            return s[1:]
    raise KeyError(name)


def atom_of(lit):
    return lit[1] if lit[0] == "not" and len(lit) == 2 else lit


def hidden_atoms(payload):
    out = []
    for h in sec(payload, "hidden"):
        a = atom_of(h)
        if a not in out:
            out.append(a)
    return out


def subst_params(e, env):
    """replace parameters by object constants in an expression s-expression"""
    if not isinstance(e, list) or not e:
        return e
    h = e[0]
    if h == "p":
        return env.get(e[1], e)
    if h in ("b", "i", "r", "o", "v"):
        return e
    if h in ("fl", "ifun"):
        return [h, e[1]] + [subst_params(a, env) for a in e[2:]]
    if h in ("exists", "forall"):
        return [h, e[1], subst_params(e[2], env)]
    return [h] + [subst_params(a, env) for a in e[1:]]


# ------------------------------------------------------------------------------------------------
# the REAL contingent problem / environment of a payload
# ------------------------------------------------------------------------------------------------

def build_contingent(payload):
    """real ContingentProblem (fresh Environment) from the payload, through the public API"""
    ps = payload[1]
    types = [(n, None if f == "_" else f) for n, f in upp.get(ps, "types")]
    ctx = Ctx(types)
    tdefs = OrderedDict((ctx.ty(t), ctx.expr(c)) for t, c in sec(payload, "type-defaults"))
    cp = ContingentProblem(ps[1], ctx.env, initial_defaults=tdefs)
    for n, t in upp.get(ps, "objects"):
        cp.add_object(ctx.obj(n, t))
    for ref, d in upp.get(ps, "fluents"):
        fl = ctx.fluent(ref)
        if d == "_":
            cp.add_fluent(fl)
        else:
            cp.add_fluent(fl, default_initial_value=ctx.expr(d))
    for f, v in upp.get(ps, "init"):
        cp.set_initial_value(ctx.expr(f), ctx.expr(v))
    sensing = {s[0]: s[1:] for s in sec(payload, "sensing")}
    for a in upp.get(ps, "actions"):
        _, name, params, pre, effs = a
        pd = OrderedDict((pn, ctx.ty(pt)) for pn, pt in params)
        act = SensingAction(name, pd, ctx.env) if name in sensing else InstantaneousAction(name, pd, ctx.env)
        for c in pre[1:]:
            act.add_precondition(ctx.expr(c))
        for e in effs[1:]:
            _, kind, f, v, c, vs = e
            forall = tuple(ctx.var(n, t) for n, t in vs)
            fn = {"assign": act.add_effect, "increase": act.add_increase_effect, "decrease": act.add_decrease_effect}[kind]
            fn(ctx.expr(f), ctx.expr(v), ctx.expr(c), forall=forall)
        if name in sensing:
            for of in sensing[name]:
                act.add_observed_fluent(ctx.expr(of))
        cp.add_action(act)
    for g in upp.get(ps, "goals"):
        cp.add_goal(ctx.expr(g))
    for c in sec(payload, "oneof"):
        cp.add_oneof_initial_constraint([ctx.expr(x) for x in c])
    for c in sec(payload, "or"):
        if len(c) == 2 and c[0] == ["not", c[1]]:
            cp.add_unknown_initial_constraint(ctx.expr(c[1]))
        else:
            cp.add_or_initial_constraint([ctx.expr(x) for x in c])
    got = sorted(sexp.dumps(enc_expr(h)) for h in cp.hidden_fluents)
    want = sorted(sexp.dumps(h) for h in sec(payload, "hidden"))
    if got != want:
        raise ValueError("payload `hidden` is not the hidden_fluents of the built problem")
    return cp, ctx


class Run:
    """one run of the real environment on a payload"""

    def __init__(self, payload, with_steps=True):
        self.payload = payload
        ps = payload[1]
        self.cp, self.ctx = build_contingent(payload)
        self.objtype = dict(map(tuple, upp.get(ps, "objects")))
        self.keys = simlib.ground_keys(ps)
        em = self.ctx.em
        self.key_exps = [em.FluentExp(self.ctx.fluent(ref), tuple(em.ObjectExp(self.ctx.obj(o, self.objtype[o])) for o in objs))
                         for ref, objs in self.keys]
        self.atoms = hidden_atoms(payload)
        mc = sec(payload, "maxc")[0]
        self.mc = None if mc == "_" else int(mc)
        self.seed = int(sec(payload, "seed")[0])
        self.models = None      # sorted bit strings over self.atoms, or None when random.choice was never called
        self.choice = None      # [(atom sexp, bool)] in the order of self.atoms
        self.error = None       # exception raised by the constructor
        self.env = None
        self._construct()
        self.init_dump = self.dump() if self.env is not None else None
        self.steps = []
        if with_steps and self.env is not None:
            for st in sec(payload, "steps"):
                self.steps.append(self.step(st))

    def _construct(self):
        rec = {}
        orig = _random.choice

        def spy(seq):
            seq = list(seq)
            rec["models"] = seq
            try:
                rec["sym2f"] = dict(sys._getframe(1).f_locals["symbol_to_fnode"])
            except Exception:
                rec["sym2f"] = None
            r = orig(seq)
            rec["choice"] = r
            return r
        state = _random.getstate()
        _random.seed(self.seed)
        _random.choice = spy
        try:
            self.env = SimulatedExecutionEnvironment(self.cp, max_constraints=self.mc)
        except Exception as e:       # mapped to the small enum by the callers
            self.error = e
        finally:
            _random.choice = orig
            _random.setstate(state)
        if "models" in rec:
            if rec["sym2f"] is None:
                raise RuntimeError("cannot read symbol_to_fnode of _randomly_set_full_initial_state")
            f2sym = {sexp.dumps(enc_expr(f)): s for s, f in rec["sym2f"].items()}
            if sorted(f2sym) != sorted(sexp.dumps(a) for a in self.atoms):
                # the symbols do not stand for the hidden atoms: report it as an answer, not as a crash
                self.models = ["symbols:" + ",".join(sorted(f2sym))]
            else:
                syms = [f2sym[sexp.dumps(a)] for a in self.atoms]
                self.models = sorted("".join(B(m[s].is_true()) for s in syms) for m in rec["models"])
                if "choice" in rec:
                    self.choice = [(a, rec["choice"][s].is_true()) for a, s in zip(self.atoms, syms)]

    def dump(self, state=None):
        state = self.env._state if state is None else state
        out = ["state"]
        for fe in self.key_exps:
            try:
                out.append(enc_val(state.get_value(fe)))
            except UPStateMissingFluentError:
                out.append("undef")
        return out

    def instance(self, name, args):
        em = self.ctx.em
        return ActionInstance(self.cp.action(name), tuple(em.ObjectExp(self.ctx.obj(o, self.objtype[o])) for o in args))

    @staticmethod
    def exc(e):
        if isinstance(e, UPStateMissingFluentError):
            return "missing"
        if isinstance(e, ZeroDivisionError):
            return "zero-div"
        return "other"

    def step(self, st):
        if st[0] == "goal":
            try:
                return B(self.env.is_goal_reached())
            except Exception as e:
                return ["raise", self.exc(e)]
        _, name, args = st
        try:
            obs = self.env.apply(self.instance(name, args))
        except UPUsageError:
            return ["not-applicable", self.dump()]
        except UPStateMissingFluentError:
            # the simulator catches its own: this one comes from the read-out of the observations
            return ["obs-raise", "missing", self.dump()]
        except Exception as e:
            return ["raise", self.exc(e), self.dump()]
        return ["ok", ["obs"] + [[enc_expr(k), enc_val(v)] for k, v in obs.items()], self.dump()]

    def answer(self):
        if self.models is None:
            ms = ["raise", "key-error"] if isinstance(self.error, KeyError) else ["raise", "other"]
        else:
            ms = ["models"] + self.models
        if self.env is None:
            e = self.error
            if isinstance(e, KeyError):
                init = ["raise", "key-error"]
            elif isinstance(e, (IndexError, UPProblemDefinitionError)):
                init = "failed"
            else:
                init = ["raise", self.exc(e)]
            return [ms, init, []]
        return [ms, self.init_dump, self.steps]


_cache = {}


def _run(payload):
    k = sexp.dumps(payload)
    if k not in _cache:
        if len(_cache) > 3000:
            _cache.clear()
        _cache[k] = Run(payload)
    return _cache[k]


def impl(payload):
    return _run(payload).answer()


def model_payload(payload):
    """the model's input: the case plus the element the real random.choice returned (solver and random
    generator are not modelled; the model checks the element against its own set of models)"""
    r = _run(payload)
    ch = "none" if r.choice is None else [[a, B(b)] for a, b in r.choice]
    return list(payload) + [["choice", ch]]


# ------------------------------------------------------------------------------------------------
# generator
# ------------------------------------------------------------------------------------------------

BOOL_ATOMS = [("b0", []), ("b1", []), ("bq", ["t1"]), ("bq", ["s1"]), ("bq", ["s2"])]
DOM = {"T": ["t1", "s1", "s2"], "S": ["s1", "s2"], "U": ["u1"]}
OBJT = {"t1": "T", "s1": "S", "s2": "S", "u1": "U"}


def _atom(g, name, objs):
    return ["fl", g.FL[name]] + [["o", o, OBJT[o]] for o in objs]


def gen_constraints(rng, g):
    oneofs, ors = [], []
    k = rng.random()
    n = 0 if k < 0.08 else rng.choice([1, 1, 2, 2, 3])
    pool = list(BOOL_ATOMS)
    if rng.random() < 0.6:
        pool = rng.sample(pool, rng.choice([2, 3, 4]))
    for _ in range(n):
        kind = rng.choice(["oneof", "oneof", "or", "or", "unknown"])
        if kind == "unknown":
            a = _atom(g, *rng.choice(pool))
            ors.append([["not", a], a])
            continue
        m = min(len(pool), rng.choice([2, 2, 3]))
        lits = []
        for name, objs in rng.sample(pool, m):
            a = _atom(g, name, objs)
            lits.append(["not", a] if rng.random() < 0.18 else a)
        (oneofs if kind == "oneof" else ors).append(lits)
    return oneofs, ors


def resolved_default(dflt, ref, tdefs):
    """`problem.fluents_defaults.get(fluent)` in payload terms: per-fluent default, else per-type default, else None"""
    if dflt != "_":
        return dflt
    for t, c in tdefs:
        if t == ref[1]:
            return c
    return None


def hidden_explicit(rng, hx_mode, dflt, ref, tdefs):
    """explicit initial value for one HIDDEN ground Boolean fluent, or None: `some`/`all` draw the value at random (equal to /
    different from / without a resolved default all occur), `neq` is the negation of the resolved default"""
    if hx_mode == "none" or (hx_mode == "some" and rng.random() < 0.5):
        return None
    rd = resolved_default(dflt, ref, tdefs)
    if hx_mode == "neq" and rd is not None:
        return ["b", "F" if rd == ["b", "T"] else "T"]
    return ["b", rng.choice(["T", "F"])]


def gen_raw(rng):
    """a contingent problem in the payload's shape, before canonicalisation by the real builders"""
    g = upp.ProblemGen(rng, undefined=False, invariants=False, metrics=False)
    oneofs, ors = gen_constraints(rng, g)
    hidden = []
    for c in oneofs + ors:
        for x in c:
            if x not in hidden:
                hidden.append(x)
    hatoms = []
    for h in hidden:
        if atom_of(h) not in hatoms:
            hatoms.append(atom_of(h))
    # per-type defaults for a random subset of the fluent types
    tys = []
    for ref in g.FL.values():
        if ref[1] not in tys:
            tys.append(ref[1])
    tdefs = []
    for t in tys:
        if rng.random() < 0.5:
            tdefs.append([t, g.const_for(["_", t, []])])
    has_td = [t for t, _ in tdefs]
    fluents, init, modes = [], [], {}
    # explicit initial values ON hidden atoms (the environment must ignore them: it picks the hidden state itself)
    hx_mode = rng.choice(["none", "none", "some", "some", "all", "neq"])
    for n, ref in g.FL.items():
        mode = rng.choice(["pf", "pf", "pt", "pt", "ex", "mix"])
        if mode == "pt" and ref[1] not in has_td:
            mode = rng.choice(["pf", "ex"])
        modes[n] = mode
        dflt = "_"
        if mode == "pf" or (mode == "mix" and (ref[1] not in has_td or rng.random() < 0.5)):
            dflt = g.const_for(ref)
            if ref[1] == "bool" and rng.random() < 0.5:
                dflt = ["b", "T"]
        fluents.append([ref, dflt])
        doms = [DOM[t[1]] for t in ref[2]]
        for combo in product(*doms):
            fe = ["fl", ref] + [["o", o, OBJT[o]] for o in combo]
            if fe in hatoms:
                v = hidden_explicit(rng, hx_mode, dflt, ref, tdefs)
                if v is not None:
                    init.append([fe, v])
                continue
            if mode == "ex" or (mode == "mix" and rng.random() < 0.5):
                init.append([fe, g.const_for(ref)])
    actions = [g.action(i) for i in range(rng.choice([1, 2, 2, 3]))]
    sensing = []
    names = ["b0", "b1", "bq", "bq", "bq", "x", "xb", "xq", "z", "zb", "at", "own"]
    for a in actions:
        if rng.random() < 0.4:
            obs = [g.fluent_exp(rng.choice(names), a[2]) for _ in range(rng.choice([1, 1, 2]))]
            sensing.append([a[1]] + obs)
    if rng.random() < 0.75:
        p = ["p", "p0", ["user", "T"]]
        effs = []
        k = rng.random()
        if k < 0.25:      # writes what it observes: the observation must show the NEW value
            effs.append(["eff", "assign", ["fl", g.FL["bq"], p], ["b", rng.choice(["T", "F"])], ["b", "T"], []])
        elif k < 0.4:
            effs.append(["eff", "assign", ["fl", g.FL["bq"], p], ["not", ["fl", g.FL["bq"], p]], ["b", "T"], []])
        elif k < 0.5:
            effs.append(["eff", "increase", ["fl", g.FL["xq"], p], ["i", "1"], ["fl", g.FL["bq"], p], []])
        pre = [] if rng.random() < 0.6 else [g.cond([["p0", ["user", "T"]]], (), 1)]
        obs = [["fl", g.FL["bq"], p]]
        if rng.random() < 0.4:
            obs.append(rng.choice([["fl", g.FL["b0"]], ["fl", g.FL["xq"], p], ["fl", g.FL["bq"], ["o", "s1", "S"]], ["fl", g.FL["bq"], p]]))
        actions.append(["action", "sense_q", [["p0", ["user", "T"]]], ["pre"] + pre, ["effs"] + effs])
        sensing.append(["sense_q"] + obs)
    goals = [g.cond([], (), rng.choice([1, 2])) for _ in range(rng.choice([0, 1, 1, 2]))]
    ps = ["problem", "cp", ["types"] + g.TYPES, ["objects"] + g.OBJECTS, ["fluents"] + fluents, ["init"] + init,
          ["actions"] + actions, ["goals"] + goals, ["traj"], ["metrics"]]
    mc = "_" if rng.random() < 0.85 else str(rng.choice([1, 2, 3]))
    return ["env", ps, ["type-defaults"] + tdefs, ["sensing"] + sensing, ["hidden"] + sorted(hidden, key=sexp.dumps),
            ["oneof"] + oneofs, ["or"] + ors, ["maxc", mc], ["seed", str(rng.randint(0, 10 ** 6))], ["steps"]]


def canonical(raw):
    """the real builders' view of a generated case (expressions as the library stores them), or None"""
    flags = {}
    raw = list(raw)
    raw[1] = simlib.normalise_problem(raw[1], flags)
    if flags.get("exists-eq") and not simlib.SIMPLIFIER_REPAIRED:
        return None
    try:
        cp, ctx = build_contingent(raw)
        canon = upp.enc_problem(cp)
    except Exception:
        return None
    # `fluents` carries the DECLARED per-fluent defaults (the real problem only keeps the resolved ones)
    for i, s in enumerate(canon):
        if isinstance(s, list) and s and s[0] == "fluents":
            canon[i] = ["fluents"] + [[ref, d if d == "_" else enc_expr(ctx.expr(d))] for ref, d in upp.get(raw[1], "fluents")]
    if simlib.normalise_problem(canon, {}) != canon:
        return None
    sens = []
    for a in cp.actions:
        if isinstance(a, SensingAction):
            sens.append([a.name] + [enc_expr(f) for f in a.observed_fluents])
    out = ["env", canon,
           ["type-defaults"] + [[t, enc_expr(ctx.expr(c))] for t, c in sec(raw, "type-defaults")],
           ["sensing"] + sens,
           ["hidden"] + sorted((enc_expr(h) for h in cp.hidden_fluents), key=sexp.dumps),
           ["oneof"] + [[enc_expr(x) for x in c] for c in cp.oneof_constraints],
           ["or"] + [[enc_expr(x) for x in c] for c in cp.or_constraints],
           ["maxc"] + sec(raw, "maxc"), ["seed"] + sec(raw, "seed"), ["steps"] + sec(raw, "steps")]
    return out


def gen_steps(rng, payload, n):
    """action sequence generated with the real environment: mostly applicable instances"""
    r = Run(payload, with_steps=False)
    if r.env is None:
        return []
    insts = upp.ground_instances(payload[1])
    steps = []
    for _ in range(n):
        if rng.random() < 0.25 or not insts:
            steps.append(["goal"])
            continue
        pick = None
        if rng.random() < 0.7:
            cand = list(insts)
            rng.shuffle(cand)
            for name, args in cand[:12]:
                ai = r.instance(name, args)
                try:
                    if r.env._simulator.is_applicable(r.env._state, r.env._deterministic_problem.action(name), ai.actual_parameters):
                        pick = (name, args)
                        break
                except Exception:
                    pass
        if pick is None:
            pick = rng.choice(insts)
        st = ["apply", pick[0], list(pick[1])]
        steps.append(st)
        r.step(st)
    steps.append(["goal"])
    return steps


def make_case(rng, tier):
    n = 6 if tier == "quick" else 10
    while True:
        c = canonical(gen_raw(rng))
        if c is None:
            continue
        try:
            steps = gen_steps(rng, c, n)
        except Exception:
            steps = []
        c[-1] = ["steps"] + steps
        return c


def cases(rng, tier):
    n = 140 if tier == "quick" else 2500
    for _ in range(n):
        yield make_case(rng, tier)


# ------------------------------------------------------------------------------------------------
# evidence helpers
# ------------------------------------------------------------------------------------------------

def nontrivial(payload, ans):
    if not isinstance(ans, list) or len(ans) != 3 or not isinstance(ans[1], list) or ans[1][:1] != ["state"]:
        return False
    ms = ans[0]
    return ms[0] == "models" and len(ms) >= 3 and any(isinstance(s, list) and s and s[0] == "ok" for s in ans[2])


def hidden_tags(payload, ans):
    """per hidden atom: resolved default x explicit value; per case: does an explicit value of a hidden atom exist, does the
    chosen hidden state contradict one (`stale`), is a chosen value the default while the explicit value is not (`default-over-explicit`)"""
    t = []
    ps = payload[1]
    tdefs = sec(payload, "type-defaults")
    dflt_of = {sexp.dumps(ref): resolved_default(d, ref, tdefs) for ref, d in upp.get(ps, "fluents")}
    expl = {sexp.dumps(f): v for f, v in upp.get(ps, "init")}
    chosen = {}
    if isinstance(ans, list) and len(ans) == 3 and isinstance(ans[1], list) and ans[1][:1] == ["state"]:
        objtype = dict(map(tuple, upp.get(ps, "objects")))
        for (ref, objs), v in zip(simlib.ground_keys(ps), ans[1][1:]):
            chosen[sexp.dumps(["fl", ref] + [["o", o, objtype[o]] for o in objs])] = v
    any_x = stale = dox = False
    for a in hidden_atoms(payload):
        k = sexp.dumps(a)
        rd = dflt_of.get(sexp.dumps(a[1]))
        x = expl.get(k)
        dn = "none" if rd is None else rd[1]
        xn = "absent" if x is None else "only" if rd is None else "eq" if x == rd else "neq"
        t.append("hidden-atom:default-%s:explicit-%s" % (dn, xn))
        if x is not None:
            any_x = True
            c = chosen.get(k)
            if c is not None and c != x:
                stale = True
                if rd is not None and c == rd:
                    dox = True
    if hidden_atoms(payload):
        t.append("hidden-explicit:" + ("no" if not any_x else "yes"))
        if stale:
            t.append("hidden-explicit:overridden-by-choice")
        if dox:
            t.append("hidden-explicit:overridden-by-choice=default")
        if any(x[0] == "not" and x[1] not in sec(payload, "hidden") and sexp.dumps(x[1]) in expl for x in sec(payload, "hidden")):
            t.append("hidden-explicit:negated-only-atom")
    return t


def stats(payload, ans):
    t = []
    ms = ans[0] if isinstance(ans, list) and ans else None
    if isinstance(ms, list) and ms and ms[0] == "models":
        n = len(ms) - 1
        t.append("models:%s" % ("0" if n == 0 else "1" if n == 1 else "2-7" if n < 8 else "8+"))
    else:
        t.append("models:raise")
    t.append("init:" + ("state" if isinstance(ans[1], list) and ans[1][:1] == ["state"] else "failed"))
    t.append("maxc:" + ("none" if sec(payload, "maxc")[0] == "_" else "given"))
    if any(x[0] == "not" for x in sec(payload, "hidden")):
        t.append("negated-literal")
    n_td = len(sec(payload, "type-defaults"))
    t.append("type-defaults:%d" % n_td if n_td < 3 else "type-defaults:3+")
    tds = [x[0] for x in sec(payload, "type-defaults")]
    for ref, d in upp.get(payload[1], "fluents"):
        if d != "_":
            t.append("default:per-fluent" + ("+type" if ref[1] in tds else ""))
        elif ref[1] in tds:
            t.append("default:per-type")
        else:
            t.append("default:explicit-only")
    t.extend(hidden_tags(payload, ans))
    for s in ans[2]:
        if isinstance(s, list) and s:
            if s[0] == "ok":
                t.append("apply:ok" + (":obs" if len(s[1]) > 1 else ""))
            else:
                t.append("apply:" + s[0])
        else:
            t.append("goal:" + str(s))
    return t


# ------------------------------------------------------------------------------------------------
# the property itself on the real code
# ------------------------------------------------------------------------------------------------

def _declared(payload, ref, fe):
    """the problem's declared initial value of a ground fluent: explicit, else per-fluent default, else per-type default"""
    for f, v in upp.get(payload[1], "init"):
        if f == fe:
            return v
    for r, d in upp.get(payload[1], "fluents"):
        if r == ref and d != "_":
            return d
    for t, c in sec(payload, "type-defaults"):
        if t == ref[1]:
            return c
    return None


def _same_const(c, v):
    """constant expression s-expression vs value s-expression"""
    if v == "undef":
        return False
    if c[0] == "b":
        return v == ["b", c[1]]
    if c[0] in ("i", "r"):
        return v[0] == "n" and Fraction(v[1]) == Fraction(c[1])
    if c[0] == "o":
        return v == ["o", c[1]]
    return False


def _lit_true(lit, val_of):
    a = atom_of(lit)
    v = val_of.get(sexp.dumps(a))
    if v not in (["b", "T"], ["b", "F"]):
        return None
    t = v == ["b", "T"]
    return (not t) if (lit[0] == "not" and len(lit) == 2) else t


def _satisfiable(payload):
    atoms = hidden_atoms(payload)
    for bits in product([False, True], repeat=len(atoms)):
        val = {sexp.dumps(a): ["b", B(b)] for a, b in zip(atoms, bits)}
        if all(sum(1 for x in c if _lit_true(x, val)) == 1 for c in sec(payload, "oneof")) and \
                all(any(_lit_true(x, val) for x in c) for c in sec(payload, "or")):
            return True
    return False


def oracle(payload):
    """C35 as stated, on the real code: hidden state satisfies every oneof (exactly one) / or (at least one) constraint;
    every non-hidden fluent has its declared value; every apply behaves as a plain UPSequentialSimulator replaying the same
    action on the same full state; observations are the current values of the sensed fluents; goal test agrees."""
    r = Run(payload, with_steps=False)
    default_mc = sec(payload, "maxc")[0] == "_"
    if r.env is None:
        if not _satisfiable(payload):
            return None          # contradictory constraints: no faithful hidden state exists
        return f"the environment cannot be built: {type(r.error).__name__}: {str(r.error)[:120]}"
    init = r.init_dump
    hat = [sexp.dumps(a) for a in r.atoms]
    val_of = {}
    objtype = r.objtype
    for (ref, objs), v in zip(r.keys, init[1:]):
        fe = ["fl", ref] + [["o", o, objtype[o]] for o in objs]
        val_of[sexp.dumps(fe)] = v
    # clause 1: hidden state satisfies the constraints
    if default_mc:
        for c in sec(payload, "oneof"):
            n = [_lit_true(x, val_of) for x in c]
            if None in n or sum(1 for b in n if b) != 1:
                return f"oneof constraint {sexp.dumps(c)} has {sum(1 for b in n if b)} true members in the chosen initial state"
        for c in sec(payload, "or"):
            n = [_lit_true(x, val_of) for x in c]
            if None in n or not any(n):
                return f"or constraint {sexp.dumps(c)} has no true member in the chosen initial state"
    # clause 2: declared values of the non-hidden fluents
    for (ref, objs), v in zip(r.keys, init[1:]):
        fe = ["fl", ref] + [["o", o, objtype[o]] for o in objs]
        if sexp.dumps(fe) in hat:
            continue
        d = _declared(payload, ref, fe)
        if d is not None and not _same_const(d, v):
            return f"non-hidden fluent {sexp.dumps(fe)} starts as {sexp.dumps(v)}, declared {sexp.dumps(d)}"
    # clause 3-5: replay on a plain simulator over the chosen full initial state
    ps = payload[1]
    tds = {sexp.dumps(t): c for t, c in sec(payload, "type-defaults")}
    ref_fluents = []
    for ref, d in upp.get(ps, "fluents"):
        if d == "_" and sexp.dumps(ref[1]) in tds:
            d = tds[sexp.dumps(ref[1])]
        ref_fluents.append([ref, d])
    ref_init = [[f, v] for f, v in upp.get(ps, "init") if sexp.dumps(f) not in hat]
    for a in r.atoms:
        v = val_of.get(sexp.dumps(a))
        if v not in (["b", "T"], ["b", "F"]):
            return f"hidden fluent {sexp.dumps(a)} has no Boolean value in the chosen initial state"
        ref_init.append([a, ["b", v[1]]])
    ref_ps = ["problem", "ref", ["types"] + upp.get(ps, "types"), ["objects"] + upp.get(ps, "objects"), ["fluents"] + ref_fluents,
              ["init"] + ref_init, ["actions"] + upp.get(ps, "actions"), ["goals"] + upp.get(ps, "goals"), ["traj"], ["metrics"]]
    try:
        real = simlib.Real(ref_ps)
    except UPUsageError:
        return None              # outside UPSequentialSimulator.supported_kind(): no reference to replay on
    try:
        s = real.sim.get_initial_state()
    except Exception as e:
        return f"reference simulator rejects the chosen initial state: {type(e).__name__}"
    if real.dump(s) != init:
        return "the environment's initial state differs from the problem's declared values plus the chosen hidden values"
    sensing = {x[0]: x[1:] for x in sec(payload, "sensing")}
    params_of = {a[1]: a[2] for a in upp.get(ps, "actions")}
    for i, st in enumerate(sec(payload, "steps")):
        if st[0] == "goal":
            try:
                got = r.env.is_goal_reached()
            except Exception as e:
                return f"step {i}: is_goal_reached raised {type(e).__name__}"
            if got != real.sim.is_goal(s):
                return f"step {i}: is_goal_reached = {got}, the sequential simulator says {not got}"
            continue
        _, name, args = st
        want = real.sim.apply(s, real.P.action(name), real.params(args))
        before = r.dump()
        try:
            obs = r.env.apply(r.instance(name, args))
        except UPUsageError:
            if want is not None:
                return f"step {i}: {name}{args} refused, the sequential simulator applies it"
            if r.dump() != before:
                return f"step {i}: refused action {name}{args} changed the state"
            continue
        except Exception as e:
            return f"step {i}: apply {name}{args} raised {type(e).__name__}"
        if want is None:
            return f"step {i}: {name}{args} accepted, the sequential simulator finds it inapplicable"
        s = want
        now = r.dump()
        if now != real.dump(s):
            return (f"step {i}: state after {name}{args} is {sexp.dumps(now)}, the sequential simulator gives "
                    f"{sexp.dumps(real.dump(s))}")
        env_p = {pn: ["o", o, objtype[o]] for (pn, _), o in zip(params_of[name], args)}
        want_obs = {}
        for of in sensing.get(name, []):
            fe = subst_params(of, env_p)
            k = sexp.dumps(fe)
            cur = dict(zip((sexp.dumps(["fl", ref] + [["o", o, objtype[o]] for o in objs]) for ref, objs in r.keys), now[1:]))
            if k not in cur or cur[k] == "undef":
                return f"step {i}: sensed fluent {k} has no current value but apply returned"
            want_obs[k] = sexp.dumps(cur[k])
        got_obs = {sexp.dumps(enc_expr(k)): sexp.dumps(enc_val(v)) for k, v in obs.items()}
        if got_obs != want_obs:
            return f"step {i}: observation of {name}{args} is {got_obs}, current values of the sensed fluents are {want_obs}"
    return None


def shrink(payload):
    def with_sec(name, items):
        out = []
        for s in payload:
            out.append([name] + items if isinstance(s, list) and s and s[0] == name else s)
        return out
    steps = sec(payload, "steps")
    for i in range(len(steps) - 1, -1, -1):
        yield with_sec("steps", steps[:i] + steps[i + 1:])
    for name in ("oneof", "or"):
        cs = sec(payload, name)
        for i in range(len(cs)):
            p2 = with_sec(name, cs[:i] + cs[i + 1:])
            hid = []
            for c in sec(p2, "oneof") + sec(p2, "or"):
                for x in c:
                    if x not in hid:
                        hid.append(x)
            p2 = [(["hidden"] + sorted(hid, key=sexp.dumps)) if isinstance(s, list) and s and s[0] == "hidden" else s for s in p2]
            yield p2
    ps = payload[1]
    acts = upp.get(ps, "actions")
    for i, a in enumerate(acts):
        if any(st[0] == "apply" and st[1] == a[1] for st in steps):
            continue
        ps2 = [(["actions"] + acts[:i] + acts[i + 1:]) if isinstance(s, list) and s and s[0] == "actions" else s for s in ps]
        p2 = list(payload)
        p2[1] = ps2
        p2 = [(["sensing"] + [x for x in sec(payload, "sensing") if x[0] != a[1]]) if isinstance(s, list) and s and s[0] == "sensing" else s
              for s in p2]
        yield p2
    init = upp.get(ps, "init")
    hat = hidden_atoms(payload)
    for i in range(len(init)):
        if init[i][0] in hat:    # explicit value of a hidden atom: removable without leaving the domain of the oracle
            ps2 = [(["init"] + init[:i] + init[i + 1:]) if isinstance(s, list) and s and s[0] == "init" else s for s in ps]
            p2 = list(payload)
            p2[1] = ps2
            yield p2
    goals = upp.get(ps, "goals")
    for i in range(len(goals)):
        ps2 = [(["goals"] + goals[:i] + goals[i + 1:]) if isinstance(s, list) and s and s[0] == "goals" else s for s in ps]
        p2 = list(payload)
        p2[1] = ps2
        yield p2


MANIFEST = {
    "level_text": ("Lean 4 theorems (Props/C35.lean) about the executable model Core/ExecEnv.lean of SimulatedExecutionEnvironment "
                   "(built on C01's model of UPSequentialSimulator), for every contingent problem, simplifier, choice of the "
                   "random generator and action history, no size bound: every non-hidden ground fluent starts with the declared "
                   "value (explicit, else per-fluent default, else per-type default); every hidden initial state the environment "
                   "can start from evaluates exactly one member of every oneof and at least one member of every or constraint to "
                   "true, and every assignment with that property can be chosen; apply is Sim.apply on the current state "
                   "(inapplicable => UPUsageError and unchanged state), for whole histories, hence meets C01's declarative "
                   "successor semantics; observations are the values of the instantiated sensed fluents in the state AFTER the "
                   "action; is_goal_reached is the simulator's goal test on the problem's goals. Props/C35Hidden.lean: explicit initial "
                   "values given to hidden atoms are ignored (two problems differing only there yield the same environment) and "
                   "every hidden atom, whatever its explicit value and default, reads as the chosen value. The model mirrors the repaired "
                   "execution_environment.py function by function and is tied to /repo on every run by a differential check "
                   "(model set handed to random.choice, initial state, every apply outcome + state) and an independent oracle "
                   "replaying the actions on a plain UPSequentialSimulator."),
    "level_note": ("pysmt/z3 and random.choice are not modelled: they are replaced by their contract (all satisfying total "
                   "assignments; an element of the list), and the list/element of the real run are compared with / checked by the "
                   "model on every case. The hidden-state clause is for max_constraints=None. Theorems about calls that return. "
                   "Trusted: Lean kernel; axioms propext, Classical.choice, Quot.sound; the correspondence harness. Modelled not "
                   "verified: Python dict/set, pysmt, z3, random."),
    "technique": "Lean 4 proof (initial-state lookup lemmas, history induction, reuse of C01) + model/code correspondence",
    "design_ref": "DESIGN.md §5 C35",
}
