"""C14 — Shared environment walkers are history-independent, even after failures."""
import random
import warnings
from fractions import Fraction

warnings.simplefilter("ignore")
from unified_planning.exceptions import UPTypeError
from unified_planning.model import Problem
from unified_planning.model.operators import OperatorKind
from unified_planning.model.walkers import ExpressionQuantifiersRemover
from unified_planning.model.walkers.dag import DagWalker
from unified_planning.model.walkers.state_evaluator import StateEvaluator
from unified_planning.model.state import UPState
import unified_planning.model.walkers as walkers

import sexp
from upx import Ctx, ExprGen, enc_expr, enc_ty

ID = "C14"
GEN = []
CORR_NAME = "history-answers-and-walker-state"
RULE = ("one case = a HISTORY of calls on ONE real Environment (10 calls quick / 40 thorough) over a pool of 4-7 typed "
        "expressions that are reused, nested and combined (so cache entries of one call are hit by later ones): "
        "FNode.substitute with 1-3 pairs (fluent applications, parameters, free and bound variables, compound keys; ~10% "
        "an incompatible pair), env.free_vars_oracle, env.free_vars_extractor, two probe subclasses of the real DagWalker "
        "(one-time cache with keyword arguments ignored by the key, like the Substituter; persistent cache), and — checked by "
        "the oracle only — simplify (incl. interpreted functions), substitute-then-simplify, .type, raw node construction "
        "(incl. ill-typed, requested twice), ExpressionQuantifiersRemover and one StateEvaluator (states with a missing fluent "
        "value). About a quarter of the calls are made to fail "
        "mid-walk: a planted `K / dz` site with `dz -> 0` in the map (the type check of the rebuilt node divides by zero), a "
        "probe node function raising on a listed node, an interpreted function with no table entry, `0*x / 0` in the "
        "simplifier, an ill-typed construction. Non-trivial = some modelled call raised mid-walk and a later call uses the "
        "same walker.")
ASSUMPTIONS = [
    "which node constructions the expression manager refuses, and which (key, value) pairs are type-compatible, is C15's "
    "subject: both are MEASURED on a fresh environment when the case is generated and handed to the model as the values of "
    "its `reject` / compatibility parameters (the C14 theorems hold for every value of these parameters)",
    "the exception raised by a failing call is part of its result for the oracle (class name); against the model only the "
    "fact that the walk raised is compared (for the probe walkers also the node at which it raised)",
    "walkers are not re-entered from their own node functions (dag.py's one-time cache cannot support it: the library "
    "itself builds a new Substituter for quantifier bodies); the model covers calls that start with an empty stack",
    "quantifier variable lists of simplified expressions come out of a Python set and are sorted before comparison",
    "the Substituter instance mirrors substituter.py WITH notes/patches/C13-substituter-top-down.patch applied (a node that "
    "is a key is replaced before its children are visited); the generic machine and everything else is independent of it",
]
MODELLED = [
    "modelled by hand (tied by correspondence): DagWalker.walk/iter_walk/_process_stack/_push_with_children_to_stack/"
    "_compute_node_result/_get_key, invalidate_memoization; Substituter (_get_key, quantifier override, substitute, "
    "walk_replace_or_identity) over IdentityDagWalker and the manager's And/Or/Not/Plus/Times collapses; FreeVarsOracle; "
    "FreeVarsExtractor; ExpressionManager.create_node's register/type-check order",
    "the Substituter's nested walkers (a new Substituter per quantifier body, env.free_vars_oracle for the keys) are "
    "modelled by their pure functions — justified by C14_result for a fresh, hence clean, walker",
    "not modelled, covered by the fresh-environment oracle only: Simplifier, TypeChecker, ExpressionQuantifiersRemover "
    "node functions (they are instances of the generic machine for which the theorems are proved)",
    "Python dict/list semantics, FNode identity as structural equality (C16)",
]
BUDGET_S = {"quick": 60, "thorough": 420}

INT, REAL = ["int", "_", "_"], ["real", "_", "_"]
U = lambda n: ["user", n]
DZ = ["fl", ["dz", ["int", "0", "10"], []]]          # the planted divisor
XB = ["fl", ["xb", ["int", "0", "10"], []]]
OBJ_BY_TYPE = {"T": ["t1", "t2", "s1", "s2"], "S": ["s1", "s2"], "U": ["u1"], "E": []}
OBJ_TY = dict(ExprGen.OBJECTS)
_SIG = ExprGen(random.Random(0))
GROUND_FLUENTS = []
for _ref in _SIG.bool_fl + _SIG.int_fl + _SIG.real_fl + _SIG.obj_fl + [DZ[1]]:
    _doms = [[["o", o, OBJ_TY[o]] for o in OBJ_BY_TYPE[t[1]]] for t in _ref[2]]
    for _args in ([[]] if not _doms else [[a] for a in _doms[0]]):
        GROUND_FLUENTS.append(["fl", _ref] + _args)
G_TABLE = {(Fraction(1),): 5, (Fraction(2),): -3, (Fraction(0),): 0, (Fraction(5),): 2}
GB_TABLE = {(Fraction(1),): True, (Fraction(2),): False, (Fraction(0),): True}


# ---------------------------------------------------------------------------------------------------
# probe walkers: harness-defined node functions on top of the REAL DagWalker machinery
# ---------------------------------------------------------------------------------------------------

class ProbeError(Exception):
    def __init__(self, node):
        Exception.__init__(self, str(node))
        self.node = node


def _probe_val(salt, expression, args):
    return (salt + len(expression.args) + sum((i + 2) * a for i, a in enumerate(args))) % 1000003


class ProbeInv(DagWalker):
    """one-time cache; `salt`/`bad` are keyword arguments that the key ignores (as Substituter does)"""

    def __init__(self):
        DagWalker.__init__(self, True)

    def _get_key(self, expression, **kwargs):
        return expression

    @walkers.handles(OperatorKind)
    def walk_any_node(self, expression, args, salt=0, bad=(), **kwargs):
        if expression in bad:
            raise ProbeError(expression)
        return _probe_val(salt, expression, args)


class ProbeKeep(DagWalker):
    """persistent cache; no keyword arguments"""

    def __init__(self, salt, bad):
        DagWalker.__init__(self)
        self.salt, self.bad = salt, bad

    @walkers.handles(OperatorKind)
    def walk_any_node(self, expression, args):
        if expression in self.bad:
            raise ProbeError(expression)
        return _probe_val(self.salt, expression, args)


# ---------------------------------------------------------------------------------------------------
# one side (shared or fresh) of a history
# ---------------------------------------------------------------------------------------------------

class Side:
    def __init__(self, keep_salt, keep_bad):
        self.ctx = Ctx(types=ExprGen.TYPES)
        self.ctx.fun_tables = {"g": dict(G_TABLE), "gb": dict(GB_TABLE)}
        self.env = self.ctx.env
        self.pinv = ProbeInv()
        self._keep = (keep_salt, keep_bad)
        self._pkeep = None
        self._problem = None
        self._qrm = None
        self._se = None

    def pkeep(self):
        if self._pkeep is None:
            self._pkeep = ProbeKeep(self._keep[0], [self.ctx.expr(b) for b in self._keep[1]])
        return self._pkeep

    def qrm(self):
        if self._qrm is None:
            self._problem = Problem("c14", self.env)
            for n, t in ExprGen.OBJECTS:
                self._problem.add_object(self.ctx.obj(n, t))
            self._qrm = ExpressionQuantifiersRemover(self.env)
        return self._qrm, self._problem


    def evaluator(self):
        if self._se is None:
            _, pb = self.qrm()
            self._se = StateEvaluator(pb)
        return self._se

    def state(self, seed, dropped):
        """a state giving every ground fluent of the signature a value drawn from `seed`, except `dropped`"""
        r = random.Random(int(seed))
        vals = {}
        for fe in GROUND_FLUENTS:
            v = value_for(r, fe[1][1], const=True)
            if fe not in dropped:
                vals[self.ctx.expr(fe)] = self.ctx.expr(v)
        return UPState(vals, self.qrm()[1])


def _raised(e):
    return ["raised", type(e).__name__]


def _set_out(tag, items):
    return [tag] + sorted(items, key=sexp.dumps)


def run_call(side, call):
    """-> (result, state) ; result carries the exception class; state = observable walker state or None"""
    ctx, env = side.ctx, side.env
    kind = call[0]
    try:
        if kind == "subst":
            w = env.substituter
            e = ctx.expr(call[1])
            subs = {}
            for k, v, _ in call[2]:
                subs[ctx.expr(k)] = ctx.expr(v)
            try:
                res = ["ok", enc_expr(e.substitute(subs))]
            except UPTypeError as ex:
                res = "incompatible" if str(ex).startswith("The expression type of") else _raised(ex)
            except Exception as ex:
                res = _raised(ex)
            return res, ["st", str(len(w.stack)), str(len(w.memoization))]
        if kind == "fv":
            w = env.free_vars_oracle
            e = ctx.expr(call[1])
            try:
                res = _set_out("vars", [[v.name, enc_ty(v.type)] for v in w.get_free_variables(e)])
            except Exception as ex:
                res = _raised(ex)
            return res, ["st", str(len(w.stack))]
        if kind == "fl":
            w = env.free_vars_extractor
            e = ctx.expr(call[1])
            try:
                res = _set_out("exprs", [enc_expr(x) for x in w.get(e)])
            except Exception as ex:
                res = _raised(ex)
            return res, ["st", str(len(w.stack))]
        if kind in ("pinv", "pkeep"):
            if kind == "pinv":
                w = side.pinv
                e = ctx.expr(call[3])
                kw = {"salt": int(call[1]), "bad": [ctx.expr(b) for b in call[2]]}
            else:
                w = side.pkeep()
                e = ctx.expr(call[1])
                kw = {}
            try:
                res = ["ok", str(w.walk(e, **kw))]
            except ProbeError as ex:
                res = ["raised", enc_expr(ex.node)]
            except Exception as ex:
                res = _raised(ex)
            return res, ["st", str(len(w.stack)), str(len(w.memoization))]
        assert kind == "other"
        what = call[1]
        if what == "simplify":
            return ["ok", enc_expr(ctx.expr(call[2]).simplify(), True)], None
        if what == "subsimp":
            e = ctx.expr(call[2])
            subs = {ctx.expr(k): ctx.expr(v) for k, v, _ in call[3]}
            return ["ok", enc_expr(e.substitute(subs).simplify(), True)], None
        if what == "type":
            return ["ok", enc_ty(ctx.expr(call[2]).type)], None
        if what == "mk":
            return ["ok", enc_expr(ctx.expr(call[2]))], None
        if what == "eval":
            se = side.evaluator()
            return ["ok", enc_expr(se.evaluate(ctx.expr(call[2]), side.state(call[3], call[4])))], None
        if what == "qrm":
            q, pb = side.qrm()
            return ["ok", enc_expr(q.remove_quantifiers(ctx.expr(call[2]), pb))], None
        raise ValueError(f"unknown call {call}")
    except Exception as ex:   # construction of the arguments, or an `other` call, raised
        return _raised(ex), None


def parts(payload):
    assert payload[0] == "hist"
    return payload[1][1:], int(payload[2][1]), payload[2][2], payload[3][1:]


def run_history(payload):
    _, ks, kb, calls = parts(payload)
    side = Side(ks, kb)
    return [run_call(side, c) for c in calls]


def run_fresh(payload, i):
    _, ks, kb, calls = parts(payload)
    return run_call(Side(ks, kb), calls[i])


# ---------------------------------------------------------------------------------------------------
# harness interface
# ---------------------------------------------------------------------------------------------------

_OUTCOMES = {}


def _for_model(res):
    """what is compared with the model: the class of an exception is not (see ASSUMPTIONS)"""
    if isinstance(res, list) and res and res[0] == "raised" and isinstance(res[1], str):
        return "raised"
    return res


def impl(payload):
    out, outcomes = [], []
    _, _, _, calls = parts(payload)
    for c, (res, st) in zip(calls, run_history(payload)):
        outcomes.append(res)
        out.append("unmodelled" if c[0] == "other" else [_for_model(res), st if st is not None else "no-state"])
    _OUTCOMES[sexp.dumps(payload)] = outcomes
    if len(_OUTCOMES) > 4:
        _OUTCOMES.pop(next(iter(_OUTCOMES)))
    return out


def _canon(ans):
    if not isinstance(ans, list):
        return ans
    out = []
    for a in ans:
        if isinstance(a, list) and a and isinstance(a[0], list) and a[0] and a[0][0] in ("vars", "exprs"):
            a = [_set_out(a[0][0], a[0][1:])] + a[1:]
        out.append(a)
    return out


def compare(model_ans, impl_ans):
    return _canon(model_ans) == _canon(impl_ans)


def _walker_of(c):
    return c[0] if c[0] != "other" else None


def _mid_walk_failure(c, a):
    return c[0] != "other" and isinstance(a, list) and (a[0] == "raised" or (isinstance(a[0], list) and a[0][:1] == ["raised"]))


def nontrivial(payload, ans):
    _, _, _, calls = parts(payload)
    for i, (c, a) in enumerate(zip(calls, ans)):
        if _mid_walk_failure(c, a) and any(_walker_of(d) == c[0] for d in calls[i + 1:]):
            return True
    return False


def stats(payload, ans):
    _, _, _, calls = parts(payload)
    outcomes = _OUTCOMES.get(sexp.dumps(payload)) or [None] * len(calls)
    tags = []
    for c, r in zip(calls, outcomes):
        k = c[0] if c[0] != "other" else "other-" + c[1]
        if r == "incompatible":
            o = "incompatible"
        elif isinstance(r, list) and r and r[0] == "raised":
            o = "raised"
        else:
            o = "ok"
        tags.append(f"{k}:{o}")
    tags.append("history:nontrivial" if nontrivial(payload, ans) else "history:trivial")
    return tags


def oracle(payload):
    """The property itself on the real code: every call of the history, made on the shared environment,
    must answer exactly what the same call answers on a fresh environment."""
    _, _, _, calls = parts(payload)
    shared = run_history(payload)
    for i, (c, (res, _)) in enumerate(zip(calls, shared)):
        fres, _ = run_fresh(payload, i)
        if res != fres:
            k = c[0] if c[0] != "other" else c[1]
            return (f"call {i} ({k}) answered {sexp.dumps(res)[:300]} on the shared environment but "
                    f"{sexp.dumps(fres)[:300]} on a fresh one")
    return None


def shrink(payload):
    rej, ks, kb, calls = parts(payload)
    head = payload[:3]
    for i in range(len(calls)):
        yield head + [["calls"] + calls[:i] + calls[i + 1:]]
    for i, c in enumerate(calls):   # smaller maps
        j = 2 if c[0] == "subst" else 3 if c[:2] == ["other", "subsimp"] else None
        if j is not None and len(c[j]) > 1:
            for d in range(len(c[j])):
                nc = c[:j] + [c[j][:d] + c[j][d + 1:]] + c[j + 1:]
                yield head + [["calls"] + calls[:i] + [nc] + calls[i + 1:]]


# ---------------------------------------------------------------------------------------------------
# generator
# ---------------------------------------------------------------------------------------------------

def subterms(s, acc=None):
    """all sub-EXPRESSIONS of an expression s-expression (not refs / variable lists)"""
    acc = acc if acc is not None else []
    acc.append(s)
    h = s[0]
    if h in ("fl", "ifun"):
        for a in s[2:]:
            subterms(a, acc)
    elif h in ("exists", "forall"):
        subterms(s[2], acc)
    elif h == "dot":
        subterms(s[2], acc)
    elif h in ("b", "i", "r", "o", "p", "v", "timing", "present"):
        pass
    else:
        for a in s[1:]:
            subterms(a, acc)
    return acc


def strip_div(s):
    """replace every division by a subtraction (division only occurs at planted sites)"""
    if not isinstance(s, list) or not s:
        return s
    h = s[0]
    if h in ("b", "i", "r", "o", "p", "v"):
        return s
    if h in ("fl", "ifun"):
        return [h, s[1]] + [strip_div(a) for a in s[2:]]
    if h in ("exists", "forall"):
        return [h, s[1], strip_div(s[2])]
    if h == "div":
        return ["minus", strip_div(s[1]), strip_div(s[2])]
    return [h] + [strip_div(a) for a in s[1:]]


def ty_of_leaf(s):
    if s[0] == "fl":
        return s[1][1]
    if s[0] in ("p", "v"):
        return s[2]
    return None


def value_for(rng, ty, wrong=False, const=False):
    if const:
        if ty == "bool":
            return ["b", rng.choice(["T", "F"])]
        if ty[0] == "int":
            return ["i", str(rng.randint(int(ty[1]) if ty[1] != "_" else -3, int(ty[2]) if ty[2] != "_" else 9))]
        if ty[0] == "real":
            return rng.choice([["r", "1/2"], ["i", "2"], ["r", "7/2"], ["i", "0"]])
        return (lambda o: ["o", o, OBJ_TY[o]])(rng.choice(OBJ_BY_TYPE[ty[1]]))
    if wrong:
        if ty == "bool":
            return ["i", "3"]
        if ty[0] in ("int", "real"):
            return rng.choice([["b", "T"], ["o", "u1", "U"]] + ([["i", "99"]] if ty[2] != "_" else []))
        return ["o", "u1", "U"] if ty[1] != "U" else ["o", "t1", "T"]
    if ty == "bool":
        return rng.choice([["b", "T"], ["b", "F"], ["fl", ["b1", "bool", []]], ["not", ["fl", ["b2", "bool", []]]],
                           ["p", "pb", "bool"], ["and", ["fl", ["b0", "bool", []]], ["fl", ["b1", "bool", []]]],
                           ["not", ["not", ["fl", ["b0", "bool", []]]]]])
    if ty[0] == "int":
        lo = int(ty[1]) if ty[1] != "_" else -3
        hi = int(ty[2]) if ty[2] != "_" else 9
        if rng.random() < 0.3:
            return rng.choice([["fl", ["x", INT, []]], ["plus", ["fl", ["y", INT, []]], ["i", "1"]], XB])
        return ["i", str(rng.randint(lo, hi))]
    if ty[0] == "real":
        return rng.choice([["r", "1/2"], ["i", "2"], ["fl", ["z", REAL, []]], ["r", "7/2"]])
    if ty[0] == "user":
        os_ = OBJ_BY_TYPE.get(ty[1], [])
        opts = [["o", o, OBJ_TY[o]] for o in os_]
        if ty[1] == "T":
            opts += [["p", "pt", U("T")], ["fl", ["at", U("T"), []]]]
        if ty[1] in ("T", "S"):
            opts.append(["p", "ps", U("S")])
        return rng.choice(opts) if opts else None
    return None


def builds(s):
    """does the real manager accept this expression on a fresh environment?"""
    try:
        Ctx(types=ExprGen.TYPES).expr(s)
        return True
    except Exception:
        return False


def measure_compat(k, v):
    """Substituter.substitute's own test (substituter.py:108-112), on a fresh environment"""
    c = Ctx(types=ExprGen.TYPES)
    try:
        fk, fv = c.em.auto_promote(c.expr(k), c.expr(v))
        return bool(fk.type.is_compatible(fv.type))
    except Exception:
        return None


class HistGen:
    def __init__(self, rng, n_calls):
        self.rng, self.n = rng, n_calls
        self.g = ExprGen(rng, big=False, quantifiers=True, ifuns=False, params=True)
        self.gi = ExprGen(rng, big=False, quantifiers=True, ifuns=True, params=True)
        self.planted = []     # (dividend, site) pairs

    def fresh_bool(self, depth, gen=None, keep_div=False):
        for _ in range(30):
            e = (gen or self.g).boolean(depth)
            if not keep_div:
                e = strip_div(e)
            if builds(e):
                return e
        return ["fl", ["b0", "bool", []]]

    def plant(self, a):
        """a Boolean expression containing `a` and a `K / dz` site"""
        r = self.rng
        k = r.choice([["i", "4"], ["i", "7"], XB, ["i", "0"]])
        site = ["div", k, DZ]
        self.planted.append(k)
        atom = r.choice([["le", site, ["i", "3"]], ["lt", ["plus", ["fl", ["x", INT, []]], site], ["r", "1/2"]],
                         ["le", ["i", "1"], ["times", site, ["fl", ["y", INT, []]]]]])
        shape = r.random()
        if shape < 0.35:
            return ["and", a, atom]          # `atom` is popped first: fails before anything is cached
        if shape < 0.7:
            return ["and", atom, a]          # `a` is walked (and cached) first, then the walk fails
        if shape < 0.85:
            return ["or", ["not", atom], a, ["fl", ["b2", "bool", []]]]
        return ["implies", a, ["and", ["fl", ["b1", "bool", []]], atom]]

    def pairs(self, e, n, fail=False, incompatible=False):
        r = self.rng
        subs = subterms(e)
        leaves = [s for s in subs if s[0] in ("fl", "p", "v") and s != DZ]
        comp = [s for s in subs if s[0] not in ("fl", "p", "v", "b", "i", "r", "o") and s is not e]
        keys, out = [], []
        if fail:
            out.append([DZ, ["i", "0"]])
            keys.append(DZ)
        elif DZ in subs and r.random() < 0.5:
            out.append([DZ, ["i", str(r.randint(1, 9))]])
            keys.append(DZ)
        tries = 0
        while len(out) < n and tries < 20:
            tries += 1
            if comp and r.random() < 0.12:
                k = r.choice(comp)
                v = ["b", r.choice(["T", "F"])] if k[0] in ("and", "or", "not", "implies", "iff", "le", "lt", "eq", "exists", "forall") \
                    else ["i", str(r.randint(0, 5))]
            elif leaves:
                k = r.choice(leaves)
                t = ty_of_leaf(k)
                v = value_for(r, t, wrong=incompatible and not any(p[2:] == ["F"] for p in out))
            else:
                break
            if v is None or k in keys or v == k:
                continue
            c = measure_compat(k, v)
            if c is None:
                continue
            keys.append(k)
            out.append([k, v, "T" if c else "F"])
        res = []
        for p in out:
            if len(p) == 2:
                c = measure_compat(p[0], p[1])
                p = [p[0], p[1], "T" if c else "F"]
            res.append(p)
        r.shuffle(res)
        return res

    def history(self):
        r = self.rng
        pool = [self.fresh_bool(r.choice([1, 2, 2, 3])) for _ in range(r.randint(4, 7))]

        def pick():
            k = r.random()
            if k < 0.5:
                return r.choice(pool)
            if k < 0.7:
                a, b = r.choice(pool), r.choice(pool)
                return [r.choice(["and", "or", "iff", "implies"]), a, b]
            if k < 0.85:
                return r.choice([s for s in subterms(r.choice(pool))])
            return ["not", r.choice(pool)]

        def pick_bool():
            for _ in range(10):
                e = pick()
                if builds(["and", e, ["b", "T"]]):
                    return e
            return r.choice(pool)

        planted_pool = []
        keep_bad = []
        if r.random() < 0.6:
            keep_bad = [r.choice(subterms(r.choice(pool)))]
        keep_salt = r.randint(0, 50)
        calls, ill, repeat = [], [], []
        while len(calls) < self.n:
            if repeat and r.random() < 0.5:      # the same (possibly ill-typed) request once more
                calls.append(["other", "mk", repeat.pop()])
                continue
            k = r.random()
            if k < 0.30:      # substitution that succeeds (unless the map is incompatible)
                e = r.choice(planted_pool) if planted_pool and r.random() < 0.35 else pick_bool()
                ps = self.pairs(e, r.randint(1, 3), incompatible=r.random() < 0.12)
                if ps:
                    calls.append(["subst", e, ps])
            elif k < 0.42:    # substitution that fails mid-walk
                if planted_pool and r.random() < 0.4:
                    e = r.choice(planted_pool)
                else:
                    e = self.plant(pick_bool())
                    if not builds(e):
                        continue
                    planted_pool.append(e)
                calls.append(["subst", e, self.pairs(e, r.randint(1, 3), fail=True)])
            elif k < 0.50:
                calls.append(["fv", r.choice(subterms(pick_bool()))])
            elif k < 0.57:
                calls.append(["fl", pick_bool()])
            elif k < 0.68:
                e = r.choice(planted_pool) if planted_pool and r.random() < 0.2 else pick_bool()
                bad = [r.choice(subterms(e))] if r.random() < 0.4 else []
                calls.append(["pinv", str(r.randint(0, 50)), bad, e])
            elif k < 0.76:
                calls.append(["pkeep", pick_bool()])
            elif k < 0.82:
                j = r.random()
                if j < 0.35:     # interpreted function without a table entry
                    arg = r.choice(["9", "7", "1", "2"])
                    e = ["and", pick_bool(), ["le", ["ifun", ["g", INT, [INT]], ["i", arg]], ["i", "3"]]]
                elif j < 0.55:   # 0*x / 0 : constructible, the simplifier divides by zero
                    e = ["and", ["le", ["div", ["times", ["fl", ["x", INT, []]], ["i", "0"]], ["i", "0"]], ["i", "1"]], pick_bool()]
                else:
                    e = self.fresh_bool(2, self.gi, keep_div=True) if r.random() < 0.5 else pick_bool()
                calls.append(["other", "simplify", e])
            elif k < 0.87:
                e = r.choice(planted_pool) if planted_pool and r.random() < 0.5 else pick_bool()
                calls.append(["other", "subsimp", e, self.pairs(e, r.randint(1, 2), fail=(DZ in subterms(e) and r.random() < 0.5))])
            elif k < 0.90:
                calls.append(["other", "type", r.choice(subterms(pick_bool()))])
            elif k < 0.94:
                if ill and r.random() < 0.5:
                    calls.append(["other", "mk", r.choice(ill)])    # the same ill-typed request again
                else:
                    e = r.choice([["eq", ["i", "5"], ["o", "t1", "T"]], ["eq", ["o", "t1", "T"], ["o", "u1", "U"]],
                                  ["and", ["fl", ["x", INT, []]], pick_bool()], ["div", ["i", "3"], ["i", "0"]],
                                  ["le", pick_bool(), ["i", "1"]], ["not", ["i", "2"]],
                                  ["plus", ["fl", ["b0", "bool", []]], ["i", "1"]], ["eq", pick_bool(), ["b", "T"]],
                                  ["iff", pick_bool(), pick_bool()], ["le", ["fl", ["x", INT, []]], ["i", "1"]]])
                    ill.append(e)
                    calls.append(["other", "mk", e])
                    if r.random() < 0.5:
                        repeat.append(e)
            elif k < 0.98:
                q = ExprGen(r, big=False, quantifiers=True, params=False)
                for _ in range(10):
                    e = q.boolean(2) if r.random() < 0.7 else r.choice(pool)
                    if builds(e):
                        fls = [s for s in subterms(e) if s in GROUND_FLUENTS]
                        dropped = [r.choice(fls)] if fls and r.random() < 0.4 else []   # a missing fluent value
                        calls.append(["other", "eval", e, str(r.randint(0, 999)), dropped])
                        break
            else:
                q = ExprGen(r, big=False, quantifiers=True, params=False)
                for _ in range(10):
                    e = strip_div(q.boolean(2))
                    if any(s[0] in ("exists", "forall") for s in subterms(e)) and builds(e):
                        calls.append(["other", "qrm", e])
                        break
        # which rebuilt nodes does the manager refuse?  candidates: every planted site with its
        # divisor (and possibly its dividend) replaced as some map of the history would
        cands = []
        for c in calls:
            ps = c[2] if c[0] == "subst" else c[3] if c[:2] == ["other", "subsimp"] else None
            if ps is None:
                continue
            m = {sexp.dumps(k): v for k, v, _ in ps}
            if sexp.dumps(DZ) not in m:
                continue
            for kk in self.planted:
                n = ["div", m.get(sexp.dumps(kk), kk), m[sexp.dumps(DZ)]]
                if n not in cands:
                    cands.append(n)
        reject = [n for n in cands if not builds(n)]
        return ["hist", ["reject"] + reject, ["keep", str(keep_salt), keep_bad], ["calls"] + calls]


def cases(rng, tier):
    n_hist, n_calls = (200, 10) if tier == "quick" else (600, 40)
    for _ in range(n_hist):
        yield HistGen(rng, n_calls).history()


MANIFEST = {
    "level_text": ("Lean 4 theorems (Props/C14.lean) about an executable model of dag.py's stack-and-cache machine with the "
                   "repaired walk(): for EVERY node function (may raise), both cache policies, every expression and every history "
                   "of calls, a call on a clean walker returns the value of the plain structural recursion (raises iff it raises, "
                   "never a KeyError, 2*size pops suffice) and leaves the walker clean — also when it raised; hence any history "
                   "answers call by call like fresh walkers. Instantiated for Substituter, FreeVarsOracle, FreeVarsExtractor of one "
                   "environment (interleaved calls) and for create_node's register-after-type-check order; the code as found is "
                   "refuted on kernel-checked witnesses. Model and code are tied by differential runs of random histories on one "
                   "real Environment (answers and walker state), and every call is compared with the same call on a fresh "
                   "Environment."),
    "level_note": ("Trusted: Lean kernel; axioms propext, Classical.choice, Quot.sound; Driver.lean + correspondence harness. "
                   "Simplifier/TypeChecker/quantifier-remover node functions are not modelled (generic theorem + fresh-environment "
                   "oracle); which constructions are ill-typed is measured, not modelled (C15)."),
    "technique": "Lean 4 proof of a state-machine invariant + refinement to the pure recursion; model/code correspondence on histories",
    "design_ref": "DESIGN.md §5 C14",
}
