"""C14 — Shared environment walkers are history-independent, even after failures."""
import random
import warnings
from fractions import Fraction

warnings.simplefilter("ignore")
from unified_planning.exceptions import UPTypeError
from unified_planning.model import Problem, FreeVarsOracle
from unified_planning.model.operators import OperatorKind
from unified_planning.model.walkers import (ExpressionQuantifiersRemover, FluentsSubstituter, FreeVarsExtractor,
                                            InterpretedFunctionsExtractor, LinearChecker, NamesExtractor,
                                            OperatorsExtractor, QuantifierSimplifier, Simplifier, Substituter, TypeChecker)
from unified_planning.model.walkers.dag import DagWalker
from unified_planning.model.walkers.state_evaluator import StateEvaluator
from unified_planning.model.state import UPState
import unified_planning.model.walkers as walkers

import sexp
from upx import Ctx, ExprGen, enc_expr, enc_ty

ID = "C14"
GEN = []
CORR_NAME = "history-answers-and-walker-state"
RULE = ("one case = a HISTORY of operations on ONE real Environment with two Problems built in it (10 base operations quick / 40 "
        "thorough, plus a context scenario in ~60% of the histories) over a pool of 4-7 typed expressions that are reused, nested "
        "and combined (so cache entries of one call are hit by later ones). Calls: FNode.substitute with 1-3 pairs (fluent "
        "applications, parameters, free and bound variables, compound keys; ~10% an incompatible pair; half of the calls pass the "
        "SAME dict object with new content), env.free_vars_oracle, env.free_vars_extractor, two probe subclasses of the real "
        "DagWalker (one-time cache with keyword arguments ignored by the key, like the Substituter; persistent cache), ONE "
        "long-lived ExpressionQuantifiersRemover handed problem 0 or 1 — all followed by the model — and, checked by the oracle "
        "only: simplify (incl. interpreted functions), substitute-then-simplify, .type, raw node construction (incl. ill-typed, "
        "requested twice), one StateEvaluator and one QuantifierSimplifier per problem (states with a missing fluent value), one "
        "FluentsSubstituter built on a dict, get_contained_names / OperatorsExtractor / interpreted_functions_extractor / "
        "LinearChecker (the caller MUTATES every container it gets back and asks again for the same or a bigger expression). "
        "MUTATIONS made by the caller between two calls: add_object to a problem (a type already quantified over by an earlier "
        "call on that problem, a subtype, a supertype, an unrelated type, a type that had no object), add_fluent, insert/delete "
        "an entry of the FluentsSubstituter's dict. The context scenario is: call(p, e) [call(1-p, e)] — add_object(p, related "
        "type) [one more mutation] — call(p, e or another expression over the same type) [call(1-p, …)] [call(p, e)] on one "
        "long-lived walker (remover 50%, StateEvaluator, QuantifierSimplifier, FluentsSubstituter), interleaved with the other "
        "operations. About a quarter of the calls are made to fail mid-walk: a planted `K / dz` site with `dz -> 0` in the map "
        "(the type check of the rebuilt node divides by zero), a probe node function raising on a listed node, an interpreted "
        "function with no table entry, `0*x / 0` in the simplifier, an ill-typed construction. Non-trivial = some modelled call "
        "raised mid-walk and a later call uses the same walker, OR a walker is called again with a context object that the "
        "caller changed since that walker's previous call on it (tags ctx:* in the measured distribution).")
ASSUMPTIONS = [
    "which node constructions the expression manager refuses, and which (key, value) pairs are type-compatible, is C15's "
    "subject: both are MEASURED on a fresh environment when the case is generated and handed to the model as the values of "
    "its `reject` / compatibility parameters (the C14 theorems hold for every value of these parameters)",
    "the exception raised by a failing call is part of its result for the oracle (class name); against the model only the "
    "fact that the walk raised is compared (for the probe walkers also the node at which it raised)",
    "walkers are not re-entered from their own node functions (dag.py's one-time cache cannot support it: the library "
    "itself builds a new Substituter for quantifier bodies); the model covers calls that start with an empty stack",
    "quantifier variable lists of simplified expressions come out of a Python set and are sorted before comparison",
    "the Substituter instance mirrors substituter.py WITH notes/patches/C13-substituter-top-down.patch applied (a node that "
    "is a key is replaced before its children are visited); the generic machine and everything else is independent of it",
    "a call's ARGUMENTS are the expression and the objects passed, with the content they have when the call is made: "
    "mutating a Problem (or a dict) between two calls changes the argument of the later call, it is not an 'earlier call'. "
    "The oracle therefore replays the caller's own mutations — and nothing else — on the fresh environment",
    "Simplifier(env, problem) and LinearChecker(problem) snapshot problem.get_static_fluents() at construction and keep "
    "their cache; their docstrings declare the behaviour undefined once the problem is modified, so histories never mutate "
    "a problem such a walker was built on (Props/C14Ctx.lean `keptCtx_*`: no walker that keeps its cache can read a mutable "
    "context). UsertypeFluentsWalker hands out fresh names by design and is not a walker of the property",
    "the caller owns what a call returns: mutating a returned set is legitimate and must not influence later answers "
    "(needs notes/patches/C14-extractors-return-copies.patch; without it get_contained_names hands out its cache entry)",
]
MODELLED = [
    "modelled by hand (tied by correspondence): DagWalker.walk/iter_walk/_process_stack/_push_with_children_to_stack/"
    "_compute_node_result/_get_key, invalidate_memoization; Substituter (_get_key, quantifier override, substitute, "
    "walk_replace_or_identity) over IdentityDagWalker and the manager's And/Or/Not/Plus/Times collapses; FreeVarsOracle; "
    "FreeVarsExtractor; ExpressionManager.create_node's register/type-check order; ExpressionQuantifiersRemover "
    "(remove_quantifiers' field assignment, _help_walk_quantifiers, walk_exists/walk_forall) over ObjectsSetMixin.objects / "
    "add_object of two problems",
    "the Substituter's nested walkers (a new Substituter per quantifier body, env.free_vars_oracle for the keys) and the "
    "substitute() calls made by the remover's node functions on the environment's shared Substituter are modelled by their "
    "pure functions — justified by C14_result / C14_step for a clean walker (the shared Substituter's stack and cache sizes "
    "after every remover call are part of the compared answer)",
    "not modelled, covered by the two oracles (fresh environment with the mutations replayed; brand-new instance on the "
    "same live arguments) only: Simplifier, TypeChecker, QuantifierSimplifier, StateEvaluator, FluentsSubstituter, "
    "NamesExtractor, OperatorsExtractor, InterpretedFunctionsExtractor, LinearChecker node functions (instances of the generic "
    "machine / of the entry-method theorem C14_ctx_history_independent, whose hypothesis `Resets` is not proved for them)",
    "results are immutable values in the model; that a caller cannot reach a walker's cache through a returned container is "
    "checked on the real code only (every returned set is mutated by the harness)",
    "Python dict/list semantics, FNode identity as structural equality (C16)",
]
BUDGET_S = {"quick": 60, "thorough": 420}

INT, REAL = ["int", "_", "_"], ["real", "_", "_"]
U = lambda n: ["user", n]
DZ = ["fl", ["dz", ["int", "0", "10"], []]]          # the planted divisor
XB = ["fl", ["xb", ["int", "0", "10"], []]]
OBJ_BY_TYPE = {"T": ["t1", "t2", "s1", "s2"], "S": ["s1", "s2"], "U": ["u1"], "E": []}
OBJ_TY = dict(ExprGen.OBJECTS)
_SIG = ExprGen(random.Random(0))
GROUND_FLUENTS = []
for _ref in _SIG.bool_fl + _SIG.int_fl + _SIG.real_fl + _SIG.obj_fl + [DZ[1]]:
    _doms = [[["o", o, OBJ_TY[o]] for o in OBJ_BY_TYPE[t[1]]] for t in _ref[2]]
    for _args in ([[]] if not _doms else [[a] for a in _doms[0]]):
        GROUND_FLUENTS.append(["fl", _ref] + _args)
G_TABLE = {(Fraction(1),): 5, (Fraction(2),): -3, (Fraction(0),): 0, (Fraction(5),): 2}
GB_TABLE = {(Fraction(1),): True, (Fraction(2),): False, (Fraction(0),): True}


# ---------------------------------------------------------------------------------------------------
# probe walkers: harness-defined node functions on top of the REAL DagWalker machinery
# ---------------------------------------------------------------------------------------------------

class ProbeError(Exception):
    def __init__(self, node):
        Exception.__init__(self, str(node))
        self.node = node


def _probe_val(salt, expression, args):
    return (salt + len(expression.args) + sum((i + 2) * a for i, a in enumerate(args))) % 1000003


class ProbeInv(DagWalker):
    """one-time cache; `salt`/`bad` are keyword arguments that the key ignores (as Substituter does)"""

    def __init__(self):
        DagWalker.__init__(self, True)

    def _get_key(self, expression, **kwargs):
        return expression

    @walkers.handles(OperatorKind)
    def walk_any_node(self, expression, args, salt=0, bad=(), **kwargs):
        if expression in bad:
            raise ProbeError(expression)
        return _probe_val(salt, expression, args)


class ProbeKeep(DagWalker):
    """persistent cache; no keyword arguments"""

    def __init__(self, salt, bad):
        DagWalker.__init__(self)
        self.salt, self.bad = salt, bad

    @walkers.handles(OperatorKind)
    def walk_any_node(self, expression, args):
        if expression in self.bad:
            raise ProbeError(expression)
        return _probe_val(self.salt, expression, args)


# ---------------------------------------------------------------------------------------------------
# one side (shared or fresh) of a history
# ---------------------------------------------------------------------------------------------------

DEFAULT_WORLD = [[list(o) for o in ExprGen.OBJECTS]]          # cases written before the world was part of the payload
FMAP_PAIRS = [(["b0", "bool", []], ["b1", "bool", []]), (["b1", "bool", []], ["b2", "bool", []]),
              (["x", INT, []], ["y", INT, []]), (["z", REAL, []], ["zb", ["real", "0", "7/2"], []])]
SENTINEL = "c14-sentinel"


def world_sexp(problems):
    return ["world", ["types"] + [[n, f if f else "_"] for n, f in ExprGen.TYPES]] + \
           [["pb"] + [[n, t] for n, t in objs] for objs in problems]


def world_of(payload):
    if len(payload) > 4:
        return [[(o[0], o[1]) for o in pb[1:]] for pb in payload[4][2:]]
    return [[(n, t) for n, t in pb] for pb in DEFAULT_WORLD]


def _is_sub(t, u):
    fathers = dict(ExprGen.TYPES)
    while t is not None:
        if t == u:
            return True
        t = fathers.get(t)
    return False


class Side:
    """one real Environment, the problems built in it, and the LONG-LIVED walker instances of the history"""

    def __init__(self, keep_salt, keep_bad, world):
        self.ctx = Ctx(types=ExprGen.TYPES)
        self.ctx.fun_tables = {"g": dict(G_TABLE), "gb": dict(GB_TABLE)}
        self.env = self.ctx.env
        self.keep = (keep_salt, keep_bad)
        self.world = [list(objs) for objs in world]     # current objects of every problem, insertion order
        self.extra_fluents = [[] for _ in world]
        self._problems = None
        self.inst = {}                                   # the long-lived walker objects
        self.subs_dict = {}                              # ONE dict object reused by substitute calls
        self.fmap = {}                                   # the dict a FluentsSubstituter was built with
        self.twin_fail = []

    def pb(self, p):
        if self._problems is None:
            self._problems = []
            for i, objs in enumerate(self.world):
                pr = Problem(f"c14_{i}", self.env)
                for n, t in objs:
                    pr.add_object(self.ctx.obj(n, t))
                for fn in self.extra_fluents[i]:
                    pr.add_fluent(self.ctx.fluent([fn, "bool", []]), default_initial_value=False)
                self._problems.append(pr)
        return self._problems[p]

    def mutate(self, m):
        """the CALLER changes an object that some long-lived walker was handed (or will be handed again)"""
        what = m[1]
        if what == "obj":
            p, n, t = int(m[2]), m[3], m[4]
            self.world[p].append((n, t))
            if self._problems is not None:
                self._problems[p].add_object(self.ctx.obj(n, t))
        elif what == "fluent":
            p, n = int(m[2]), m[3]
            self.extra_fluents[p].append(n)
            if self._problems is not None:
                self._problems[p].add_fluent(self.ctx.fluent([n, "bool", []]), default_initial_value=False)
        elif what == "fmap":
            k, v = FMAP_PAIRS[int(m[2])]
            fk, fv = self.ctx.fluent(k), self.ctx.fluent(v)
            if fk in self.fmap:
                del self.fmap[fk]
            else:
                self.fmap[fk] = fv
        else:
            raise ValueError(f"unknown mutation {m}")

    def ground_fluents(self, p):
        """every ground application of a signature fluent over the CURRENT objects of problem p"""
        out = []
        for ref in _SIG.bool_fl + _SIG.int_fl + _SIG.real_fl + _SIG.obj_fl + [DZ[1]]:
            if not ref[2]:
                out.append(["fl", ref])
            else:
                for n, t in self.world[p]:
                    if _is_sub(t, ref[2][0][1]):
                        out.append(["fl", ref, ["o", n, t]])
        return out

    def assignments(self, p, seed, dropped):
        r = random.Random(int(seed))
        vals = {}
        for fe in self.ground_fluents(p):
            v = value_for(r, fe[1][1], const=True)
            if fe not in dropped:
                vals[self.ctx.expr(fe)] = self.ctx.expr(v)
        return vals

    def state(self, p, seed, dropped):
        """a state giving every ground fluent of the signature a value drawn from `seed`, except `dropped`"""
        return UPState(self.assignments(p, seed, dropped), self.pb(p))


class Walkers:
    """where a call finds its walker: the long-lived instances of the side / the singletons of its Environment
    (fresh=False), or a BRAND-NEW instance of the same class for every request (fresh=True: the fresh-instance
    comparison — same Environment, same live arguments, a walker that has no past)"""

    def __init__(self, side, fresh):
        self.side, self.fresh, self.env = side, fresh, side.env

    def _get(self, key, make):
        if self.fresh:
            return make()
        if key not in self.side.inst:
            self.side.inst[key] = make()
        return self.side.inst[key]

    def substituter(self):
        return Substituter(self.env) if self.fresh else self.env.substituter

    def simplifier(self):
        return Simplifier(self.env) if self.fresh else self.env.simplifier

    def type_checker(self):
        return TypeChecker(self.env) if self.fresh else self.env.type_checker

    def fvo(self):
        return FreeVarsOracle() if self.fresh else self.env.free_vars_oracle

    def fve(self):
        return FreeVarsExtractor() if self.fresh else self.env.free_vars_extractor

    def names(self):
        return NamesExtractor() if self.fresh else self.env.names_extractor

    def ifuns(self):
        return InterpretedFunctionsExtractor() if self.fresh else self.env.interpreted_functions_extractor

    def ops(self):
        return self._get("ops", OperatorsExtractor)

    def lin(self):
        return self._get("lin", lambda: LinearChecker(None, self.env))

    def pinv(self):
        return self._get("pinv", ProbeInv)

    def pkeep(self):
        return self._get("pkeep", lambda: ProbeKeep(self.side.keep[0], [self.side.ctx.expr(b) for b in self.side.keep[1]]))

    def qrm(self):
        return self._get("qrm", lambda: ExpressionQuantifiersRemover(self.env))

    def evaluator(self, p):
        return self._get(("se", p), lambda: StateEvaluator(self.side.pb(p)))

    def qsimp(self, p):
        return self._get(("qs", p), lambda: QuantifierSimplifier(self.env, self.side.pb(p)))

    def fsub(self):
        return self._get("fsub", lambda: FluentsSubstituter(self.side.fmap, self.env))


def _raised(e):
    return ["raised", type(e).__name__]


def _set_out(tag, items):
    return [tag] + sorted(items, key=sexp.dumps)


def _st(w, memo=True):
    return ["st", str(len(w.stack))] + ([str(len(w.memoization))] if memo else [])


def run_call(side, call, W=None):
    """-> (result, states) ; result carries the exception class; states = list of observable walker states
    (modelled calls) or None.  W says where the walkers come from (default: the side's long-lived ones)."""
    ctx, env = side.ctx, side.env
    W = W or Walkers(side, False)
    kind = call[0]
    try:
        if kind == "mut":
            side.mutate(call)
            return "mutated", None
        if kind == "subst":
            w = W.substituter()
            e = ctx.expr(call[1])
            # an odd number of pairs: the SAME dict object as earlier calls, with new content
            subs = side.subs_dict if len(call[2]) % 2 == 1 else {}
            subs.clear()
            for k, v, _ in call[2]:
                subs[ctx.expr(k)] = ctx.expr(v)
            try:
                res = ["ok", enc_expr(w.substitute(e, subs) if W.fresh else e.substitute(subs))]
            except UPTypeError as ex:
                res = "incompatible" if str(ex).startswith("The expression type of") else _raised(ex)
            except Exception as ex:
                res = _raised(ex)
            return res, [_st(w)]
        if kind == "fv":
            w = W.fvo()
            e = ctx.expr(call[1])
            try:
                res = _set_out("vars", [[v.name, enc_ty(v.type)] for v in w.get_free_variables(e)])
            except Exception as ex:
                res = _raised(ex)
            return res, [_st(w, False)]
        if kind == "fl":
            w = W.fve()
            e = ctx.expr(call[1])
            try:
                res = _set_out("exprs", [enc_expr(x) for x in w.get(e)])
            except Exception as ex:
                res = _raised(ex)
            return res, [_st(w, False)]
        if kind in ("pinv", "pkeep"):
            if kind == "pinv":
                w = W.pinv()
                e = ctx.expr(call[3])
                kw = {"salt": int(call[1]), "bad": [ctx.expr(b) for b in call[2]]}
            else:
                w = W.pkeep()
                e = ctx.expr(call[1])
                kw = {}
            try:
                res = ["ok", str(w.walk(e, **kw))]
            except ProbeError as ex:
                res = ["raised", enc_expr(ex.node)]
            except Exception as ex:
                res = _raised(ex)
            return res, [_st(w)]
        if kind == "qrm":
            w = W.qrm()
            e = ctx.expr(call[2])
            try:
                res = ["ok", enc_expr(w.remove_quantifiers(e, side.pb(int(call[1]))))]
            except Exception as ex:
                res = _raised(ex)
            return res, [_st(w), _st(env.substituter)]
        assert kind == "other"
        what = call[1]
        if what == "simplify":
            e = ctx.expr(call[2])
            return ["ok", enc_expr(W.simplifier().simplify(e) if W.fresh else e.simplify(), True)], None
        if what == "subsimp":
            e = ctx.expr(call[2])
            subs = {ctx.expr(k): ctx.expr(v) for k, v, _ in call[3]}
            if W.fresh:
                return ["ok", enc_expr(W.simplifier().simplify(W.substituter().substitute(e, subs)), True)], None
            return ["ok", enc_expr(e.substitute(subs).simplify(), True)], None
        if what == "type":
            e = ctx.expr(call[2])
            return ["ok", enc_ty(W.type_checker().get_type(e) if W.fresh else e.type)], None
        if what == "mk":
            return ["ok", enc_expr(ctx.expr(call[2]))], None
        if what == "eval":
            p = int(call[5]) if len(call) > 5 else 0
            se = W.evaluator(p)
            return ["ok", enc_expr(se.evaluate(ctx.expr(call[2]), side.state(p, call[3], call[4])))], None
        if what == "qsimp":
            p = int(call[4])
            qs = W.qsimp(p)
            return ["ok", enc_expr(qs.qsimplify(ctx.expr(call[2]), side.assignments(p, call[3], []), {}), True)], None
        if what == "qrm":      # cases written before `qrm` became a modelled call
            return ["ok", enc_expr(W.qrm().remove_quantifiers(ctx.expr(call[2]), side.pb(0)))], None
        if what == "fsub":
            return ["ok", enc_expr(W.fsub().substitute_fluents(ctx.expr(call[2])))], None
        # extractors: whatever mutable container comes back is MUTATED by the caller afterwards (a caller owns its
        # result; a walker that hands out its cache entry would answer the next call with the caller's additions)
        if what == "names":
            e = ctx.expr(call[2])
            got = W.names().extract_names(e) if W.fresh else e.get_contained_names()
            res = _set_out("names", list(got))
            if isinstance(got, set):
                got.add(SENTINEL)
            return res, None
        if what == "ops":
            got = W.ops().get(ctx.expr(call[2]))
            res = _set_out("ops", [k.name for k in got])
            if isinstance(got, set):
                got.add(OperatorKind.SOMETIME_AFTER)
            return res, None
        if what == "ifuns":
            got = W.ifuns().get(ctx.expr(call[2]))
            res = _set_out("exprs", [enc_expr(x) for x in got])
            if isinstance(got, set):
                got.add(SENTINEL)
            return res, None
        if what == "lin":
            lin, pos, neg = W.lin().get_fluents(ctx.expr(call[2]))
            res = ["lin", "T" if lin else "F", _set_out("pos", [enc_expr(x) for x in pos]),
                   _set_out("neg", [enc_expr(x) for x in neg])]
            for got in (pos, neg):
                if isinstance(got, set):
                    got.add(ctx.expr(["fl", ["b0", "bool", []]]))
            return res, None
        raise ValueError(f"unknown call {call}")
    except Exception as ex:   # construction of the arguments, or an `other` call, raised
        return _raised(ex), None


def parts(payload):
    assert payload[0] == "hist"
    return payload[1][1:], int(payload[2][1]), payload[2][2], payload[3][1:]


def has_twin(c):
    """calls answered by a walker object (everything but mutations and raw node construction)"""
    return c[0] != "mut" and c[:2] != ["other", "mk"]


def run_history(payload, twin=False):
    """the history on ONE side.  twin=True: after every call the same call is also put, with the same live
    arguments, to a brand-new walker instance of the same class; mismatches are collected in `side.twin_fail`"""
    _, ks, kb, calls = parts(payload)
    side = Side(ks, kb, world_of(payload))
    out = []
    for i, c in enumerate(calls):
        r = run_call(side, c)
        out.append(r)
        if twin and has_twin(c):
            r2 = run_call(side, c, Walkers(side, True))
            if r2[0] != r[0]:
                side.twin_fail.append((i, c, r[0], r2[0]))
    return (out, side) if twin else out


def run_fresh(payload, i):
    """call i on a FRESH environment in which the caller's mutations up to i (and nothing else) were made"""
    _, ks, kb, calls = parts(payload)
    side = Side(ks, kb, world_of(payload))
    for c in calls[:i]:
        if c[0] == "mut":
            side.mutate(c)
    return run_call(side, calls[i])


# ---------------------------------------------------------------------------------------------------
# harness interface
# ---------------------------------------------------------------------------------------------------

_OUTCOMES = {}


def _for_model(res):
    """what is compared with the model: the class of an exception is not (see ASSUMPTIONS)"""
    if isinstance(res, list) and res and res[0] == "raised" and isinstance(res[1], str):
        return "raised"
    return res


def impl(payload):
    out, outcomes = [], []
    _, _, _, calls = parts(payload)
    for c, (res, sts) in zip(calls, run_history(payload)):
        outcomes.append(res)
        if c[0] == "other":
            out.append("unmodelled")
        elif c[0] == "mut":
            out.append(_for_model(res))
        else:
            out.append([_for_model(res)] + (sts if sts is not None else ["no-state"]))
    _OUTCOMES[sexp.dumps(payload)] = outcomes
    if len(_OUTCOMES) > 4:
        _OUTCOMES.pop(next(iter(_OUTCOMES)))
    return out


def _canon(ans):
    if not isinstance(ans, list):
        return ans
    out = []
    for a in ans:
        if isinstance(a, list) and a and isinstance(a[0], list) and a[0] and a[0][0] in ("vars", "exprs"):
            a = [_set_out(a[0][0], a[0][1:])] + a[1:]
        out.append(a)
    return out


def compare(model_ans, impl_ans):
    return _canon(model_ans) == _canon(impl_ans)


def _walker_of(c):
    return c[0] if c[0] not in ("other", "mut") else None


def _mid_walk_failure(c, a):
    return c[0] not in ("other", "mut") and isinstance(a, list) and (a[0] == "raised" or (isinstance(a[0], list) and a[0][:1] == ["raised"]))


def ctx_key(c):
    """(walker object, context object) of a call whose arguments include a mutable context, else None"""
    if c[0] == "qrm":
        return ("qrm", "pb" + c[1])
    if c[:2] == ["other", "qrm"]:
        return ("qrm", "pb0")
    if c[:2] == ["other", "eval"]:
        return ("se" + (c[5] if len(c) > 5 else "0"), "pb" + (c[5] if len(c) > 5 else "0"))
    if c[:2] == ["other", "qsimp"]:
        return ("qs" + c[4], "pb" + c[4])
    if c[:2] == ["other", "fsub"]:
        return ("fsub", "fmap")
    return None


def mut_target(c):
    if c[0] != "mut":
        return None
    return "fmap" if c[1] == "fmap" else "pb" + c[2]


def ctx_shapes(calls):
    """which context shapes a history exercises (tags)"""
    tags = set()
    called, dirty, last = {}, {}, {}
    for c in calls:
        t = mut_target(c)
        if t is not None:
            for w in called:
                if t in called[w]:
                    dirty[w].add(t)
            continue
        k = ctx_key(c)
        if k is None:
            continue
        w, cx = k
        called.setdefault(w, set())
        dirty.setdefault(w, set())
        if cx in dirty[w]:
            tags.add("ctx:mutated-between-calls")          # same walker, same context object, changed in between
            if w == "qrm":
                tags.add("ctx:qrm-mutated-between-calls")
            dirty[w].discard(cx)
        if cx in called[w] and last[w] != cx:
            tags.add("ctx:problems-alternating")            # A, B, A on one walker
        called[w].add(cx)
        last[w] = cx
    return sorted(tags)


def nontrivial(payload, ans):
    _, _, _, calls = parts(payload)
    for i, (c, a) in enumerate(zip(calls, ans)):
        if _mid_walk_failure(c, a) and any(_walker_of(d) == c[0] for d in calls[i + 1:]):
            return True
    return "ctx:mutated-between-calls" in ctx_shapes(calls)


def stats(payload, ans):
    _, _, _, calls = parts(payload)
    outcomes = _OUTCOMES.get(sexp.dumps(payload)) or [None] * len(calls)
    tags = []
    for c, r in zip(calls, outcomes):
        k = c[0] if c[0] not in ("other", "mut") else c[0] + "-" + c[1]
        if r == "incompatible":
            o = "incompatible"
        elif isinstance(r, list) and r and r[0] == "raised":
            o = "raised"
        else:
            o = "ok"
        tags.append(f"{k}:{o}")
    failed = any(_mid_walk_failure(c, a) and any(_walker_of(d) == c[0] for d in calls[i + 1:])
                 for i, (c, a) in enumerate(zip(calls, ans)))
    tags.append("history:failure-then-reuse" if failed else "history:no-failure-then-reuse")
    shapes = ctx_shapes(calls)
    tags += shapes if shapes else ["ctx:none"]
    tags.append("history:nontrivial" if nontrivial(payload, ans) else "history:trivial")
    return tags


def oracle(payload):
    """The property itself on the real code.  Every call of the history, made on the shared environment with its
    long-lived walkers, must answer exactly
      (1) what the same call answers on a FRESH environment in which only the caller's own mutations of the
          arguments (objects / fluents added to the problems, entries of the fluents map) were replayed, and
      (2) what a BRAND-NEW walker instance answers to it on the shared environment, given the same live arguments."""
    _, _, _, calls = parts(payload)
    shared = run_history(payload)
    for i, (c, (res, _)) in enumerate(zip(calls, shared)):
        if c[0] == "mut":
            if res != "mutated":
                return f"mutation {i} {sexp.dumps(c)} failed: {sexp.dumps(res)}"
            continue
        fres, _ = run_fresh(payload, i)
        if res != fres:
            k = c[0] if c[0] != "other" else c[1]
            return (f"call {i} ({k}) answered {sexp.dumps(res)[:300]} on the shared environment but "
                    f"{sexp.dumps(fres)[:300]} on a fresh one")
    _, side = run_history(payload, twin=True)
    if side.twin_fail:
        i, c, r, r2 = side.twin_fail[0]
        k = c[0] if c[0] != "other" else c[1]
        return (f"call {i} ({k}) answered {sexp.dumps(r)[:300]} on the long-lived walker but a brand-new instance "
                f"given the same arguments answers {sexp.dumps(r2)[:300]}")
    return None


def shrink(payload):
    rej, ks, kb, calls = parts(payload)
    head, tail = payload[:3], payload[4:]
    for i in range(len(calls)):
        yield head + [["calls"] + calls[:i] + calls[i + 1:]] + tail
    for i, c in enumerate(calls):   # smaller maps
        j = 2 if c[0] == "subst" else 3 if c[:2] == ["other", "subsimp"] else None
        if j is not None and len(c[j]) > 1:
            for d in range(len(c[j])):
                nc = c[:j] + [c[j][:d] + c[j][d + 1:]] + c[j + 1:]
                yield head + [["calls"] + calls[:i] + [nc] + calls[i + 1:]] + tail


# ---------------------------------------------------------------------------------------------------
# generator
# ---------------------------------------------------------------------------------------------------

def subterms(s, acc=None):
    """all sub-EXPRESSIONS of an expression s-expression (not refs / variable lists)"""
    acc = acc if acc is not None else []
    acc.append(s)
    h = s[0]
    if h in ("fl", "ifun"):
        for a in s[2:]:
            subterms(a, acc)
    elif h in ("exists", "forall"):
        subterms(s[2], acc)
    elif h == "dot":
        subterms(s[2], acc)
    elif h in ("b", "i", "r", "o", "p", "v", "timing", "present"):
        pass
    else:
        for a in s[1:]:
            subterms(a, acc)
    return acc


def strip_div(s):
    """replace every division by a subtraction (division only occurs at planted sites)"""
    if not isinstance(s, list) or not s:
        return s
    h = s[0]
    if h in ("b", "i", "r", "o", "p", "v"):
        return s
    if h in ("fl", "ifun"):
        return [h, s[1]] + [strip_div(a) for a in s[2:]]
    if h in ("exists", "forall"):
        return [h, s[1], strip_div(s[2])]
    if h == "div":
        return ["minus", strip_div(s[1]), strip_div(s[2])]
    return [h] + [strip_div(a) for a in s[1:]]


def ty_of_leaf(s):
    if s[0] == "fl":
        return s[1][1]
    if s[0] in ("p", "v"):
        return s[2]
    return None


def value_for(rng, ty, wrong=False, const=False):
    if const:
        if ty == "bool":
            return ["b", rng.choice(["T", "F"])]
        if ty[0] == "int":
            return ["i", str(rng.randint(int(ty[1]) if ty[1] != "_" else -3, int(ty[2]) if ty[2] != "_" else 9))]
        if ty[0] == "real":
            return rng.choice([["r", "1/2"], ["i", "2"], ["r", "7/2"], ["i", "0"]])
        return (lambda o: ["o", o, OBJ_TY[o]])(rng.choice(OBJ_BY_TYPE[ty[1]]))
    if wrong:
        if ty == "bool":
            return ["i", "3"]
        if ty[0] in ("int", "real"):
            return rng.choice([["b", "T"], ["o", "u1", "U"]] + ([["i", "99"]] if ty[2] != "_" else []))
        return ["o", "u1", "U"] if ty[1] != "U" else ["o", "t1", "T"]
    if ty == "bool":
        return rng.choice([["b", "T"], ["b", "F"], ["fl", ["b1", "bool", []]], ["not", ["fl", ["b2", "bool", []]]],
                           ["p", "pb", "bool"], ["and", ["fl", ["b0", "bool", []]], ["fl", ["b1", "bool", []]]],
                           ["not", ["not", ["fl", ["b0", "bool", []]]]]])
    if ty[0] == "int":
        lo = int(ty[1]) if ty[1] != "_" else -3
        hi = int(ty[2]) if ty[2] != "_" else 9
        if rng.random() < 0.3:
            return rng.choice([["fl", ["x", INT, []]], ["plus", ["fl", ["y", INT, []]], ["i", "1"]], XB])
        return ["i", str(rng.randint(lo, hi))]
    if ty[0] == "real":
        return rng.choice([["r", "1/2"], ["i", "2"], ["fl", ["z", REAL, []]], ["r", "7/2"]])
    if ty[0] == "user":
        os_ = OBJ_BY_TYPE.get(ty[1], [])
        opts = [["o", o, OBJ_TY[o]] for o in os_]
        if ty[1] == "T":
            opts += [["p", "pt", U("T")], ["fl", ["at", U("T"), []]]]
        if ty[1] in ("T", "S"):
            opts.append(["p", "ps", U("S")])
        return rng.choice(opts) if opts else None
    return None


def builds(s):
    """does the real manager accept this expression on a fresh environment?"""
    try:
        Ctx(types=ExprGen.TYPES).expr(s)
        return True
    except Exception:
        return False


def measure_compat(k, v):
    """Substituter.substitute's own test (substituter.py:108-112), on a fresh environment"""
    c = Ctx(types=ExprGen.TYPES)
    try:
        fk, fv = c.em.auto_promote(c.expr(k), c.expr(v))
        return bool(fk.type.is_compatible(fv.type))
    except Exception:
        return None


class HistGen:
    def __init__(self, rng, n_calls):
        self.rng, self.n = rng, n_calls
        self.g = ExprGen(rng, big=False, quantifiers=True, ifuns=False, params=True)
        self.gi = ExprGen(rng, big=False, quantifiers=True, ifuns=True, params=True)
        self.planted = []     # (dividend, site) pairs

    def fresh_bool(self, depth, gen=None, keep_div=False):
        for _ in range(30):
            e = (gen or self.g).boolean(depth)
            if not keep_div:
                e = strip_div(e)
            if builds(e):
                return e
        return ["fl", ["b0", "bool", []]]

    def plant(self, a):
        """a Boolean expression containing `a` and a `K / dz` site"""
        r = self.rng
        k = r.choice([["i", "4"], ["i", "7"], XB, ["i", "0"]])
        site = ["div", k, DZ]
        self.planted.append(k)
        atom = r.choice([["le", site, ["i", "3"]], ["lt", ["plus", ["fl", ["x", INT, []]], site], ["r", "1/2"]],
                         ["le", ["i", "1"], ["times", site, ["fl", ["y", INT, []]]]]])
        shape = r.random()
        if shape < 0.35:
            return ["and", a, atom]          # `atom` is popped first: fails before anything is cached
        if shape < 0.7:
            return ["and", atom, a]          # `a` is walked (and cached) first, then the walk fails
        if shape < 0.85:
            return ["or", ["not", atom], a, ["fl", ["b2", "bool", []]]]
        return ["implies", a, ["and", ["fl", ["b1", "bool", []]], atom]]

    def pairs(self, e, n, fail=False, incompatible=False):
        r = self.rng
        subs = subterms(e)
        leaves = [s for s in subs if s[0] in ("fl", "p", "v") and s != DZ]
        comp = [s for s in subs if s[0] not in ("fl", "p", "v", "b", "i", "r", "o") and s is not e]
        keys, out = [], []
        if fail:
            out.append([DZ, ["i", "0"]])
            keys.append(DZ)
        elif DZ in subs and r.random() < 0.5:
            out.append([DZ, ["i", str(r.randint(1, 9))]])
            keys.append(DZ)
        tries = 0
        while len(out) < n and tries < 20:
            tries += 1
            if comp and r.random() < 0.12:
                k = r.choice(comp)
                v = ["b", r.choice(["T", "F"])] if k[0] in ("and", "or", "not", "implies", "iff", "le", "lt", "eq", "exists", "forall") \
                    else ["i", str(r.randint(0, 5))]
            elif leaves:
                k = r.choice(leaves)
                t = ty_of_leaf(k)
                v = value_for(r, t, wrong=incompatible and not any(p[2:] == ["F"] for p in out))
            else:
                break
            if v is None or k in keys or v == k:
                continue
            c = measure_compat(k, v)
            if c is None:
                continue
            keys.append(k)
            out.append([k, v, "T" if c else "F"])
        res = []
        for p in out:
            if len(p) == 2:
                c = measure_compat(p[0], p[1])
                p = [p[0], p[1], "T" if c else "F"]
            res.append(p)
        r.shuffle(res)
        return res

    # -- calls whose arguments include a mutable context ----------------------------------------
    def quantified(self, q, tyn=None):
        """a ground Boolean expression with (at least) one quantifier over user type `tyn`, body mentioning the variable"""
        r = self.rng
        for _ in range(20):
            q.fresh += 1
            t = tyn or r.choice(["T", "T", "S", "S", "U", "E"])
            v = (f"q{q.fresh}", ["user", t])
            vs, sc = [list(v)], (v,)
            if r.random() < 0.25:
                q.fresh += 1
                v2 = (f"q{q.fresh}", ["user", r.choice(["T", "S", "U"])])
                vs.append(list(v2))
                sc = sc + (v2,)
            body = strip_div(q.boolean(r.choice([0, 1, 1, 2]), sc))
            if not any(s[0] == "v" and s[1] == v[0] for s in subterms(body)):
                var = ["v", v[0], v[1]]
                atom = {"T": r.choice([["fl", ["bq", "bool", [U("T")]], var], ["le", ["fl", ["xq", ["int", "-5", "5"], [U("T")]], var], ["i", "2"]]]),
                        "S": r.choice([["fl", ["bs", "bool", [U("S")]], var], ["fl", ["bq", "bool", [U("T")]], var],
                                       ["eq", ["fl", ["own", U("T"), [U("S")]], var], ["o", "t1", "T"]]]),
                        "U": ["eq", var, ["o", "u1", "U"]], "E": ["eq", var, var]}[t]
                body = [r.choice(["and", "or"]), atom, body] if r.random() < 0.7 else atom
            e = [r.choice(["exists", "forall"]), vs, body]
            k = r.random()
            if k < 0.15:
                e = ["not", e]
            elif k < 0.35:
                e = [r.choice(["and", "or", "implies"]), e, self.fresh_bool(1, q)]
            elif k < 0.45:      # nested in another quantifier
                q.fresh += 1
                e = [r.choice(["exists", "forall"]), [[f"q{q.fresh}", ["user", r.choice(["T", "S", "U"])]]], e]
            if builds(e):
                return e
        return ["forall", [["q0", ["user", "T"]]], ["fl", ["bq", "bool", [U("T")]], ["v", "q0", ["user", "T"]]]]

    def new_object(self, p, ty):
        self.n_obj += 1
        n = f"n{self.n_obj}"
        self.world_now[p].append((n, ty))
        return ["mut", "obj", str(p), n, ty]

    def new_fluent(self, p):
        self.n_fl += 1
        return ["mut", "fluent", str(p), f"nf{self.n_fl}"]

    def related_type(self, t):
        """type of an object to add between two calls that quantify over `t`: the type itself, a subtype, a
        supertype, an unrelated one"""
        k = self.rng.random()
        if k < 0.5:
            return t
        if k < 0.7:
            return {"T": "S"}.get(t, t)
        if k < 0.8:
            return {"S": "T"}.get(t, t)
        return self.rng.choice([u for u in ("T", "S", "U", "E") if not _is_sub(u, t) and not _is_sub(t, u)])

    def ctx_call(self, kind, p, e):
        r = self.rng
        if kind == "qrm":
            return ["qrm", str(p), e]
        if kind == "eval":
            return ["other", "eval", e, str(r.randint(0, 999)), [], str(p)]
        return ["other", "qsimp", e, str(r.randint(0, 999)), str(p)]

    def ctx_scenario(self):
        """call — the caller changes the context object — call again, on ONE long-lived walker; optionally with a
        second problem passed in between (A, B, A)"""
        r = self.rng
        kind = r.choice(["qrm", "qrm", "qrm", "eval", "qsimp", "fsub"])
        q = ExprGen(r, big=False, quantifiers=True, params=False)
        if kind == "fsub":
            e = self.fresh_bool(2)
            k = r.randrange(len(FMAP_PAIRS))
            ops = [["other", "fsub", e], ["mut", "fmap", str(k)], ["other", "fsub", e]]
            if r.random() < 0.5:
                ops += [["mut", "fmap", str(r.randrange(len(FMAP_PAIRS)))], ["other", "fsub", r.choice([e, self.fresh_bool(1)])]]
            return ops
        p = r.randrange(2)
        alt = r.random() < 0.4
        e = self.quantified(q)
        tys = [s for s in subterms(e) if s[0] in ("exists", "forall")]
        t0 = r.choice(tys)[1][0][1][1]
        ty_new = self.related_type(t0)
        mut = self.new_object(p, ty_new)
        if _is_sub(ty_new, t0) and r.random() < (0.3 if kind == "qrm" else 0.8):
            # a conjunct whose VALUE changes when the object is added: "some object of type t0 is the new one"
            q.fresh += 1
            var = ["v", f"q{q.fresh}", ["user", t0]]
            sens = ["exists", [var[1:]], ["eq", var, ["o", mut[3], ty_new]]]
            e = [r.choice(["iff", "iff", "and", "or"]), e, sens]
        ops = [self.ctx_call(kind, p, e)]
        if alt:
            ops.append(self.ctx_call(kind, 1 - p, e))
        ops.append(mut)
        j = r.random()
        if j < 0.2:
            ops.append(self.new_fluent(p))
        elif j < 0.4:
            ops.append(self.new_object(1 - p, self.related_type(t0)))
        elif j < 0.5:
            ops.append(self.new_object(p, t0))
        e2 = e if r.random() < 0.6 else self.quantified(q, t0)      # the same request, or another one over the same type
        ops.append(self.ctx_call(kind, p, e2))
        if alt:
            ops.append(self.ctx_call(kind, 1 - p, e2 if r.random() < 0.5 else e))
        if r.random() < 0.3:
            ops.append(self.ctx_call(kind, p, e))
        return ops

    def history(self):
        r = self.rng
        pool = [self.fresh_bool(r.choice([1, 2, 2, 3])) for _ in range(r.randint(4, 7))]
        # the problems of the environment: problem 0 has the signature's objects, problem 1 a random part of them
        world0 = [[tuple(o) for o in ExprGen.OBJECTS], [tuple(o) for o in ExprGen.OBJECTS if r.random() < 0.5]]
        self.world_now = [list(w) for w in world0]
        self.n_obj = self.n_fl = 0
        plan = self.ctx_scenario() if r.random() < 0.6 else []

        def pick():
            k = r.random()
            if k < 0.5:
                return r.choice(pool)
            if k < 0.7:
                a, b = r.choice(pool), r.choice(pool)
                return [r.choice(["and", "or", "iff", "implies"]), a, b]
            if k < 0.85:
                return r.choice([s for s in subterms(r.choice(pool))])
            return ["not", r.choice(pool)]

        def pick_bool():
            for _ in range(10):
                e = pick()
                if builds(["and", e, ["b", "T"]]):
                    return e
            return r.choice(pool)

        planted_pool = []
        keep_bad = []
        if r.random() < 0.6:
            keep_bad = [r.choice(subterms(r.choice(pool)))]
        keep_salt = r.randint(0, 50)
        calls, ill, repeat = [], [], []
        while len(calls) < self.n or plan:
            if plan and (r.random() < 0.45 or len(calls) >= self.n):
                calls.append(plan.pop(0))        # the context scenario, in order, interleaved with everything else
                continue
            if repeat and r.random() < 0.5:      # the same (possibly ill-typed) request once more
                calls.append(["other", "mk", repeat.pop()])
                continue
            k = r.random() * 1.12
            if k < 0.30:      # substitution that succeeds (unless the map is incompatible)
                e = r.choice(planted_pool) if planted_pool and r.random() < 0.35 else pick_bool()
                ps = self.pairs(e, r.randint(1, 3), incompatible=r.random() < 0.12)
                if ps:
                    calls.append(["subst", e, ps])
            elif k < 0.42:    # substitution that fails mid-walk
                if planted_pool and r.random() < 0.4:
                    e = r.choice(planted_pool)
                else:
                    e = self.plant(pick_bool())
                    if not builds(e):
                        continue
                    planted_pool.append(e)
                calls.append(["subst", e, self.pairs(e, r.randint(1, 3), fail=True)])
            elif k < 0.50:
                calls.append(["fv", r.choice(subterms(pick_bool()))])
            elif k < 0.57:
                calls.append(["fl", pick_bool()])
            elif k < 0.68:
                e = r.choice(planted_pool) if planted_pool and r.random() < 0.2 else pick_bool()
                bad = [r.choice(subterms(e))] if r.random() < 0.4 else []
                calls.append(["pinv", str(r.randint(0, 50)), bad, e])
            elif k < 0.76:
                calls.append(["pkeep", pick_bool()])
            elif k < 0.82:
                j = r.random()
                if j < 0.35:     # interpreted function without a table entry
                    arg = r.choice(["9", "7", "1", "2"])
                    e = ["and", pick_bool(), ["le", ["ifun", ["g", INT, [INT]], ["i", arg]], ["i", "3"]]]
                elif j < 0.55:   # 0*x / 0 : constructible, the simplifier divides by zero
                    e = ["and", ["le", ["div", ["times", ["fl", ["x", INT, []]], ["i", "0"]], ["i", "0"]], ["i", "1"]], pick_bool()]
                else:
                    e = self.fresh_bool(2, self.gi, keep_div=True) if r.random() < 0.5 else pick_bool()
                calls.append(["other", "simplify", e])
            elif k < 0.87:
                e = r.choice(planted_pool) if planted_pool and r.random() < 0.5 else pick_bool()
                calls.append(["other", "subsimp", e, self.pairs(e, r.randint(1, 2), fail=(DZ in subterms(e) and r.random() < 0.5))])
            elif k < 0.90:
                calls.append(["other", "type", r.choice(subterms(pick_bool()))])
            elif k < 0.94:
                if ill and r.random() < 0.5:
                    calls.append(["other", "mk", r.choice(ill)])    # the same ill-typed request again
                else:
                    e = r.choice([["eq", ["i", "5"], ["o", "t1", "T"]], ["eq", ["o", "t1", "T"], ["o", "u1", "U"]],
                                  ["and", ["fl", ["x", INT, []]], pick_bool()], ["div", ["i", "3"], ["i", "0"]],
                                  ["le", pick_bool(), ["i", "1"]], ["not", ["i", "2"]],
                                  ["plus", ["fl", ["b0", "bool", []]], ["i", "1"]], ["eq", pick_bool(), ["b", "T"]],
                                  ["iff", pick_bool(), pick_bool()], ["le", ["fl", ["x", INT, []]], ["i", "1"]]])
                    ill.append(e)
                    calls.append(["other", "mk", e])
                    if r.random() < 0.5:
                        repeat.append(e)
            elif k < 0.98:
                q = ExprGen(r, big=False, quantifiers=True, params=False)
                for _ in range(10):
                    e = q.boolean(2) if r.random() < 0.7 else r.choice(pool)
                    if builds(e):
                        fls = [s for s in subterms(e) if s in GROUND_FLUENTS]
                        dropped = [r.choice(fls)] if fls and r.random() < 0.4 else []   # a missing fluent value
                        calls.append(["other", "eval", e, str(r.randint(0, 999)), dropped])
                        break
            elif k < 1.0:
                q = ExprGen(r, big=False, quantifiers=True, params=False)
                calls.append(["qrm", str(r.randrange(2)), self.quantified(q)])
            elif k < 1.03:    # the caller changes a problem at an arbitrary moment
                p = r.randrange(2)
                calls.append(self.new_object(p, r.choice(["T", "S", "U", "E"])) if r.random() < 0.8 else self.new_fluent(p))
            elif k < 1.05:
                q = ExprGen(r, big=False, quantifiers=True, params=False)
                calls.append(self.ctx_call(r.choice(["eval", "qsimp"]), r.randrange(2), self.quantified(q)))
            elif k < 1.07:
                calls.append(r.choice([["other", "fsub", pick_bool()], ["mut", "fmap", str(r.randrange(len(FMAP_PAIRS)))]]))
            else:             # extractors; the caller mutates what it got back, and asks again (the same or a bigger expression)
                j = r.random()
                if j < 0.45:
                    what, e = "names", pick_bool()
                elif j < 0.7:
                    what, e = "ops", pick_bool()
                elif j < 0.85:
                    what, e = "ifuns", (self.fresh_bool(2, self.gi, keep_div=True) if r.random() < 0.6 else pick_bool())
                else:
                    nums = [s for s in subterms(pick_bool()) if s[0] in ("plus", "minus", "times", "fl", "i")
                            and (s[0] != "fl" or s[1][1] != "bool")]
                    what, e = "lin", (r.choice(nums) if nums else ["fl", ["x", INT, []]])
                calls.append(["other", what, e])
                if r.random() < 0.7:
                    e2 = e if what == "lin" or r.random() < 0.5 else [r.choice(["and", "or"]), e, pick_bool()]
                    plan.append(["other", what, e2])
        # which rebuilt nodes does the manager refuse?  candidates: every planted site with its
        # divisor (and possibly its dividend) replaced as some map of the history would
        cands = []
        for c in calls:
            ps = c[2] if c[0] == "subst" else c[3] if c[:2] == ["other", "subsimp"] else None
            if ps is None:
                continue
            m = {sexp.dumps(k): v for k, v, _ in ps}
            if sexp.dumps(DZ) not in m:
                continue
            for kk in self.planted:
                n = ["div", m.get(sexp.dumps(kk), kk), m[sexp.dumps(DZ)]]
                if n not in cands:
                    cands.append(n)
        reject = [n for n in cands if not builds(n)]
        return ["hist", ["reject"] + reject, ["keep", str(keep_salt), keep_bad], ["calls"] + calls, world_sexp(world0)]


def cases(rng, tier):
    n_hist, n_calls = (200, 10) if tier == "quick" else (600, 40)
    for _ in range(n_hist):
        yield HistGen(rng, n_calls).history()


EXTRA_PROPS = ["UPVerif.Props.C14Ctx"]

MANIFEST = {
    "level_text": ("Lean 4 theorems (Props/C14.lean) about an executable model of dag.py's stack-and-cache machine with the "
                   "repaired walk(): for EVERY node function (may raise), both cache policies, every expression and every history "
                   "of calls, a call on a clean walker returns the value of the plain structural recursion (raises iff it raises, "
                   "never a KeyError, 2*size pops suffice) and leaves the walker clean — also when it raised; hence any history "
                   "answers call by call like fresh walkers. Instantiated for Substituter, FreeVarsOracle, FreeVarsExtractor of one "
                   "environment (interleaved calls) and for create_node's register-after-type-check order; the code as found is "
                   "refuted on kernel-checked witnesses. Props/C14Ctx.lean extends the statement to calls whose arguments are "
                   "references to MUTABLE objects (entry method + instance fields + a world mutated between calls): every call is "
                   "answered from the expression and the world at that moment, like a brand-new instance, provided the entry method "
                   "re-derives what the node functions read (`Resets`); proved for ExpressionQuantifiersRemover over two problems "
                   "whose objects grow, together with the shared walkers of the environment; refuted for a per-instance objects "
                   "table kept while the same problem is passed and for a kept cache that reads the context. Model and code are tied "
                   "by differential runs of random histories (calls and caller mutations) on one real Environment (answers and walker "
                   "state); every call is compared with the same call on a fresh Environment in which only the mutations were "
                   "replayed, and with a brand-new walker instance on the same live arguments."),
    "level_note": ("Trusted: Lean kernel; axioms propext, Classical.choice, Quot.sound; Driver.lean + correspondence harness. "
                   "Simplifier/TypeChecker/QuantifierSimplifier/StateEvaluator/extractor node functions are not modelled (generic "
                   "theorems + the two oracles); which constructions are ill-typed is measured, not modelled (C15)."),
    "technique": "Lean 4 proof of a state-machine invariant + refinement to the pure recursion; model/code correspondence on histories",
    "design_ref": "DESIGN.md §5 C14",
}
