"""C23 — The model only stores type-correct values."""
import warnings
from collections import OrderedDict

warnings.simplefilter("ignore")
from unified_planning.model import InstantaneousAction
from unified_planning.plans import ActionInstance

import buildlib as bl
import sexp

ID = "C23"
GEN = []
CORR_NAME = "accepted-or-rejected-class-and-stored-values-of-every-building-call"
RULE = ("`hist` cases: Problem(initial_defaults) (per-type defaults valid, ill-typed or non-constant), the calls building "
        "a generated problem, then 24 (quick) / 100 (thorough) random building calls of which ~55% are malformed: values of "
        "every type for Boolean / bounded int / bounded real / user-typed fluents (wrong kind, out of the bounds, "
        "unrelated user type, non-constant), default initial values per fluent and per type, arity errors, non-constant "
        "fluent arguments, increase on non-numeric fluents, conflicting effects, unbound variables. `inst` cases: "
        "ActionInstance(action, actual parameters) with constants of every type and non-constants for Boolean, bounded "
        "int and user-typed parameters. Compared: error class of every call, full dump of the stored state (values, "
        "defaults, effects, conflict bookkeeping), invariant flag. Non-trivial = some call is rejected with a type error "
        "and some value-storing call (initial value, default, effect) is accepted, or an inst case with >= 1 parameter.")
ASSUMPTIONS = [
    "'type-compatible' is the library's is_compatible_type: subtype for user types, OVERLAP (not inclusion) of the "
    "intervals for numeric types, int accepted where real is expected",
    "the type of a value is what the type checker says (FNode.type, property C15): supplied to the model per case",
    "divisors inside generated expressions are non-zero constants (Problem.kind — evaluated by `==` — replaces static "
    "fluents by their initial values and raises ZeroDivisionError on e.g. the metric x/x with x initially 0)",
    "expressions handed to the API are well-typed in themselves; arity errors only at the top-level fluent",
    "'rejected calls leave the model unchanged' is claimed for every error class except the UPProblemDefinitionError "
    "that add_fluent/add_object/add_action raise from _add_user_type AFTER appending (a name clash between a new user "
    "type and an existing element: not a type-incompatibility rejection; Props/C23 name_clash_leaves_partial_update)",
    "MultiAgentProblem.set_initial_value (its own implementation, not among the property's anchors) is not exercised",
]
MODELLED = ["modelled by hand (tied by correspondence): add_fluent/_check_default_initial_value, FluentsSetMixin.__init__, "
            "set_initial_value, add_effect/add_increase_effect/add_decrease_effect (action and timed), Effect.__init__, "
            "ActionInstance.__init__, is_compatible_type",
            "parameters of the model supplied per case by the real code: FNode.type for non-leaf expressions (C15), "
            "FNode.simplify for trajectory constraints (C11)"]
BUDGET_S = {"quick": 60, "thorough": 600}

U = bl.U
PARAM_TYPES = ["bool", ["int", "0", "3"], ["int", "_", "_"], ["real", "0", "5/2"], U("T"), U("S"), U("U")]


def inst_case(rng):
    g = bl.HistGen(rng)
    g.pg = bl.upp.ProblemGen(rng)
    g.objects = {"t1": "T", "s1": "S", "s2": "S", "u1": "U"}
    n = rng.choice([0, 1, 1, 2, 3])
    params = [[f"p{i}", rng.choice(PARAM_TYPES)] for i in range(n)]
    args = []
    for _, t in params:
        k = rng.random()
        if k < 0.6:
            a = g.const_of(t)
        elif k < 0.85:
            a = g.wrong_const(t)
        else:
            a = g.nonconst_of(t) or g.wrong_const(t)
        args.append(a)
    k = rng.random()
    if k < 0.06 and args:
        args = args[:-1]
    elif k < 0.1:
        args = args + [["i", "1"]]
    ctx = bl.Ctx([(n_, None if f == "_" else f) for n_, f in bl.HistGen.TYPES])
    tytab, simp = bl.tables(ctx, args, [])
    env = ["env", ["types"] + bl.HistGen.TYPES, ["eun", "T"], tytab, simp]
    return ["inst", env, params, args]


def cases(rng, tier):
    n_hist, n_post, n_inst = (60, 24, 150) if tier == "quick" else (300, 100, 3000)
    gen = bl.HistGen(rng, malformed=0.55, ctor_bad=0.1)
    for i in range(max(n_hist, n_inst)):
        if i < n_hist:
            yield gen.case(n_post, single_sided=0.0, reclone=0.02)
        if i < n_inst:
            yield inst_case(rng)


def run_inst(payload):
    _, env, params, args = payload
    ctx = bl.new_ctx(env)
    act = InstantaneousAction("a", OrderedDict((pn, ctx.ty(pt)) for pn, pt in params), ctx.env)
    try:
        ai = ActionInstance(act, tuple(ctx.expr(a) for a in args))
    except Exception as e:   # noqa: BLE001
        return None, bl.classify(e)
    return (act, ai), "ok"


def impl(payload):
    if payload[0] == "inst":
        return run_inst(payload)[1]
    return bl.run_real(payload)


def compare(model_ans, impl_ans):
    return bl.compare_hist(model_ans, impl_ans)


def _classes(ans):
    out = list(ans[0][1:])
    for part in ans:
        if isinstance(part, list) and part and part[0] == "post":
            out += [r[1] for r in part[1:] if r[0] in ("both", "left", "right")]
    return out


STORING = ("add-fluent", "set-init", "act-eff", "timed-eff")


def nontrivial(payload, ans):
    if payload[0] == "inst":
        return len(payload[2]) >= 1
    if not isinstance(ans, list) or ans[0] == "ctor-error":
        return False
    ops = payload[3][1:] + [it[1] for it in payload[4][1:] if len(it) > 1]
    cl = _classes(ans)
    stored = any(c == "ok" and op[0] in STORING for op, c in zip(ops, cl))
    return stored and "type" in cl


def stats(payload, ans):
    if payload[0] == "inst":
        return ["inst:" + str(ans)]
    if not isinstance(ans, list):
        return ["odd-answer"]
    if ans[0] == "ctor-error":
        return ["ctor-error:" + ans[1]]
    ops = payload[3][1:] + [it[1] for it in payload[4][1:] if len(it) > 1]
    return [f"{op[0]}:{c}" for op, c in zip(ops, _classes(ans))]


def oracle(payload):
    """The property on the real code: after every call everything the problem stores is type-compatible with its
    target and every stored initial value is a constant; a call rejected with a type error changed nothing."""
    if payload[0] == "inst":
        made, cls = run_inst(payload)
        if made is None:
            return None
        act, ai = made
        for p, v in zip(act.parameters, ai.actual_parameters):
            if not bl.indep_compatible(p.type, v.type):
                return f"ActionInstance stores {v} of type {v.type} for parameter {p}"
            if not v.is_constant():
                return f"ActionInstance stores the non-constant {v} for parameter {p}"
        return None
    env, new, pre, post = bl.case_parts(payload)
    ctx = bl.new_ctx(env)
    try:
        P = bl.new_problem(ctx, new)
    except Exception:   # noqa: BLE001
        return None
    why = bl.type_violation(P)
    if why:
        return "Problem(initial_defaults=...): " + why
    ops = list(pre) + [it[1] for it in post if len(it) > 1 and it[0] in ("both", "left")]
    for i, op in enumerate(ops):
        before = bl.dump_problem(P)
        cls = bl.apply_op(ctx, P, op)
        why = bl.type_violation(P)
        if why:
            return f"call {i} {op[0]} ({cls}): {why}"
        if cls == "type" and bl.dump_problem(P) != before:
            return f"call {i} {op[0]} was rejected with a type error but changed the problem"
    return None


def shrink(payload):
    if payload[0] == "inst":
        _, env, params, args = payload
        if len(params) == len(args):
            for i in range(len(params)):
                yield ["inst", env, params[:i] + params[i + 1:], args[:i] + args[i + 1:]]
    else:
        yield from bl.shrink_hist(payload)


MANIFEST = {
    "level_text": ("Lean 4 theorems (Props/C23.lean) about the executable model of the Problem-building API (Core/Build.lean): "
                   "the invariant 'every explicit initial value, per-fluent default, per-type default is a constant compatible "
                   "with its fluent/type and every effect value is compatible with its fluent' holds for a new problem and is "
                   "preserved by every building call, hence after every history; incompatible / non-constant values are "
                   "rejected with a type error; every rejection except the name-clash error of _add_user_type leaves the "
                   "problem unchanged; ActionInstance stores only compatible constants. The model is tied to the (repaired) "
                   "code by a differential check on histories with ~55% malformed calls and by the property's oracle on the "
                   "real objects."),
    "level_note": ("Trusted: Lean kernel; axioms propext, Classical.choice, Quot.sound; harness. The type checker is a parameter "
                   "of the model (FNode.type supplied per case). is_compatible_type is overlap, not inclusion."),
    "technique": "Lean 4 proof (invariant preservation) + model/code correspondence on histories",
    "design_ref": "DESIGN.md §5 C23",
}
