"""C16 — Expressions are hash-consed and constructors normalise as documented."""
import operator
import warnings
from fractions import Fraction

warnings.simplefilter("ignore")
import unified_planning as up
import unified_planning.model
from unified_planning.environment import Environment
from unified_planning.exceptions import UPExpressionDefinitionError, UPTypeError, UPValueError
from unified_planning.model.operators import OperatorKind as OK

ID = "C16"
GEN = []
CORR_NAME = "construction-history"
RULE = ("histories of well-typed constructions (And/Or/XOr/Not/Implies/Iff/Exists/Forall/trajectory operators/"
        "Plus/Minus/Times/Div/LE/GE/LT/GT/Equals/FluentExp/ParameterExp/VariableExp/ObjectExp/Bool/Int/Real) in ONE fresh "
        "environment; arguments are results of earlier steps, Python literals (bool, int, Fraction, float, numeric str) or "
        "Fluent/Parameter/Variable/Object objects (two equal-but-distinct Python copies of each); EVERY step carries the PATH by "
        "which it is built, drawn from the rng among all public spellings of that construction: the ExpressionManager method, the "
        "unified_planning.shortcuts function, the Python infix/prefix operator (~ & | ^ + - * / // < <= > >= with the up object on "
        "either side, i.e. forward and reflected methods, and the mirrored comparison l <= r / r >= l), the dunder or named method "
        "of the receiver called by name (FNode, Fluent, Parameter, Variable: __add__ __radd__ ... And Or Not Xor Implies Iff "
        "Equals; Object.Equals), Fluent.__call__; ~30% of the steps repeat an earlier construction (re-spelled at random) or "
        "reach it through its documented normal form (GE a b / LE b a, Not(Not x) with both negations on random paths, And(x), "
        "Plus(), 2 / 2.0 / '4/2' / Fraction(4,2) ...); ~4% raise a documented error (arity, no quantified variable, non-numeric "
        "string, Int of a bool). A history is non-trivial if some step returns a node that already existed AND some normalising "
        "constructor branch fired.")
ASSUMPTIONS = [
    "well-typed constructions only: create_node registers a node before type-checking it, so an ill-typed construction "
    "raises the first time and returns the memoised node the second time (DESIGN D-C14b, property C14/C15); not C16's statement",
    "FNode objects are created by ExpressionManager.create_node only and private attributes are not written by clients",
    "payload equality is Python == : Fluent/Parameter/Variable/Object compare name, type and signature, so equal-but-distinct "
    "objects denote the same expression",
    "numeric strings are restricted to [+-]?digits(/digits|.digits)? or clearly non-numeric text; floats are finite "
    "(float('inf') leaks OverflowError out of uniform_numeric_constant — reported, outside the property)",
    "Int(True)/Int(False) are rejected with UPTypeError (repaired code, notes/patches/C16-int-rejects-bool.patch): as found, "
    "Int(True) was memoized with the payload True under the key of Int(1) and every later literal 1 printed as 'True'",
    "Dot, TimingExp, PresentExp, InterpretedFunctionExp and EqualsOrIff are not modelled",
    "the infix helpers without documentation are read from their code: -x is Minus(0, x), +x is Plus(0, x), and x.Xor(*ys) / "
    "x ^ y is And(Or(x, *ys), Not(And(x, *ys))) built with the normalising constructors -- NOT the expression of "
    "ExpressionManager.XOr (for three or more operands the two even differ in meaning: 'not all equal' vs 'exactly one'); "
    "the property does not name XOr, so identity between the two is not demanded (reported)",
    "l ^ r with a Python bool on the left (__rxor__) follows the repaired code (notes/patches/C16-rxor-star-other.patch): as "
    "found, `True ^ x` raised TypeError because __rxor__(self, other) unpacks `*other`",
    "a list operand is only used on the right of a forward operator / as an argument of a named method (CPython's sequence "
    "protocol for `[x] + a` is not modelled)",
    "constants beyond float range are kept away from unbounded operands and from Div (the type checker's float bounds "
    "arithmetic raises OverflowError there, DESIGN D-C15c)",
]
MODELLED = ["modelled by hand (tied by correspondence): ExpressionManager.create_node/auto_promote/constructors, "
            "uniform_numeric_constant, FNodeContent equality, the infix tables of FNode/Fluent/Parameter/Variable/Object, "
            "Fluent.__call__, the expression helpers of unified_planning.shortcuts; modelled not verified: CPython dict/tuple/"
            "namedtuple hashing and equality, fractions.Fraction parsing and normalisation, float.as_integer_ratio, object "
            "identity, CPython's forward/reflected dispatch of binary operators (bool/int/float/Fraction/str return "
            "NotImplemented for a foreign right operand)"]
EXTRA_PROPS = ["UPVerif.Props.C16Paths"]
BUDGET_S = {"quick": 40, "thorough": 400}

# --------------------------------------------------------------------------------------------------
# symbol pool (re-created in every fresh environment)
# --------------------------------------------------------------------------------------------------
# key -> (name, type tag, signature type tags)
FLUENTS = {
    "b0": ("b0", "bool", ()), "b1": ("b1", "bool", ("Loc",)), "b2": ("b2", "bool", ("Loc", "Loc")),
    "n0": ("n0", "int", ()), "nb": ("nb", "int010", ()), "n1": ("n1", "int010", ("Loc",)),
    "r0": ("r0", "real", ()), "rb": ("rb", "real010", ()), "at": ("at", "Loc", ()),
    "x@bool": ("x", "bool", ()), "x@int": ("x", "int010", ()),
}
PARAMS = {"pl": ("pl", "Loc"), "pb": ("pb", "bool"), "pi": ("pi", "int010"), "x@P": ("x", "Loc")}
VARS = {"vl": ("vl", "Loc"), "vm": ("vm", "Loc"), "vr": ("vr", "Robot"), "vb": ("vb", "bool"), "vi": ("vi", "int010")}
QVARS = ["vl", "vm", "vr"]          # the variables quantified over by Exists / Forall
OBJS = {"o1": ("o1", "Loc"), "o2": ("o2", "Loc"), "o3": ("o3", "Loc"), "rob": ("rob", "Robot")}
# result type of a symbol expression as tracked by the generator: (base, unbounded?)
BASE = {"bool": "bool", "int": "int", "int010": "int", "real": "real", "real010": "real", "Loc": "Loc", "Robot": "Robot"}
UNB = {"int": True, "real": True}


class Pool:
    def __init__(self):
        self.env = Environment()
        self.em = self.env.expression_manager
        tm = self.env.type_manager
        self.ty = {"bool": tm.BoolType(), "int": tm.IntType(), "int010": tm.IntType(0, 10), "real": tm.RealType(),
                   "real010": tm.RealType(Fraction(0), Fraction(10)), "Loc": tm.UserType("Loc"), "Robot": tm.UserType("Robot")}
        self.obj = {}
        self.key_of = {}
        for copy in (0, 1):
            for k, (name, t, sig) in FLUENTS.items():
                kw = {f"a{i}": self.ty[s] for i, s in enumerate(sig)}
                f = up.model.Fluent(name, self.ty[t], environment=self.env, **kw)
                self.obj[("F", k, copy)] = f
                self.key_of[("F", name, t, sig)] = k
            for k, (name, t) in PARAMS.items():
                self.obj[("P", k, copy)] = up.model.Parameter(name, self.ty[t], self.env)
                self.key_of[("P", name, t)] = k
            for k, (name, t) in VARS.items():
                self.obj[("V", k, copy)] = up.model.Variable(name, self.ty[t], self.env)
                self.key_of[("V", name, t)] = k
            for k, (name, t) in OBJS.items():
                self.obj[("O", k, copy)] = up.model.Object(name, self.ty[t], self.env)
                self.key_of[("O", name, t)] = k
        self.tag_of_type = {v: k for k, v in self.ty.items()}

    def key(self, o):
        """the key of a payload object, from its observable attributes only"""
        tt = lambda t: self.tag_of_type.get(t, "?" + str(t))
        if isinstance(o, up.model.Fluent):
            return self.key_of.get(("F", o.name, tt(o.type), tuple(tt(p.type) for p in o.signature)), "?F:" + o.name)
        if isinstance(o, up.model.Parameter):
            return self.key_of.get(("P", o.name, tt(o.type)), "?P:" + o.name)
        if isinstance(o, up.model.Variable):
            return self.key_of.get(("V", o.name, tt(o.type)), "?V:" + o.name)
        if isinstance(o, up.model.Object):
            return self.key_of.get(("O", o.name, tt(o.type)), "?O:" + o.name)
        return "?" + type(o).__name__


# --------------------------------------------------------------------------------------------------
# running a history on the real code
# --------------------------------------------------------------------------------------------------

def py_arg(pool, results, a):
    t = a[0]
    if t == "r":
        r = results[int(a[1])]
        if not isinstance(r, up.model.FNode):
            raise RuntimeError("case refers to a failed step")
        return r
    if t == "b":
        return a[1] == "T"
    if t == "i":
        return int(a[1])
    if t == "q":
        return Fraction(int(a[1]), int(a[2]))
    if t == "f":
        v = int(a[1]) / int(a[2])
        assert v.as_integer_ratio() == (int(a[1]), int(a[2])), "float literal not representable"
        return v
    if t == "s":
        return a[1]
    if t == "F":
        return pool.obj[("F", a[1], int(a[3]))]
    if t in ("P", "V", "O"):
        return pool.obj[(t, a[1], int(a[2]))]
    raise RuntimeError("bad arg " + repr(a))


def py_parg(pool, results, p):
    if p and p[0] == "L":
        return [py_arg(pool, results, a) for a in p[1:]]
    return py_arg(pool, results, p)


def ctor_call(target, pool, results, cmd):
    """one constructor call; `target` is the real ExpressionManager or the unified_planning.shortcuts module"""
    name = cmd[0]
    if name == "TRUE":
        return target.TRUE()
    if name == "FALSE":
        return target.FALSE()
    if name == "Bool":
        return target.Bool(cmd[1] == "T")
    if name == "Int":
        return target.Int(int(cmd[1]))
    if name == "IntOfBool":
        return target.Int(cmd[1] == "T")
    if name == "Real":
        return target.Real(Fraction(int(cmd[1]), int(cmd[2])))
    if name == "ParameterExp":
        return target.ParameterExp(pool.obj[("P", cmd[1], int(cmd[2]))])
    if name == "VariableExp":
        return target.VariableExp(pool.obj[("V", cmd[1], int(cmd[2]))])
    if name == "ObjectExp":
        return target.ObjectExp(pool.obj[("O", cmd[1], int(cmd[2]))])
    if name == "FluentExp":
        return target.FluentExp(pool.obj[("F", cmd[1], int(cmd[3]))], py_parg(pool, results, cmd[4]))
    if name in ("Exists", "Forall"):
        vs = [pool.obj[("V", v[0], int(v[1]))] for v in cmd[1]]
        return getattr(target, name)(py_parg(pool, results, cmd[2]), *vs)
    if name not in CTOR_NAMES:
        raise RuntimeError("bad command " + repr(cmd))
    return getattr(target, name)(*[py_parg(pool, results, p) for p in cmd[1:]])


CTOR_NAMES = {"And", "Or", "XOr", "Not", "Implies", "Iff", "Always", "Sometime", "AtMostOnce", "SometimeBefore",
              "SometimeAfter", "Plus", "Minus", "Times", "Div", "LE", "GE", "LT", "GT", "Equals"}
INFIX = {"add": operator.add, "sub": operator.sub, "mul": operator.mul, "truediv": operator.truediv,
         "floordiv": operator.floordiv, "lt": operator.lt, "le": operator.le, "gt": operator.gt, "ge": operator.ge,
         "and": operator.and_, "or": operator.or_, "xor": operator.xor}          # operator.add(l, r) IS `l + r`
UNARY = {"invert": operator.invert, "neg": operator.neg, "pos": operator.pos}
METHODS = {"__add__", "__radd__", "__sub__", "__rsub__", "__mul__", "__rmul__", "__truediv__", "__rtruediv__",
           "__floordiv__", "__rfloordiv__", "__gt__", "__ge__", "__lt__", "__le__", "__pos__", "__neg__", "Equals",
           "And", "__and__", "__rand__", "Or", "__or__", "__ror__", "Not", "__invert__", "Xor", "__xor__", "__rxor__",
           "Implies", "Iff"}


def call(pool, results, cmd):
    """one construction on the real code, by the path the command names"""
    name = cmd[0]
    if name == "sc":                 # unified_planning.shortcuts.<Ctor>: works on the GLOBAL environment
        import unified_planning.environment as E
        import unified_planning.shortcuts as S
        saved = E.GLOBAL_ENVIRONMENT
        E.GLOBAL_ENVIRONMENT = pool.env
        try:
            return ctor_call(S, pool, results, cmd[1])
        finally:
            E.GLOBAL_ENVIRONMENT = saved
    if name == "op":                 # the Python operator itself, CPython chooses forward / reflected method
        return INFIX[cmd[1]](py_parg(pool, results, cmd[2]), py_parg(pool, results, cmd[3]))
    if name == "un":
        return UNARY[cmd[1]](py_parg(pool, results, cmd[2]))
    if name == "m":                  # a method of the receiver called by name
        if cmd[1] not in METHODS:
            raise RuntimeError("bad method " + repr(cmd))
        return getattr(py_arg(pool, results, cmd[2]), cmd[1])(*[py_parg(pool, results, p) for p in cmd[3:]])
    if name == "call":               # Fluent.__call__
        return pool.obj[("F", cmd[1], int(cmd[3]))](*[py_arg(pool, results, a) for a in cmd[4:]])
    return ctor_call(pool.em, pool, results, cmd)


def err_code(e):
    if isinstance(e, UPExpressionDefinitionError):
        return "arity" if "arity" in str(e) else "usage"
    if isinstance(e, UPValueError):
        return "value"
    if isinstance(e, ZeroDivisionError):
        return "zero-div"
    if isinstance(e, UPTypeError):
        return "type"
    return "other:" + type(e).__name__      # TypeError / AttributeError out of a public path: never a documented error


LIB_ERRORS = (UPExpressionDefinitionError, UPValueError, ZeroDivisionError, UPTypeError, OverflowError, AssertionError,
              TypeError, AttributeError)


def payload_out(pool, n):
    p, t = n._content.payload, n.node_type
    if t == OK.BOOL_CONSTANT:
        return ["bool", "T" if p else "F"] if type(p) is bool else ["odd", repr(p)]
    if t == OK.INT_CONSTANT:
        return ["int", str(p)] if type(p) is int else ["odd", repr(p)]
    if t == OK.REAL_CONSTANT:
        return ["real", str(p.numerator), str(p.denominator)] if type(p) is Fraction else ["odd", repr(p)]
    if t in (OK.FLUENT_EXP, OK.PARAM_EXP, OK.VARIABLE_EXP, OK.OBJECT_EXP):
        return ["sym", pool.key(p)]
    if t in (OK.EXISTS, OK.FORALL):
        return ["vars"] + [pool.key(v) for v in p]
    return "none" if p is None else ["odd", repr(p)]


def run_history(payload):
    """returns (pool, results, snapshots): snapshots[i] = raw reading of the node returned by step i, taken at once"""
    pool = Pool()
    results, snaps = [], []
    for cmd in payload[1:]:
        try:
            r = call(pool, results, cmd)
        except LIB_ERRORS as e:
            r = ("err", err_code(e))
        results.append(r)
        if isinstance(r, up.model.FNode):
            snaps.append((r.node_id, r.node_type.name, [a.node_id for a in r.args], payload_out(pool, r)))
        else:
            snaps.append(None)
    return pool, results, snaps


def impl(payload):
    pool, results, snaps = run_history(payload)
    nodes = sorted(pool.em.expressions.values(), key=lambda n: n.node_id)
    ids = sorted(n.node_id for n in nodes)
    import bisect
    rank = lambda i: str(bisect.bisect_left(ids, i))      # number of nodes with a smaller node_id
    steps = []
    for r, s in zip(results, snaps):
        if s is None:
            steps.append(["err", r[1]])
        else:
            steps.append(["ok", rank(s[0]), s[1], [rank(a) for a in s[2]], s[3]])
    dump = [[n.node_type.name, [rank(a.node_id) for a in n.args], payload_out(pool, n)] for n in nodes]
    return [["steps"] + steps, ["nodes"] + dump, ["count", str(len(pool.em.expressions))]]


# --------------------------------------------------------------------------------------------------
# the property itself, on the real code
# --------------------------------------------------------------------------------------------------

def struct(pool, n, memo):
    """the expression a node denotes, as a nested tuple (operator, payload, children)"""
    k = id(n)
    if k not in memo:
        p = n._content.payload
        t = n.node_type
        if t in (OK.FLUENT_EXP, OK.PARAM_EXP, OK.VARIABLE_EXP, OK.OBJECT_EXP):
            pk = ("sym", pool.key(p))
        elif t in (OK.EXISTS, OK.FORALL):
            pk = ("vars",) + tuple(pool.key(v) for v in p)
        else:
            pk = (type(p).__name__, p)          # int 1, bool True and Fraction(1) are different payloads
        memo[k] = (t.name, pk, tuple(struct(pool, a, memo) for a in n.args))
    return memo[k]


def lit_tree(a):
    """documented canonical constant of a numeric literal: Int if the value is integral, else Real"""
    t = a[0]
    if t == "i":
        v = Fraction(int(a[1]))
    elif t in ("q", "f"):
        v = Fraction(int(a[1]), int(a[2]))
    else:
        v = Fraction(a[1])      # may raise ValueError / ZeroDivisionError: then the step must fail too
    if v.denominator == 1:
        return ("INT_CONSTANT", ("int", int(v)), ())
    return ("REAL_CONSTANT", ("Fraction", v), ())


BOOLT = lambda b: ("BOOL_CONSTANT", ("bool", b), ())
SYM_OP = {"F": "FLUENT_EXP", "P": "PARAM_EXP", "V": "VARIABLE_EXP", "O": "OBJECT_EXP"}


def arg_trees(pool, results, memo, pargs):
    out = []
    for p in pargs:
        for a in (p[1:] if p and p[0] == "L" else [p]):
            t = a[0]
            if t == "r":
                out.append(struct(pool, results[int(a[1])], memo))
            elif t == "b":
                out.append(BOOLT(a[1] == "T"))
            elif t in ("i", "q", "f", "s"):
                out.append(lit_tree(a))
            else:
                out.append((SYM_OP[t], ("sym", a[1]), ()))
    return out


def spec_not(x):
    return x[2][0] if x[0] == "NOT" else ("NOT", ("NoneType", None), (x,))


def spec_nary(op, unit, xs):
    if len(xs) == 0:
        return unit
    if len(xs) == 1:
        return xs[0]
    return (op, ("NoneType", None), tuple(xs))


NONE = ("NoneType", None)
PLAIN = {"Implies": "IMPLIES", "Iff": "IFF", "Minus": "MINUS", "Div": "DIV", "LE": "LE", "LT": "LT", "Equals": "EQUALS",
         "Always": "ALWAYS", "Sometime": "SOMETIME", "AtMostOnce": "AT_MOST_ONCE",
         "SometimeBefore": "SOMETIME_BEFORE", "SometimeAfter": "SOMETIME_AFTER"}


INT0 = ("INT_CONSTANT", ("int", 0), ())


def spec_xor_infix(xs):
    """x.Xor(*ys) / x ^ y, as the code of the infix tables spells it: (x | ys...) & ~(x & ys...)"""
    return spec_nary("AND", BOOLT(True), [spec_nary("OR", BOOLT(False), xs), spec_not(spec_nary("AND", BOOLT(True), xs))])


def spec_operator(opn, l, r):
    """the expression `l <opn> r` denotes; l, r = lists of argument expressions (a list operand counts for its elements)"""
    xs = l + r
    if opn == "add":
        return spec_nary("PLUS", INT0, xs)
    if opn == "mul":
        return spec_nary("TIMES", ("INT_CONSTANT", ("int", 1), ()), xs)
    if opn == "and":
        return spec_nary("AND", BOOLT(True), xs)
    if opn == "or":
        return spec_nary("OR", BOOLT(False), xs)
    if opn == "xor":
        return spec_xor_infix(xs)
    a, b = xs                                   # the remaining operators are binary
    if opn == "sub":
        return ("MINUS", NONE, (a, b))
    if opn in ("truediv", "floordiv"):          # both spell the division
        return ("DIV", NONE, (a, b))
    if opn == "lt":
        return ("LT", NONE, (a, b))
    if opn == "le":
        return ("LE", NONE, (a, b))
    if opn == "gt":                             # documented: a > b is b < a
        return ("LT", NONE, (b, a))
    if opn == "ge":
        return ("LE", NONE, (b, a))
    raise RuntimeError("bad operator " + opn)


FORWARD = {"__add__": "add", "__sub__": "sub", "__mul__": "mul", "__truediv__": "truediv", "__floordiv__": "floordiv",
           "__lt__": "lt", "__le__": "le", "__gt__": "gt", "__ge__": "ge", "__and__": "and", "And": "and",
           "__or__": "or", "Or": "or", "__xor__": "xor", "Xor": "xor"}
REFLECTED = {"__radd__": "add", "__rsub__": "sub", "__rmul__": "mul", "__rtruediv__": "truediv",
             "__rfloordiv__": "floordiv", "__rand__": "and", "__ror__": "or", "__rxor__": "xor"}


def expected(pool, results, memo, cmd):
    """the expression the documentation promises for this construction, given the expressions of its arguments --
       whatever the path: x + y is Plus(x, y), ~x is Not(x), shortcuts.F is ExpressionManager.F, f(a) is FluentExp(f, [a])"""
    name = cmd[0]
    if name == "sc":
        return expected(pool, results, memo, cmd[1])
    if name == "op":
        return spec_operator(cmd[1], arg_trees(pool, results, memo, [cmd[2]]), arg_trees(pool, results, memo, [cmd[3]]))
    if name == "un":
        (x,) = arg_trees(pool, results, memo, [cmd[2]])
        if cmd[1] == "invert":
            return spec_not(x)
        return ("MINUS", NONE, (INT0, x)) if cmd[1] == "neg" else spec_nary("PLUS", INT0, [INT0, x])
    if name == "m":
        me = arg_trees(pool, results, memo, [cmd[2]])
        others = arg_trees(pool, results, memo, cmd[3:])
        f = cmd[1]
        if f in FORWARD:
            return spec_operator(FORWARD[f], me, others)
        if f in REFLECTED:
            return spec_operator(REFLECTED[f], others, me)
        if f in ("Not", "__invert__"):
            return spec_not(me[0])
        if f == "__neg__":
            return ("MINUS", NONE, (INT0, me[0]))
        if f == "__pos__":
            return spec_nary("PLUS", INT0, [INT0, me[0]])
        return ({"Equals": "EQUALS", "Implies": "IMPLIES", "Iff": "IFF"}[f], NONE, (me[0], others[0]))
    if name == "call":
        return ("FLUENT_EXP", ("sym", cmd[1]), tuple(arg_trees(pool, results, memo, cmd[4:])))
    if name in ("TRUE", "FALSE"):
        return BOOLT(name == "TRUE")
    if name == "Bool":
        return BOOLT(cmd[1] == "T")
    if name == "Int":
        return ("INT_CONSTANT", ("int", int(cmd[1])), ())
    if name == "IntOfBool":                  # a bool is no numeric literal: rejected, or else the canonical Int constant
        return ("INT_CONSTANT", ("int", int(cmd[1] == "T")), ())
    if name == "Real":                       # Real(Fraction) keeps a Fraction payload even when integral
        return ("REAL_CONSTANT", ("Fraction", Fraction(int(cmd[1]), int(cmd[2]))), ())
    if name in ("ParameterExp", "VariableExp", "ObjectExp"):
        return (SYM_OP[name[0]], ("sym", cmd[1]), ())
    if name == "FluentExp":
        return ("FLUENT_EXP", ("sym", cmd[1]), tuple(arg_trees(pool, results, memo, [cmd[4]])))
    if name in ("Exists", "Forall"):
        return (name.upper(), ("vars",) + tuple(v[0] for v in cmd[1]), tuple(arg_trees(pool, results, memo, [cmd[2]])))
    xs = arg_trees(pool, results, memo, cmd[1:])
    if name == "And":
        return spec_nary("AND", BOOLT(True), xs)
    if name == "Or":
        return spec_nary("OR", BOOLT(False), xs)
    if name == "Plus":
        return spec_nary("PLUS", ("INT_CONSTANT", ("int", 0), ()), xs)
    if name == "Times":
        return spec_nary("TIMES", ("INT_CONSTANT", ("int", 1), ()), xs)
    if name == "Not":
        return spec_not(xs[0])
    if name == "GE":
        return ("LE", NONE, (xs[1], xs[0]))
    if name == "GT":
        return ("LT", NONE, (xs[1], xs[0]))
    if name == "XOr":                        # "exclusive disjunction of terms in CNF form" as the docstring's code spells it
        if len(xs) < 2:
            return spec_nary("OR", BOOLT(False), xs)
        terms = []
        for i, a in enumerate(xs):
            terms.append(spec_nary("AND", BOOLT(True), [a] + [spec_not(o) for o in xs if o != a]))
        return spec_nary("OR", BOOLT(False), terms)
    return (PLAIN[name], NONE, tuple(xs))


def read_node(pool, n):
    return (n.node_id, n.node_type, tuple(id(a) for a in n.args), repr(n._content.payload), type(n._content.payload).__name__,
            hash(n))


def oracle(payload):
    pool = Pool()
    em = pool.em
    results, memo = [], {}
    first_read = {}          # id(node) -> (node, reading at first sight)

    def see_all():
        for n in list(em.expressions.values()):
            if id(n) not in first_read:
                first_read[id(n)] = (n, read_node(pool, n))
    see_all()
    for k, cmd in enumerate(payload[1:]):
        try:
            want = expected(pool, results, memo, cmd)
            want_err = None
        except (ValueError, ZeroDivisionError) as e:
            want, want_err = None, e
        try:
            r = call(pool, results, cmd)
        except (UPExpressionDefinitionError, UPValueError) as e:
            r = ("err", err_code(e))
        except ZeroDivisionError as e:
            if not isinstance(want_err, ZeroDivisionError):
                return None     # raised by the type checker's bounds arithmetic: outside the quantifier
            r = ("err", err_code(e))
        except UPTypeError as e:
            if base_name(cmd) != "IntOfBool":
                return None     # outside the quantifier (ill-typed construction): nothing is claimed
            r = ("err", "type")
        except (OverflowError, AssertionError) as e:
            return None
        except (TypeError, AttributeError) as e:
            return f"step {k}: the public construction path {path_name(cmd)} raised {type(e).__name__}: {e}"
        results.append(r)
        see_all()
        if isinstance(r, up.model.FNode):
            if want_err is not None:
                return f"step {k}: a non-numeric literal was accepted"
            if id(r) not in first_read:
                return f"step {k}: returned node is not registered in the environment's table"
            got = struct(pool, r, memo)
            if got != want:
                return (f"step {k}: {path_name(cmd)} did not build the documented expression: got {short(got)}, "
                        f"documented {short(want)}")
    # hash-consing over the whole table
    nodes = [n for n, _ in first_read.values()]
    # every node was made by a constructor that normalises double negation: none is Not(Not(x))
    for n in nodes:
        if n.node_type == OK.NOT and n.args[0].node_type == OK.NOT:
            return f"an un-normalised node Not(Not(x)) is registered in the environment: {short(struct(pool, n, memo))}"
    by_struct, by_id = {}, {}
    for n in nodes:
        s = struct(pool, n, memo)
        if s in by_struct and by_struct[s] is not n:
            return f"two distinct nodes denote the same expression {short(s)}"
        by_struct[s] = n
        if n.node_id in by_id and by_id[n.node_id] is not n:
            return f"two distinct nodes share node_id {n.node_id}"
        by_id[n.node_id] = n
    oks = [(k, r) for k, r in enumerate(results) if isinstance(r, up.model.FNode)]
    for i, (k1, r1) in enumerate(oks):
        for k2, r2 in oks[i + 1:]:
            same = struct(pool, r1, memo) == struct(pool, r2, memo)
            if same and r1 is not r2:
                return f"steps {k1} and {k2} built the same expression but returned different nodes"
            if not same and (r1 is r2 or r1.node_id == r2.node_id):
                return f"steps {k1} and {k2} built different expressions but returned the same node / id"
    # immutability
    for n, rd in first_read.values():
        if read_node(pool, n) != rd:
            return f"node {rd[0]} changed after creation"
    # building everything a second time yields the identical nodes and creates nothing
    size = len(em.expressions)
    for k, cmd in enumerate(payload[1:]):
        try:
            r = call(pool, results, cmd)
        except (UPExpressionDefinitionError, UPValueError, ZeroDivisionError) as e:
            r = ("err", err_code(e))
        except UPTypeError:
            if base_name(cmd) != "IntOfBool":
                return None
            r = ("err", "type")
        except (OverflowError, AssertionError):
            return None
        except (TypeError, AttributeError) as e:
            return f"step {k}: the public construction path {path_name(cmd)} raised {type(e).__name__}: {e}"
        first = results[k]
        if isinstance(first, up.model.FNode) != isinstance(r, up.model.FNode) or \
                (isinstance(r, up.model.FNode) and r is not first) or (not isinstance(r, up.model.FNode) and r != first):
            return f"step {k}: building the same expression a second time did not return the identical node"
    if len(em.expressions) != size:
        return "rebuilding existing expressions created new nodes"
    for n, rd in first_read.values():
        if read_node(pool, n) != rd:
            return f"node {rd[0]} changed after creation"
    return None


def base_name(cmd):
    return base_name(cmd[1]) if cmd[0] == "sc" else cmd[0]


def path_name(cmd):
    if cmd[0] == "sc":
        return "shortcuts." + cmd[1][0]
    if cmd[0] in ("op", "un"):
        return "operator " + cmd[1]
    if cmd[0] == "m":
        return {"r": "FNode", "F": "Fluent", "P": "Parameter", "V": "Variable", "O": "Object"}.get(cmd[2][0], "?") + "." + cmd[1]
    if cmd[0] == "call":
        return "Fluent.__call__"
    return "ExpressionManager." + cmd[0]


def short(t, depth=0):
    if depth > 3:
        return "..."
    p = t[1][1] if t[1][0] not in ("sym", "vars") else "/".join(map(str, t[1][1:]))
    return f"{t[0]}[{p}]" + ("(" + ",".join(short(c, depth + 1) for c in t[2]) + ")" if t[2] else "")


# --------------------------------------------------------------------------------------------------
# generator
# --------------------------------------------------------------------------------------------------
HUGE = 10 ** 400
INTS = [0, 1, -1, 2, 3, 7, 10, 2 ** 53 + 1, -(2 ** 53 + 1), 10 ** 30, HUGE, -HUGE + 1]
FRACS = [(1, 2), (-3, 4), (7, 3), (4, 2), (0, 5), (-9, 3), (10 ** 30, 7), (2 ** 53 + 1, 2), (HUGE + 1, 3), (1, HUGE)]
FLOATS = [0.5, 0.1, 2.0, -3.0, 1e22, 2.5e-05, 1e300, -0.0, 7.25]
NUMSTR = ["12", "-7", "+5", "007", "0.5", "-0.25", "3.0", "4/2", "1/3", "-6/4", "10.50", "2", "1", "0",
          "123456789012345678901234567890", "0.000", "+1/2"]
BADSTR = ["abc", "", "1.2.3", "--1", "1/0", "one", "1 2"]
# The type checker computes bounds with floats (math.isnan on exact bounds, true division, +-inf): beyond float range it
# raises OverflowError (DESIGN D-C15c).  The generator tracks `mag`, an upper bound of log2 of the absolute bounds of a
# numeric expression, and keeps every construction below MAXMAG where floats are involved.
MAXMAG = 900.0


def mag_of(v):
    return float(max(abs(v.numerator), abs(v.denominator)).bit_length())


def I(base, unb=False, mag=0.0, const=False):
    return dict(base=base, unb=unb, mag=mag, const=const)


BOOLI = I("bool")
BOOLC = I("bool", const=True)


class G:
    """generator state: for every step the tracked type of its result (None for a failing step):
       base in bool/int/real/Loc/Robot; unb = no bounds; mag = see above; const = built from constants only"""

    def __init__(self, rng, paths=True):
        self.rng = rng
        self.cmds = []          # what is executed: every construction with the path by which it is made
        self.forms = []         # the same constructions as ExpressionManager calls (what repeat() re-spells)
        self.ty = []
        self.paths = paths
        self.symsteps = []      # steps that returned the expression of a 0-ary fluent / a parameter / a variable

    def emit(self, cmd, info, spelled=None):
        """`cmd`: the construction as an ExpressionManager call; `spelled`: the path to take (default: drawn at random)"""
        self.forms.append(cmd)
        self.cmds.append(spelled if spelled is not None else (self.respell(cmd) if self.paths else cmd))
        self.ty.append(info)
        if info is not None and ((cmd[0] == "FluentExp" and cmd[2] == "0") or cmd[0] in ("ParameterExp", "VariableExp")):
            self.symsteps.append(len(self.cmds) - 1)

    # ---- construction paths ----
    def spellings_of(self, cmd):
        """every public spelling of the ExpressionManager call `cmd` (same arguments, same documented expression)"""
        name, args = cmd[0], cmd[1:]
        one = lambda a: a[0] != "L"                              # a single expression, not an iterable
        upo = lambda a: a[0] in ("r", "F", "P", "V")             # instance of a class carrying the infix table
        lit = lambda a: a[0] in ("b", "i", "q", "f", "s")        # Python constant: its class defers to the right operand
        out = [["sc", cmd]] if name != "IntOfBool" else []

        def binary(opn, fwd, rfl, l, r):
            if upo(l):
                out.append(["op", opn, l, r])                    # l.__op__(r)
                out.append(["m", fwd, l, r])
            if upo(r) and one(l) and rfl is not None:
                out.append(["m", rfl, r, l])                     # r.__rop__(l)
                if lit(l):
                    out.append(["op", opn, l, r])                # CPython falls back to r.__rop__(l)

        if name == "Not" and len(args) == 1 and upo(args[0]):
            out += [["un", "invert", args[0]], ["m", "Not", args[0]], ["m", "__invert__", args[0]]]
        elif name in ("And", "Or", "Plus", "Times") and args and upo(args[0]):
            named, opn = {"And": ("And", "and"), "Or": ("Or", "or"), "Plus": (None, "add"), "Times": (None, "mul")}[name]
            if named:
                out.append(["m", named] + args)                  # x.And(*others): any number, lists allowed
            if len(args) == 2:
                binary(opn, "__%s__" % opn, "__r%s__" % opn, args[0], args[1])
        elif name in ("And", "Or", "Plus", "Times") and len(args) == 2 and one(args[0]):
            opn = {"And": "and", "Or": "or", "Plus": "add", "Times": "mul"}[name]
            binary(opn, "__%s__" % opn, "__r%s__" % opn, args[0], args[1])
        elif name in ("Minus", "Div") and len(args) == 2 and one(args[0]) and one(args[1]):
            for opn in (["sub"] if name == "Minus" else ["truediv", "floordiv"]):
                binary(opn, "__%s__" % opn, "__r%s__" % opn, args[0], args[1])
        elif name in ("LE", "LT", "GE", "GT") and len(args) == 2 and one(args[0]) and one(args[1]):
            opn = name.lower()
            mir = {"le": "ge", "lt": "gt", "ge": "le", "gt": "lt"}[opn]
            binary(opn, "__%s__" % opn, "__%s__" % mir, args[0], args[1])       # l <= r  /  r.__ge__(l)
            binary(mir, "__%s__" % mir, "__%s__" % opn, args[1], args[0])       # r >= l  /  l.__le__(r)
        elif name in ("Equals", "Implies", "Iff") and len(args) == 2 and one(args[1]) and \
                (upo(args[0]) or (name == "Equals" and args[0][0] == "O")):
            out.append(["m", name, args[0], args[1]])
        elif name == "FluentExp" and all(one(a) for a in cmd[4][1:]):
            out.append(["call", cmd[1], cmd[2], cmd[3]] + cmd[4][1:])
        if name == "Plus" and len(args) == 2 and args[0] == ["i", "0"] and upo(args[1]):
            out += [["un", "pos", args[1]], ["m", "__pos__", args[1]]] * 2
        if name == "Minus" and len(args) == 2 and args[0] == ["i", "0"] and upo(args[1]):
            out += [["un", "neg", args[1]], ["m", "__neg__", args[1]]] * 2
        return out

    def respell(self, cmd):
        r = self.rng.random()
        if r < 0.3:
            return cmd                                           # the ExpressionManager method itself
        alts = self.spellings_of(cmd)
        others = [a for a in alts if a[0] != "sc"]
        if others and r < 0.85:
            return self.rng.choice(others)                       # operator / method / call
        if len(alts) > len(others) and self.rng.random() < 0.6:
            return alts[0]                                       # the shortcuts function
        return cmd

    def up_arg(self, want):
        """an argument that is an FNode or a Fluent/Parameter/Variable object (something that has operators)"""
        for _ in range(200):
            a, t = self.arg(want)
            if a[0] in ("r", "F", "P", "V"):
                return a, t
        raise RuntimeError("generator could not find a receiver")

    def receiver(self, cls, base, any_result=False):
        """a receiver of class `cls` (r = FNode, F, P, V) whose expression has base type `base`; for FNode: the expression of a
           symbol (so that its bounds are those of the symbol), or with any_result any earlier result of that type"""
        rng = self.rng
        if cls != "r":
            return self.sym(cls, base)
        if any_result and rng.random() < 0.6:
            k = self.prev(lambda t: t["base"] == base)
            if k is not None:
                return ["r", str(k)], self.ty[k]
        ks = [k for k in self.symsteps if self.ty[k]["base"] == base]
        if not ks or rng.random() < 0.3:
            got = self.sym(rng.choice("FPV"), base) or self.sym("F", base)
            a, t = got
            if a[0] == "F":
                self.emit(["FluentExp", a[1], "0", a[3], ["L"]], t)
            else:
                self.emit([{"P": "ParameterExp", "V": "VariableExp"}[a[0]], a[1], a[2]], t)
            ks = [len(self.cmds) - 1]
        k = rng.choice(ks)
        return ["r", str(k)], self.ty[k]

    def small_num(self, nonzero=False):
        """a numeric operand that keeps every bound small and exact: a small literal or a symbol"""
        if self.rng.random() < 0.6:
            return self.num_lit(60, nonzero=nonzero)
        return self.num_sym()

    SWEEP = [   # method, ExpressionManager constructor, position of the receiver, family
        ("__add__", "Plus", 0, "num"), ("__radd__", "Plus", 1, "num"), ("__sub__", "Minus", 0, "num"),
        ("__rsub__", "Minus", 1, "num"), ("__mul__", "Times", 0, "num"), ("__rmul__", "Times", 1, "num"),
        ("__truediv__", "Div", 0, "num"), ("__rtruediv__", "Div", 1, "num"), ("__floordiv__", "Div", 0, "num"),
        ("__rfloordiv__", "Div", 1, "num"), ("__lt__", "LT", 0, "num"), ("__le__", "LE", 0, "num"), ("__gt__", "GT", 0, "num"),
        ("__ge__", "GE", 0, "num"), ("Equals", "Equals", 0, "num"), ("__pos__", "Plus", 1, "sign"), ("__neg__", "Minus", 1, "sign"),
        ("And", "And", 0, "nary"), ("__and__", "And", 0, "bool"), ("__rand__", "And", 1, "bool"), ("Or", "Or", 0, "nary"),
        ("__or__", "Or", 0, "bool"), ("__ror__", "Or", 1, "bool"), ("Not", "Not", 0, "not"), ("__invert__", "Not", 0, "not"),
        ("Implies", "Implies", 0, "bool"), ("Iff", "Iff", 0, "bool"), ("Xor", None, 0, "xor"), ("__xor__", None, 0, "xor"),
        ("__rxor__", None, 1, "xor")]
    OPSYM = {"__add__": "add", "__radd__": "add", "__sub__": "sub", "__rsub__": "sub", "__mul__": "mul", "__rmul__": "mul",
             "__truediv__": "truediv", "__rtruediv__": "truediv", "__floordiv__": "floordiv", "__rfloordiv__": "floordiv",
             "__lt__": "lt", "__le__": "le", "__gt__": "gt", "__ge__": "ge", "__and__": "and", "__rand__": "and", "__or__": "or",
             "__ror__": "or", "__xor__": "xor", "__rxor__": "xor", "__invert__": "invert", "__pos__": "pos", "__neg__": "neg"}
    MIRROR = {"lt": "gt", "le": "ge", "gt": "lt", "ge": "le"}

    def sweep(self):
        """one cell of the table (class of the receiver) x (method of the infix table), drawn uniformly, so that every cell is
           exercised in every run; the method is reached by name or through the Python operator that dispatches to it"""
        rng = self.rng
        cls = rng.choice("rFPV")
        meth, ctor, pos, fam = rng.choice(self.SWEEP)
        if rng.random() < 0.04:     # Object has Equals only
            o, t = self.sym("O", rng.choice(["Loc", "Robot"]))
            other = self.arg(t["base"])[0]
            return self.emit(["Equals", o, other], BOOLI, ["m", "Equals", o, other])
        lit = lambda a: a[0] in ("b", "i", "q", "f", "s")
        if fam in ("bool", "nary", "not", "xor"):
            recv, t = self.receiver(cls, "bool", any_result=True)
            if fam == "not":
                spelled = ["m", meth, recv] if meth == "Not" or rng.random() < 0.5 else ["un", "invert", recv]
                return self.emit(["Not", recv], BOOLI, spelled)
            if fam == "nary":
                others = self.lists([self.arg("bool")[0] for _ in range(rng.choice([0, 1, 1, 2, 3]))])
                return self.emit([ctor, recv] + others, t if not others else BOOLI, ["m", meth, recv] + others)
            other = ["b", rng.choice("TF")] if pos == 1 and rng.random() < 0.7 else self.arg("bool")[0]
            if pos == 0:
                viaop = meth in self.OPSYM and rng.random() < 0.5
                spelled = ["op", self.OPSYM[meth], recv, other] if viaop else ["m", meth, recv, other]
            else:                   # reflected: reached by the operator only with a Python constant on the left
                viaop = lit(other) and rng.random() < 0.6
                spelled = ["op", self.OPSYM[meth], other, recv] if viaop else ["m", meth, recv, other]
            if fam == "xor":
                self.forms.append(spelled)
                self.cmds.append(spelled)
                self.ty.append(BOOLI)
                return
            return self.emit([ctor] + ([recv, other] if pos == 0 else [other, recv]), BOOLI, spelled)
        # numeric families
        base = rng.choice(["int", "real"]) if cls in "rF" else "int"
        recv, t = self.receiver(cls, base)
        if fam == "sign":
            spelled = ["m", meth, recv] if rng.random() < 0.5 else ["un", self.OPSYM[meth], recv]
            return self.emit([ctor, ["i", "0"], recv], I(t["base"], unb=t["unb"], mag=t["mag"] + 2), spelled)
        other, to = self.small_num(nonzero=(ctor == "Div" and pos == 0))
        infos = [t, to] if pos == 0 else [to, t]
        if ctor in ("LT", "LE", "GT", "GE", "Equals"):
            info = BOOLI
        else:
            info = I("real" if ctor == "Div" or any(x["base"] == "real" for x in infos) else "int",
                     unb=any(x["unb"] for x in infos) or (ctor == "Div" and not infos[1]["const"]),
                     mag=(sum(x["mag"] for x in infos) if ctor in ("Times", "Div") else max(x["mag"] for x in infos) + 2))
        spelled = ["m", meth, recv, other]
        opn = self.OPSYM.get(meth)
        if opn is not None and pos == 0 and rng.random() < 0.5:
            # recv <op> other; for a comparison with a constant also the mirrored spelling  other <mirror> recv
            spelled = ["op", opn, recv, other]
            if opn in self.MIRROR and lit(other) and rng.random() < 0.5:
                spelled = ["op", self.MIRROR[opn], other, recv]
        elif opn is not None and pos == 1 and lit(other) and rng.random() < 0.6:
            spelled = ["op", opn, other, recv]
        self.emit([ctor] + ([recv, other] if pos == 0 else [other, recv]), info, spelled)

    def infix_only(self):
        """constructions that exist on the infix tables only: the xor family and the unary sign"""
        rng = self.rng
        r = rng.random()
        if r < 0.6:
            x, _ = self.up_arg("bool")
            q = rng.random()
            if q < 0.35:
                y = self.arg("bool")[0]
                cmd = ["op", "xor", x, y] if rng.random() < 0.7 else ["m", "__xor__", x, y]
            elif q < 0.6:       # the reflected method: a Python bool on the left
                y = ["b", rng.choice("TF")]
                cmd = ["op", "xor", y, x] if rng.random() < 0.6 else ["m", "__rxor__", x, y]
            else:
                ys = [self.arg("bool")[0] for _ in range(rng.choice([0, 1, 1, 2, 3]))]
                cmd = ["m", "Xor", x] + self.lists(ys)
            self.forms.append(cmd)
            self.cmds.append(cmd)
            self.ty.append(BOOLI)
        else:
            x, t = self.up_arg("num")
            name = rng.choice(["Minus", "Plus"])
            self.emit([name, ["i", "0"], x], I(t["base"], unb=t["unb"], mag=max(t["mag"], 1.0) + 2, const=t["const"]))

    # ---- argument choice ----
    def prev(self, pred):
        c = [k for k, t in enumerate(self.ty) if t is not None and pred(t)]
        if not c:
            return None
        if self.rng.random() < 0.5:
            c = c[-8:]
        return self.rng.choice(c)

    def sym(self, kind, want):
        table = {"F": FLUENTS, "P": PARAMS, "V": VARS, "O": OBJS}[kind]
        ks = [k for k, v in table.items() if BASE[v[1]] == want and (kind != "F" or v[2] == ())]
        if not ks:
            return None
        k = self.rng.choice(ks)
        t = table[k][1]
        info = I(want, unb=UNB.get(t, False), mag=4.0)
        copy = str(self.rng.randint(0, 1))
        return (["F", k, "0", copy] if kind == "F" else [kind, k, copy]), info

    def num_sym(self):
        b = self.rng.choice(["int", "real"])
        r = self.rng.random()
        return (self.sym("P", b) if r < 0.2 else (self.sym("V", b) if r < 0.3 else None)) or self.sym("F", b)

    def num_lit(self, max_mag=1e9, nonzero=False):
        rng = self.rng
        while True:
            r = rng.random()
            if r < 0.4:
                z = rng.choice(INTS) if rng.random() < 0.7 else rng.randint(-20, 20)
                a, v = ["i", str(z)], Fraction(z)
            elif r < 0.6:
                n, d = rng.choice(FRACS) if rng.random() < 0.7 else (rng.randint(-30, 30), rng.randint(1, 12))
                a, v = ["q", str(n), str(d)], Fraction(n, d)
            elif r < 0.8:
                f = rng.choice(FLOATS) if rng.random() < 0.7 else rng.randint(-64, 64) / 8
                n, d = f.as_integer_ratio()
                a, v = ["f", str(n), str(d)], Fraction(n, d)
            else:
                s = rng.choice(NUMSTR)
                a, v = ["s", s], Fraction(s)
            if mag_of(v) > max_mag or (nonzero and v == 0):
                continue
            return a, I("int" if v.denominator == 1 else "real", mag=mag_of(v), const=True)

    def arg(self, want, max_mag=1e9, allow_unb=True):
        """an argument of tracked base type `want` ('num' = int or real); returns (sexp, info)"""
        rng = self.rng
        ok = lambda t: ((t["base"] in ("int", "real")) if want == "num" else t["base"] == want) and \
            t["mag"] <= max_mag and (allow_unb or not t["unb"])
        for _ in range(100):
            r = rng.random()
            if r < 0.55:
                k = self.prev(ok)
                if k is not None:
                    return ["r", str(k)], self.ty[k]
            if want == "bool":
                if r < 0.7:
                    return ["b", rng.choice("TF")], BOOLC
                q = rng.random()
                got = self.sym("F", "bool") if q < 0.7 else self.sym("P" if q < 0.88 else "V", "bool")
            elif want == "num":
                got = self.num_lit(max_mag) if r < 0.8 else self.num_sym()
            else:
                got = self.sym(rng.choice("FPVO"), want)
            if got is not None and ok(got[1]):
                return got
        raise RuntimeError("generator could not find an argument")

    def lists(self, args):
        """present the arguments of an n-ary constructor unpacked, as one iterable, or mixed"""
        r = self.rng.random()
        if r < 0.6 or not args:
            return list(args)
        if r < 0.85:
            return [["L"] + list(args)]
        k = self.rng.randint(0, len(args))
        return [["L"] + list(args[:k])] + list(args[k:])

    # ---- commands ----
    def arith(self, name):
        rng = self.rng
        n = 2 if name in ("Minus", "Div") else rng.choice([0, 1, 2, 2, 3, 3, 4])
        args, infos = [], []
        for i in range(n):
            big = any(t["mag"] > MAXMAG for t in infos)
            unb = any(t["unb"] for t in infos)
            if name == "Div" and i == 1:
                # divisor: a non-zero literal, a symbol, or an earlier result without bounds -- anything else may have
                # the type [0,0], on which the type checker's bounds arithmetic divides by zero
                # (an earlier result is no longer used as a divisor: since the type checker computes exact bounds, a
                # product with a zero factor or a sum of zeros is typed [0,0] even when an operand is unbounded, and
                # this generator's own type bookkeeping cannot tell)
                k = None
                r = rng.random()
                if r < 0.5:
                    a, t = self.num_lit(MAXMAG / 2, nonzero=True)
                elif r < 0.75 and k is not None:
                    a, t = ["r", str(k)], self.ty[k]
                else:
                    a, t = self.num_sym()
            elif name == "Div":
                a, t = self.arg("num", max_mag=MAXMAG / 2)
            elif name == "Times":
                a, t = self.arg("num", max_mag=MAXMAG - sum(t["mag"] for t in infos) - 60 * (n - i - 1))
            else:   # Plus / Minus: exact unless an operand has no bounds (then +-inf floats are added)
                a, t = self.arg("num", max_mag=MAXMAG if unb else 1e9, allow_unb=not big)
            args.append(a)
            infos.append(t)
        if n == 1:
            info = infos[0]
        elif n == 0:
            info = I("int", const=True)
        else:
            base = "real" if name == "Div" or any(t["base"] == "real" for t in infos) else "int"
            unb = any(t["unb"] for t in infos) or (name == "Div" and not infos[1]["const"])
            mag = sum(t["mag"] for t in infos) if name in ("Times", "Div") else max(t["mag"] for t in infos) + 2
            info = I(base, unb=unb, mag=mag, const=all(t["const"] for t in infos))
        self.emit([name] + (self.lists(args) if name in ("Plus", "Times") else args), info)

    def fresh(self):
        rng = self.rng
        r = rng.random()
        if r < 0.22:      # n-ary boolean
            name = rng.choice(["And", "And", "Or", "Or", "XOr"])
            n = rng.choice([0, 1, 2, 2, 3, 3, 4]) if name != "XOr" else rng.choice([0, 1, 2, 2, 3])
            got = [self.arg("bool") for _ in range(n)]
            self.emit([name] + self.lists([a for a, _ in got]), got[0][1] if n == 1 else (BOOLC if n == 0 else BOOLI))
        elif r < 0.30:
            self.emit(["Not", self.arg("bool")[0]], BOOLI)
        elif r < 0.36:
            self.emit([rng.choice(["Implies", "Iff"]), self.arg("bool")[0], self.arg("bool")[0]], BOOLI)
        elif r < 0.52:
            self.arith(rng.choice(["Plus", "Plus", "Times", "Times", "Minus", "Div"]))
        elif r < 0.66:
            self.emit([rng.choice(["LE", "GE", "LT", "GT", "Equals"]), self.arg("num")[0], self.arg("num")[0]], BOOLI)
        elif r < 0.69:
            t = rng.choice(["Loc", "Loc", "Robot"])
            self.emit(["Equals", self.arg(t)[0], self.arg(t)[0]], BOOLI)
        elif r < 0.79:    # fluent application
            k = rng.choice(list(FLUENTS))
            name, t, sig = FLUENTS[k]
            ps = [self.arg(s)[0] for s in sig]
            self.emit(["FluentExp", k, str(len(sig)), str(rng.randint(0, 1)), ["L"] + ps],
                      I(BASE[t], unb=UNB.get(t, False), mag=4.0))
        elif r < 0.84:
            kind = rng.choice(["ParameterExp", "VariableExp", "ObjectExp"])
            table = {"P": PARAMS, "V": VARS, "O": OBJS}[kind[0]]
            k = rng.choice(list(table))
            t = table[k][1]
            self.emit([kind, k, str(rng.randint(0, 1))], I(BASE[t], unb=UNB.get(t, False), mag=4.0))
        elif r < 0.89:
            vs = rng.sample(QVARS, rng.randint(1, 3))
            self.emit([rng.choice(["Exists", "Forall"]), [[v, str(rng.randint(0, 1))] for v in vs], self.arg("bool")[0]], BOOLI)
        elif r < 0.93:
            name = rng.choice(["Always", "Sometime", "AtMostOnce", "SometimeBefore", "SometimeAfter"])
            n = 2 if name in ("SometimeBefore", "SometimeAfter") else 1
            self.emit([name] + [self.arg("bool")[0] for _ in range(n)], BOOLI)
        else:             # constants through the explicit constructors
            q = rng.random()
            if q < 0.2:
                self.emit([rng.choice(["TRUE", "FALSE"])], BOOLC)
            elif q < 0.4:
                self.emit(["Bool", rng.choice("TF")], BOOLC)
            elif q < 0.7:
                z = rng.choice(INTS)
                self.emit(["Int", str(z)], I("int", mag=mag_of(Fraction(z)), const=True))
            else:
                n, d = rng.choice(FRACS)
                self.emit(["Real", str(n), str(d)], I("real", mag=mag_of(Fraction(n, d)), const=True))

    def failing(self):
        """a call that raises a documented error (possibly after having promoted some arguments)"""
        rng = self.rng
        r = rng.random()
        if r < 0.3:
            k = rng.choice([k for k, v in FLUENTS.items() if v[2]])
            sig = FLUENTS[k][2]
            ps = [self.arg("Loc")[0] for _ in range(rng.choice([n for n in range(4) if n != len(sig)]))]
            self.emit(["FluentExp", k, str(len(sig)), "0", ["L"] + ps], None)
        elif r < 0.45:      # a Fluent object with parameters used as an expression
            k = rng.choice([k for k, v in FLUENTS.items() if v[2] and v[1] == "bool"])
            self.emit(["And", self.arg("bool")[0], ["F", k, str(len(FLUENTS[k][2])), "0"]], None)
        elif r < 0.6:
            self.emit([rng.choice(["Exists", "Forall"]), [], self.arg("bool")[0]], None)
        elif r < 0.7:       # Int() of a Python bool (isinstance(True, int) holds), next to the genuine constant
            b = rng.choice("TF")
            self.emit(["IntOfBool", b], None)
            self.emit(["Int", "1" if b == "T" else "0"], I("int", mag=1.0, const=True))
        else:
            name = rng.choice(["Plus", "LE", "Equals", "Times", "GT"])
            a, b = self.arg("num", max_mag=60, allow_unb=False)[0], ["s", rng.choice(BADSTR)]
            self.emit([name] + ([a, b] if rng.random() < 0.5 else [b, a]), None)

    def repeat(self):
        """re-build something that exists already: verbatim, or through a documented normal form"""
        rng = self.rng
        oks = [k for k, t in enumerate(self.ty) if t is not None]
        if not oks:
            return self.fresh()
        k = rng.choice(oks[-12:] if rng.random() < 0.5 else oks)
        cmd, t = self.forms[k], self.ty[k]
        r = rng.random()
        ref = ["r", str(k)]
        if cmd[0] in ("op", "m") and r < 0.4:   # an infix-only construction (xor family): verbatim, or by another spelling
            if r < 0.2 and cmd[0] == "op" and cmd[2][0] != "b":
                cmd = ["m", rng.choice(["__xor__", "Xor"]), cmd[2], cmd[3]]
            self.forms.append(cmd)
            self.cmds.append(cmd)
            self.ty.append(t)
            return
        if r < 0.4:
            return self.emit(list(cmd), t)
        if r < 0.5 and cmd[0] in ("GE", "GT", "LE", "LT") and len(cmd) == 3 and cmd[1][0] == "r" and cmd[2][0] == "r":
            return self.emit([{"GE": "LE", "LE": "GE", "GT": "LT", "LT": "GT"}[cmd[0]], cmd[2], cmd[1]], t)
        if t["base"] == "bool":
            if r < 0.65:            # negate it; half of the time negate the negation too (each by a random path)
                self.emit(["Not", ref], BOOLI)
                if rng.random() < 0.5:
                    self.emit(["Not", ["r", str(len(self.cmds) - 1)]], BOOLI)
                return
            if r < 0.8:
                return self.emit([rng.choice(["And", "Or", "XOr"]), rng.choice([ref, ["L", ref]])], t)
            return self.emit([rng.choice(["And", "Or"])], BOOLC)
        if t["base"] in ("int", "real"):
            if r < 0.8:
                return self.emit([rng.choice(["Plus", "Times"]), rng.choice([ref, ["L", ref]])], t)
            return self.emit([rng.choice(["Plus", "Times"])], I("int", const=True))
        return self.emit(list(cmd), t)

    def spellings(self):
        """several spellings of one number inside one construction"""
        rng = self.rng
        n, d = rng.choice([(2, 1), (1, 2), (0, 1), (-3, 1), (5, 4), (7, 1)])
        v = Fraction(n, d)
        sp = [["q", str(n * 3), str(d * 3)], ["f", *map(str, float(v).as_integer_ratio())], ["s", f"{n}/{d}"],
              ["s", str(float(v))]]
        if d == 1:
            sp += [["i", str(n)], ["s", str(n)]]
        name = rng.choice(["LE", "GE", "Equals", "Plus", "Times", "LT"])
        info = BOOLC if name in ("LE", "GE", "Equals", "LT") else I("int" if d == 1 else "real", mag=8.0, const=True)
        self.emit([name, rng.choice(sp), rng.choice(sp)], info)

    def history(self, length):
        rng = self.rng
        while len(self.cmds) < length:
            r = rng.random()
            if r < 0.04:
                self.failing()
            elif r < 0.32 and self.cmds:
                self.repeat()
            elif r < 0.36:
                self.spellings()
            elif r < 0.40 and self.paths:
                self.infix_only()
            elif r < 0.52 and self.paths:
                self.sweep()
            else:
                self.fresh()
        return ["hist"] + self.cmds


def cases(rng, tier):
    if tier == "quick":
        plan = [(500, 4), (50, 250), (12, 250)]
    else:
        plan = [(500, 60), (50, 2500), (12, 2500)]
    for length, n in plan:
        for _ in range(n):
            yield G(rng).history(length)


# --------------------------------------------------------------------------------------------------
# evidence helpers
# --------------------------------------------------------------------------------------------------
NOMINAL = {"And": "AND", "Or": "OR", "XOr": "OR", "Not": "NOT", "Plus": "PLUS", "Times": "TIMES", "GE": "GE", "GT": "GT"}


M_NOMINAL = {"Not": "NOT", "__invert__": "NOT", "And": "AND", "__and__": "AND", "__rand__": "AND", "Or": "OR", "__or__": "OR",
             "__ror__": "OR", "__add__": "PLUS", "__radd__": "PLUS", "__mul__": "TIMES", "__rmul__": "TIMES",
             "__ge__": "GE", "__gt__": "GT"}
OP_NOMINAL = {"invert": "NOT", "and": "AND", "or": "OR", "add": "PLUS", "mul": "TIMES", "ge": "GE", "gt": "GT"}


def nominal(cmd):
    """the operator a construction names, if it is one of those with a documented normalisation"""
    if cmd[0] == "sc":
        return nominal(cmd[1])
    if cmd[0] in ("op", "un"):
        return OP_NOMINAL.get(cmd[1])
    if cmd[0] == "m":
        return M_NOMINAL.get(cmd[1])
    return NOMINAL.get(cmd[0])


def path_kind(cmd):
    if cmd[0] == "sc":
        return "shortcut"
    if cmd[0] == "op":
        return "infix-reflected" if cmd[2][0] in ("b", "i", "q", "f", "s") else "infix"
    if cmd[0] == "un":
        return "prefix"
    if cmd[0] == "m":
        return "method-of-" + {"r": "FNode", "F": "Fluent", "P": "Parameter", "V": "Variable", "O": "Object"}.get(cmd[2][0], "?")
    if cmd[0] == "call":
        return "fluent-call"
    return "manager"


CLS = {"r": "FNode", "F": "Fluent", "P": "Parameter", "V": "Variable", "O": "Object"}
FWD_METH = {"add": "__add__", "sub": "__sub__", "mul": "__mul__", "truediv": "__truediv__", "floordiv": "__floordiv__",
            "lt": "__lt__", "le": "__le__", "gt": "__gt__", "ge": "__ge__", "and": "__and__", "or": "__or__", "xor": "__xor__"}
RFL_METH = {"add": "__radd__", "sub": "__rsub__", "mul": "__rmul__", "truediv": "__rtruediv__", "floordiv": "__rfloordiv__",
            "lt": "__gt__", "le": "__ge__", "gt": "__lt__", "ge": "__le__", "and": "__rand__", "or": "__ror__", "xor": "__rxor__"}


def cell(cmd):
    """(class of the receiver).(method of the infix table) that a step ends up in, if any"""
    if cmd[0] == "m":
        return CLS.get(cmd[2][0], "?") + "." + cmd[1]
    if cmd[0] == "un":
        return CLS.get(cmd[2][0], "?") + "." + {"invert": "__invert__", "neg": "__neg__", "pos": "__pos__"}[cmd[1]]
    if cmd[0] == "op":
        if cmd[2][0] in ("r", "F", "P", "V"):
            return CLS[cmd[2][0]] + "." + FWD_METH[cmd[1]]
        return CLS.get(cmd[3][0], "?") + "." + RFL_METH[cmd[1]]
    if cmd[0] == "call":
        return "Fluent.__call__"
    return None


def _steps(ans):
    return ans[0][1:] if isinstance(ans, list) and ans and ans[0] and ans[0][0] == "steps" else []


def nontrivial(payload, ans):
    steps = _steps(ans)
    hit, normal, top = False, False, 1
    for cmd, s in zip(payload[1:], steps):
        if s[0] != "ok":
            continue
        k = int(s[1])
        if k <= top:
            hit = True
        top = max(top, k)
        if nominal(cmd) is not None and s[2] != nominal(cmd):
            normal = True
    return hit and normal


def stats(payload, ans):
    steps = _steps(ans)
    tags = ["len<=12" if len(payload) - 1 <= 12 else ("len<=50" if len(payload) - 1 <= 50 else "len>50")]
    top, hits, norm, errs = 1, 0, 0, 0
    kinds = [path_kind(cmd) for cmd in payload[1:]]
    for kd in sorted(set(kinds)):
        tags.append("path:" + kd)
    for c in sorted(set(filter(None, map(cell, payload[1:])))):
        tags.append("cell:" + c)
    new = sum(1 for kd in kinds if kd != "manager")
    tags.append("non-manager-path-steps:%d%%" % (10 * round(10 * new / max(1, len(kinds)))))
    for cmd, s in zip(payload[1:], steps):
        # a negation made by operator / method / shortcut that hit the double-negation rule
        if s[0] == "ok" and nominal(cmd) == "NOT" and path_kind(cmd) != "manager" and s[2] != "NOT":
            tags.append("double-negation-off-manager")
            break
    for cmd, s in zip(payload[1:], steps):
        if s[0] != "ok":
            errs += 1
            tags.append("step-err:" + s[1])
            continue
        k = int(s[1])
        if k <= top:
            hits += 1
        top = max(top, k)
        if nominal(cmd) is not None and s[2] != nominal(cmd):
            norm += 1
    tags.append("memo-hit-steps:%d%%" % (10 * round(10 * hits / max(1, len(steps)))))
    tags.append("normalised-steps:%d%%" % (10 * round(10 * norm / max(1, len(steps)))))
    return tags


def shrink(payload):
    cmds = payload[1:]
    n = len(cmds)
    # truncate
    for k in (n // 2, n - 1):
        if 0 < k < n:
            yield ["hist"] + cmds[:k]

    def refs(x):
        if isinstance(x, list):
            if len(x) == 2 and x[0] == "r":
                yield int(x[1])
            else:
                for y in x:
                    yield from refs(y)

    def renum(x, k):
        if isinstance(x, list):
            if len(x) == 2 and x[0] == "r":
                return ["r", str(int(x[1]) - 1 if int(x[1]) > k else int(x[1]))]
            return [renum(y, k) for y in x]
        return x
    for k in range(n - 1, -1, -1):
        if any(k in set(refs(c[1:])) for c in cmds[k + 1:]):
            continue
        yield ["hist"] + cmds[:k] + [[c[0]] + renum(c[1:], k) for c in cmds[k + 1:]]


MANIFEST = {
    "level_text": ("Lean 4 theorems (Props/C16.lean) about an executable model of ExpressionManager (heap of FNode objects, memo "
                   "table keyed by node content, id counter, auto_promote, every modelled constructor), proved for every "
                   "construction history with no size bound: the table invariant (ids consecutive and pairwise distinct, table "
                   "= contents of the heap, contents pairwise distinct, children older than parents), re-creating an existing "
                   "content returns the same node and leaves the manager unchanged, node <-> expression-tree is a bijection "
                   "(distinct nodes denote distinct expressions and have distinct ids), re-issuing any constructor call of a "
                   "history later returns the identical node and creates nothing, nodes never change, and one equation per "
                   "documented normalisation. Props/C16Paths.lean lifts all of it to EVERY public construction path (model "
                   "Core/HashConsPaths.lean: the 30 methods of the infix tables of FNode/Fluent/Parameter/Variable, Object.Equals, "
                   "CPython's forward/reflected operator dispatch, Fluent.__call__, the shortcuts functions): each path is proved "
                   "equal to a call (the xor family: four calls) of the documented constructor, histories mixing the paths freely "
                   "keep the invariant, an expression built by one path and again by another is the identical node, ~~x is x on "
                   "every path, and no node Not(Not(x)) exists after any history (with a kernel-checked counterexample for a raw "
                   "create_node). The model is tied to the code by a differential check on whole histories in one real environment "
                   "in which every step carries the path by which it is built (returned node, operator, children, payload per "
                   "step; full table dump at the end) plus a direct oracle of the property on the real code (documented "
                   "expression per step whatever the path, pairwise identity, no Not(Not x) in the table, and a second pass "
                   "that rebuilds every expression)."),
    "level_note": ("Trusted: Lean kernel; axioms propext, Classical.choice, Quot.sound at most; the correspondence harness. "
                   "Modelled not verified: CPython dict/tuple hashing and equality, fractions.Fraction, float.as_integer_ratio. "
                   "CPython's choice between forward and reflected operator methods. "
                   "Out of scope: ill-typed constructions (C14/C15), writes to private attributes, Dot/Timing/Presence/"
                   "InterpretedFunction nodes (and the infix table of InterpretedFunction objects)."),
    "technique": "Lean 4 proof over a hand-written model + model/code correspondence on construction histories",
    "design_ref": "DESIGN.md §5 C16",
}
