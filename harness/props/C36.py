"""C36 — Planning states (UPState) behave like finite maps under any update history."""
import warnings
from fractions import Fraction

warnings.simplefilter("ignore")
import unified_planning as up
from unified_planning.shortcuts import (BoolType, IntType, RealType, UserType, Fluent, FluentExp, Object, ObjectExp,
                                        Problem, Int, Real, Bool)
from unified_planning.model.state import UPState
from unified_planning.exceptions import UPStateMissingFluentError, UPValueError

import sexp

ID = "C36"
GEN = []
CORR_NAME = "history-answers-and-shapes"
RULE = ("one case = defaults for a random subset of 6 fluents (7 fluent expressions, one fluent parametrised), an ancestor "
        "limit pair (class of the root, UPState.MAX_ANCESTORS) from 1,2,3,20,None (rarely 0 = rejected), explicit root values, "
        "and 4-70 calls: make_child on a random earlier state (biased to the newest, so chains pass the limit) with 0-3 "
        "updates (30% default-valued, 15% re-asserting the inherited value), interleaved with get_value, ==, hash(), repr() "
        "and a side-effect-free peek at (_ancestors, chain depth, _hash cached, own _values); ends with a get_value sweep and "
        "== / hash comparisons over planted equal and random pairs. Non-trivial = accepted, >= 2 children, at least one "
        "condensation (make_child past the limit, or hash/==/repr/failed get_value on a state with a father) and at least one "
        "default-valued or inherited-value update.")
ASSUMPTIONS = ["keys are fluent expressions and values constants (anything else is rejected by the constructor; covered by "
               "test_state.py::test_non_constant_values)",
               "all states of one history share one problem (fluents_defaults is not mutated during the history)",
               "hash equality is compared as an equality pattern; a 64-bit collision of xor-ed item hashes is ignored",
               "ancestor limits < 1 are rejected by the constructor (documented: must be > 0); the oracle is silent there"]
MODELLED = ["modelled by hand (tied by correspondence): UPState.__init__/_is_nondefault/_condense_state/__repr__/__hash__/"
            "__eq__/get_value/make_child incl. in-place mutation of shared fathers; Python dict (insertion-ordered, distinct "
            "keys), FNode identity of constants as token equality"]
BUDGET_S = {"quick": 40, "thorough": 400}

# ---------------------------------------------------------------------------------------------------
# the fluent universe (objects of the REAL library)
# ---------------------------------------------------------------------------------------------------
_Loc = UserType("Loc")
_OBJS = {"l1": Object("l1", _Loc), "l2": Object("l2", _Loc)}
_FLUENTS = {
    "x": Fluent("x", IntType()),
    "y": Fluent("y", IntType()),
    "b": Fluent("b", BoolType()),
    "r": Fluent("r", RealType()),
    "pos": Fluent("pos", _Loc),
    "at": Fluent("at", BoolType(), l=_Loc),
}
FEXPS = [["x"], ["y"], ["b"], ["r"], ["pos"], ["at", "l1"], ["at", "l2"]]
DOMAIN = {"x": ["i0", "i1", "i2"], "y": ["i0", "i1", "i-1", "i100000000000000000000"], "b": ["bT", "bF"],
          "r": ["r1/2", "r0/1", "i0"], "pos": ["ol1", "ol2"], "at": ["bT", "bF"]}
LIMITS = ["1", "2", "3", "20", "none"]


def fexp(e):
    f = _FLUENTS[e[0]]
    return FluentExp(f, [ObjectExp(_OBJS[a]) for a in e[1:]])


def value(tok):
    k, rest = tok[0], tok[1:]
    if k == "i":
        return Int(int(rest))
    if k == "b":
        return Bool(rest == "T")
    if k == "o":
        return ObjectExp(_OBJS[rest])
    if k == "r":
        n, d = rest.split("/")
        return Real(Fraction(int(n), int(d)))
    raise ValueError(tok)


def tok_of(node):
    if node.is_int_constant():
        return "i" + str(node.constant_value())
    if node.is_bool_constant():
        return "bT" if node.constant_value() else "bF"
    if node.is_object_exp():
        return "o" + node.object().name
    if node.is_real_constant():
        q = node.constant_value()
        return f"r{q.numerator}/{q.denominator}"
    raise ValueError(str(node))


def fexp_out(node):
    return [node.fluent().name] + [a.object().name for a in node.args]


def items_out(d):
    out = [[fexp_out(k), tok_of(v)] for k, v in d.items()]
    return sorted(out, key=sexp.dumps)


def lim(tok):
    return None if tok == "none" else int(tok)


# ---------------------------------------------------------------------------------------------------
# payload access
# ---------------------------------------------------------------------------------------------------

def parts(payload):
    assert payload[0] == "hist"
    defaults = {d[0]: d[1] for d in payload[1][1:]}
    rl, bl = payload[2][1], payload[2][2]
    root = payload[3][1:]
    ops = payload[4][1:]
    return defaults, rl, bl, root, ops


def mk(defaults, rl, root):
    """the problem (fluents' defaults) and the root state, built with the real classes"""
    pb = Problem("c36")
    for name, f in _FLUENTS.items():
        if name in defaults:
            pb.add_fluent(f, default_initial_value=value(defaults[name]))
        else:
            pb.add_fluent(f)
    cls = type("LimitedUPState", (UPState,), {"MAX_ANCESTORS": lim(rl)})
    return pb, cls({fexp(k): value(v) for k, v in root}, pb)


class base_limit:
    """UPState.MAX_ANCESTORS for the duration of one case (make_child builds plain UPState objects)"""

    def __init__(self, bl):
        self.bl = lim(bl)

    def __enter__(self):
        self.old = UPState.MAX_ANCESTORS
        UPState.MAX_ANCESTORS = self.bl

    def __exit__(self, *a):
        UPState.MAX_ANCESTORS = self.old


def well_formed(payload):
    """ids in range (every child op creates one state), distinct keys"""
    try:
        defaults, rl, bl, root, ops = parts(payload)
        if len(set(defaults)) != len(payload[1][1:]):
            return False
        keys = [sexp.dumps(k) for k, _ in root]
        if len(set(keys)) != len(keys):
            return False
        n = 1
        for op in ops:
            if op[0] in ("eq", "hasheq"):
                ids = [int(op[1]), int(op[2])]
            elif op[0] in ("child", "get", "hash", "repr", "shape"):
                ids = [int(op[1])]
            else:
                return False
            if any(i < 0 or i >= n for i in ids):
                return False
            if op[0] == "child":
                ks = [sexp.dumps(k) for k, _ in op[2]]
                if len(set(ks)) != len(ks):
                    return False
                n += 1
        return True
    except Exception:
        return False


# ---------------------------------------------------------------------------------------------------
# generator
# ---------------------------------------------------------------------------------------------------

def rand_value(rng, defaults, e, inherited=None):
    name = e[0]
    r = rng.random()
    if r < 0.30 and name in defaults:
        return defaults[name]
    if r < 0.45 and inherited is not None:
        return inherited
    if r < 0.48:   # a constant of another type / a default of another fluent
        return rng.choice(rng.choice(list(DOMAIN.values())))
    return rng.choice(DOMAIN[name])


def rand_update(rng, defaults, ref):
    k = rng.choice([0, 1, 1, 1, 2, 2, 3])
    es = rng.sample(FEXPS, k)
    return [[list(e), rand_value(rng, defaults, e, ref.get(sexp.dumps(e)))] for e in es]


def gen_case(rng, tier):
    defaults = {}
    for name in _FLUENTS:
        if rng.random() < 0.6:
            defaults[name] = rng.choice(DOMAIN[name])
    r = rng.random()
    if r < 0.55:
        rl = rng.choice(LIMITS)
        bl = rl
    elif r < 0.80:            # a user subclass: only the root has the chosen limit
        rl, bl = rng.choice(LIMITS), "20"
    elif r < 0.95:
        rl, bl = rng.choice(LIMITS), rng.choice(LIMITS)
    elif r < 0.98:
        rl, bl = "0", rng.choice(LIMITS)
    else:
        rl, bl = rng.choice(LIMITS), "0"
    root = rand_update(rng, defaults, {}) if rng.random() < 0.3 else \
        [[list(e), rand_value(rng, defaults, e)] for e in FEXPS if rng.random() < 0.6]
    refs = [{sexp.dumps(k): v for k, v in root}]
    ops = []
    long_chain = rng.random() < (0.5 if bl == "20" else 0.25)
    n_ops = rng.randint(25, 70) if long_chain else rng.randint(4, 30)
    p_child = 0.8 if long_chain else 0.5
    p_last = 0.9 if long_chain else rng.choice([0.3, 0.6, 0.9])
    creates = bl != "0"

    def pick():
        return len(refs) - 1 if rng.random() < p_last else rng.randrange(len(refs))

    if long_chain and creates and rng.random() < 0.5:
        # a straight chain first, long enough to pass the limit 20, with no call that condenses on the way
        for _ in range(rng.randint(21, 45)):
            i = len(refs) - 1
            u = rand_update(rng, defaults, refs[i])
            ops.append(["child", str(i), u])
            refs.append({**refs[i], **{sexp.dumps(k): v for k, v in u}})
            if rng.random() < 0.5:
                ops.append(["shape", str(len(refs) - 1)])
        n_ops = rng.randint(4, 25)
    for _ in range(n_ops):
        r = rng.random()
        if r < p_child:
            i = pick()
            if rng.random() < 0.12 and len(refs) > 1:
                # plant an equal state: bring state i to the map of another state j
                j = rng.randrange(len(refs))
                u = [[sexp.loads(k), v] for k, v in refs[j].items() if refs[i].get(k) != v]
                if any(k not in refs[j] for k in refs[i]):
                    u = rand_update(rng, defaults, refs[i])
            else:
                u = rand_update(rng, defaults, refs[i])
            ops.append(["child", str(i), u])
            if creates:
                refs.append({**refs[i], **{sexp.dumps(k): v for k, v in u}})
                if rng.random() < 0.7:
                    ops.append(["shape", str(len(refs) - 1)])
        else:
            kind = rng.choice(["get", "get", "get", "eq", "eq", "hasheq", "hash", "repr", "shape"])
            if kind == "get":
                ops.append(["get", str(pick()), list(rng.choice(FEXPS))])
            elif kind in ("eq", "hasheq"):
                ops.append([kind, str(pick()), str(rng.randrange(len(refs)))])
            else:
                ops.append([kind, str(pick())])
    # final sweep: peek, read everything, compare
    n = len(refs)
    sample = list(range(n)) if n <= 8 else sorted(rng.sample(range(n), 8))
    for i in sample:
        ops.append(["shape", str(i)])
    for i in sample:
        for e in FEXPS:
            ops.append(["get", str(i), list(e)])
    for _ in range(min(12, n * n)):
        i, j = rng.randrange(n), rng.randrange(n)
        ops.append(["eq", str(i), str(j)])
        if rng.random() < 0.5:
            ops.append(["hasheq", str(j), str(i)])
    for i in sample:
        ops.append(["shape", str(i)])
    for i in sample[:4]:
        ops.append(["get", str(i), list(rng.choice(FEXPS))])
    return ["hist", ["defaults"] + [[k, v] for k, v in defaults.items()], ["limits", rl, bl],
            ["root"] + root, ["ops"] + ops]


def cases(rng, tier):
    n = 500 if tier == "quick" else 12000
    for _ in range(n):
        yield gen_case(rng, tier)


# ---------------------------------------------------------------------------------------------------
# the real code
# ---------------------------------------------------------------------------------------------------

def shape_of(s):
    depth, cur = 0, s
    while cur is not None:
        depth += 1
        cur = cur._father
    return ["shape", str(s._ancestors), str(depth), sexp.B(s._hash is not None)] + items_out(s._values)


def impl(payload):
    defaults, rl, bl, root, ops = parts(payload)
    with base_limit(bl):
        try:
            pb, s0 = mk(defaults, rl, root)
        except UPValueError:
            return "reject"
        states, out = [s0], []
        for op in ops:
            k = op[0]
            if k == "child":
                try:
                    states.append(states[int(op[1])].make_child({fexp(e): value(v) for e, v in op[2]}))
                    out.append(["new", str(len(states) - 1)])
                except UPValueError:
                    out.append("usage")
            elif k == "get":
                try:
                    out.append(["val", tok_of(states[int(op[1])].get_value(fexp(op[2])))])
                except UPStateMissingFluentError:
                    out.append("missing")
            elif k == "hash":
                hash(states[int(op[1])])
                out.append("ok")
            elif k == "eq":
                out.append(sexp.B(states[int(op[1])] == states[int(op[2])]))
            elif k == "hasheq":
                out.append(sexp.B(hash(states[int(op[1])]) == hash(states[int(op[2])])))
            elif k == "repr":
                s = states[int(op[1])]
                text = repr(s)
                assert text == str(s._values)
                out.append(["items"] + items_out(s._values))
            elif k == "shape":
                out.append(shape_of(states[int(op[1])]))
            else:
                raise ValueError(k)
        return out


def _flags(payload, ans):
    defaults, rl, bl, root, ops = parts(payload)
    children = flatten = condense = defval = 0
    depth = {0: 1}
    n = 1
    refs = [{sexp.dumps(k): v for k, v in root}]
    maxdepth = 1
    for op, a in zip(ops, ans):
        if op[0] == "child" and a != "usage":
            i = int(op[1])
            children += 1
            for k, v in op[2]:
                if defaults.get(k[0]) == v or refs[i].get(sexp.dumps(k)) == v:
                    defval += 1
            refs.append({**refs[i], **{sexp.dumps(k): v for k, v in op[2]}})
        elif op[0] == "shape":
            d = int(a[2])
            maxdepth = max(maxdepth, d)
    # condensations are read off the peeks: a state whose depth is 1 although it is not the root
    for op, a in zip(ops, ans):
        if op[0] == "shape" and int(op[1]) > 0 and int(a[2]) == 1:
            condense += 1
    return children, condense, defval, maxdepth


def nontrivial(payload, ans):
    if ans == "reject" or not isinstance(ans, list):
        return False
    children, condense, defval, _ = _flags(payload, ans)
    return children >= 2 and condense >= 1 and defval >= 1


def stats(payload, ans):
    defaults, rl, bl, root, ops = parts(payload)
    t = [f"limits={rl}/{bl}"]
    if ans == "reject":
        return t + ["reject"]
    children, condense, defval, maxdepth = _flags(payload, ans)
    t.append("children:" + ("0-1" if children < 2 else "2-9" if children < 10 else "10-24" if children < 25 else "25+"))
    t.append("maxdepth:" + ("1" if maxdepth == 1 else "2-3" if maxdepth <= 3 else "4-20" if maxdepth <= 20 else "21+"))
    if condense:
        t.append("condensed-state-seen")
    if defval:
        t.append("default-or-inherited-valued-update")
    if "missing" in ans:
        t.append("missing-fluent-raised")
    if "usage" in ans:
        t.append("make_child-rejected")
    if any(op[0] == "eq" and a == "T" and op[1] != op[2] for op, a in zip(ops, ans)):
        t.append("eq-true-distinct-objects")
    if any(op[0] == "eq" and a == "F" for op, a in zip(ops, ans)):
        t.append("eq-false")
    return t


# ---------------------------------------------------------------------------------------------------
# the property itself, on the real code (written from the property text; no reference to the model)
# ---------------------------------------------------------------------------------------------------

_MISSING = "<raises>"


def oracle(payload):
    if not well_formed(payload):
        return None
    defaults, rl, bl, root, ops = parts(payload)
    if (lim(rl) is not None and lim(rl) < 1) or (lim(bl) is not None and lim(bl) < 1):
        return None    # limits must be > 0 (documented); the property says nothing here
    universe = [tuple(e) for e in FEXPS]
    for k, _ in root:
        if tuple(k) not in universe:
            universe.append(tuple(k))
    for op in ops:
        if op[0] == "child":
            for k, _ in op[2]:
                if tuple(k) not in universe:
                    universe.append(tuple(k))

    def expected(m, e):
        # most recent update along the history, else the fluent's default, else raises
        if e in m:
            return m[e]
        return defaults.get(e[0], _MISSING)

    def observed(s, e):
        try:
            return tok_of(s.get_value(fexp(list(e))))
        except UPStateMissingFluentError:
            return _MISSING

    def same(m1, m2):
        return all(expected(m1, e) == expected(m2, e) for e in universe)

    def check_state(i, when):
        for e in universe:
            got, exp = observed(states[i], e), expected(maps[i], e)
            if got != exp:
                return f"get_value: state {i} gives {list(e)} = {got}, expected {exp} ({when})"
        return None

    def check_pair(i, j, when):
        want = same(maps[i], maps[j])
        got = states[i] == states[j]
        if got != want:
            return f"eq: state {i} == state {j} is {got} but they give {'the same' if want else 'different'} values ({when})"
        if want and hash(states[i]) != hash(states[j]):
            return f"hash: states {i} and {j} give the same values but hash differently ({when})"
        return None

    with base_limit(bl):
        try:
            pb, s0 = mk(defaults, rl, root)
        except UPValueError as e:
            return f"constructor rejected a legal state: {e}"
        states, maps = [s0], [{tuple(k): v for k, v in root}]
        for n, op in enumerate(ops):
            k = op[0]
            if k == "child":
                i = int(op[1])
                try:
                    c = states[i].make_child({fexp(e): value(v) for e, v in op[2]})
                except UPValueError as e:
                    return f"make_child rejected a legal update: {e}"
                states.append(c)
                maps.append({**maps[i], **{tuple(e): v for e, v in op[2]}})
                # the new state and its parent, right away
                v = check_state(len(states) - 1, f"right after op {n}")
                if v:
                    return v
            elif k == "get":
                i, e = int(op[1]), tuple(op[2])
                got, exp = observed(states[i], e), expected(maps[i], e)
                if got != exp:
                    return f"get_value: state {i} gives {list(e)} = {got}, expected {exp} (op {n})"
            elif k == "hash":
                hash(states[int(op[1])])
            elif k in ("eq", "hasheq"):
                v = check_pair(int(op[1]), int(op[2]), f"op {n}")
                if v:
                    return v
            elif k == "repr":
                repr(states[int(op[1])])
        # every state, every fluent; every pair
        for i in range(len(states)):
            v = check_state(i, "end of history")
            if v:
                return v
        for i in range(len(states)):
            for j in range(i, len(states)):
                v = check_pair(i, j, "end of history") or (check_pair(j, i, "end of history") if i != j else None)
                if v:
                    return v
        for i in range(len(states)):
            v = check_state(i, "after the comparisons")
            if v:
                return v
    return None


# ---------------------------------------------------------------------------------------------------
# shrinking
# ---------------------------------------------------------------------------------------------------

def _refs(op):
    if op[0] in ("eq", "hasheq"):
        return [1, 2]
    return [1]


def _drop_op(ops, idx):
    """ops without ops[idx]; None if a later op needs the state it creates"""
    op = ops[idx]
    if op[0] != "child":
        return ops[:idx] + ops[idx + 1:]
    created = 1 + sum(1 for o in ops[:idx] if o[0] == "child")
    rest = []
    for o in ops[idx + 1:]:
        o = list(o)
        for p in _refs(o):
            v = int(o[p])
            if v == created:
                return None
            if v > created:
                o[p] = str(v - 1)
        rest.append(o)
    return ops[:idx] + rest


def shrink(payload):
    head = payload[:4]
    ops = payload[4][1:]
    # shorter histories first
    for cut in (len(ops) // 2, len(ops) - 1):
        if 0 <= cut < len(ops):
            yield head + [["ops"] + ops[:cut]]
    for idx in range(len(ops) - 1, -1, -1):
        r = _drop_op(ops, idx)
        if r is not None:
            yield head + [["ops"] + r]
    # smaller updates
    for idx, op in enumerate(ops):
        if op[0] == "child":
            for k in range(len(op[2])):
                new = [op[0], op[1], op[2][:k] + op[2][k + 1:]]
                yield head + [["ops"] + ops[:idx] + [new] + ops[idx + 1:]]
    root = payload[3][1:]
    for k in range(len(root)):
        yield payload[:3] + [["root"] + root[:k] + root[k + 1:], payload[4]]
    ds = payload[1][1:]
    for k in range(len(ds)):
        yield [payload[0], ["defaults"] + ds[:k] + ds[k + 1:]] + payload[2:]
    for simpler in (["limits", "none", "none"], ["limits", "1", "1"], ["limits", "20", "20"]):
        if payload[2] != simpler:
            yield payload[:2] + [simpler] + payload[3:]


MANIFEST = {
    "level_text": ("Lean 4 theorems (Props/C36.lean) about a heap model of UPState (objects with _values/_father/_ancestors/"
                   "cached _hash, in-place _condense_state on shared fathers, per-class ancestor limit None or n): an invariant "
                   "holds after every history of make_child/get_value/hash/==/repr calls; every call leaves the fluent->value "
                   "map of every existing state unchanged; make_child yields parent map overridden by the update under every "
                   "limit; get_value returns exactly that map (raising iff neither update nor default); == holds iff the maps "
                   "agree on every fluent, and then the hashed items coincide; the maps after any history equal those of a "
                   "pure finite-map reference semantics. The model is tied to the code by a differential correspondence check "
                   "on random branching histories (answers of every call plus peeks at _ancestors/chain depth/_values) with "
                   "limits 1,2,3,20,None for both the root's class and UPState, and a direct oracle of the property on the "
                   "real class."),
    "level_note": ("Trusted: Lean kernel; axioms as reported; the correspondence harness and Driver. Modelled not verified: "
                   "Python dict semantics, FNode hash-consing of constants (token equality), xor-of-item-hashes modelled as "
                   "the item set. Keys/values other than fluent expressions/constants are out of scope."),
    "technique": "Lean 4 proof (heap invariant + refinement to finite maps) + model/code correspondence",
    "design_ref": "DESIGN.md §5 C36",
}
