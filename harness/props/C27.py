"""C27 — Deordering a valid sequential plan keeps every linearisation valid."""
import signal
import warnings
from itertools import product
from unittest import mock

warnings.simplefilter("ignore")

import networkx as nx
from unified_planning.engines.plan_validator import SequentialPlanValidator
from unified_planning.engines.results import ValidationResultStatus
from unified_planning.exceptions import UPProblemDefinitionError, UPUsageError
from unified_planning.plans import ActionInstance, PlanKind, SequentialPlan

import pyden
import sexp
import simlib
import upp
import upx

ID = "C27"
GEN = []
CORR_NAME = "deorder-edges-linearisations-validity"
RULE = ("one case = one generated problem (upp.ProblemGen grammar as in C01: Boolean/int/real/object fluents with parameters, "
        "quantified and disjunctive conditions, conditional/forall assign/increase/decrease effects, bounded types, state "
        "invariants incl. ones coupling several fluents; ~25% with interpreted functions as tables) plus a plan of length "
        "<= 4 (quick) / <= 6 (thorough) found by a random walk of the REAL simulator from the initial state (each step "
        "applicable; ~12% of the walks take one arbitrary, usually inapplicable, step); the goals are replaced by 0-2 facts "
        "true in the final state (85%) or kept (15%, plan usually invalid). Compared on every case: UPUsageError or the edge "
        "set BEFORE nx.transitive_reduction (captured by wrapping that call), the edge set of the returned "
        "PartialOrderPlan, the number of all_sequential_plans(), the validator's verdict on the plan, and - for valid "
        "plans - how many linearisations the real SequentialPlanValidator accepts with the same final state on every "
        "ground fluent; the model also evaluates the decidable hypothesis `covers` of the main theorem, which must be "
        "true on every valid plan. Non-trivial = valid plan whose deordering has >= 2 linearisations.")
ASSUMPTIONS = [
    "plans are made of distinct ActionInstance objects (property text); graph nodes are positions in the plan",
    "plans whose conversion raises UPUsageError (a fluent inside the parameters of a fluent: documented restriction of "
    "_to_partial_order_plan) are compared on that verdict only; the property is silent about them",
    "validity = SequentialPlanValidator verdict VALID (every step applicable in turn from the initial state, goals hold at the end); "
    "'same final state' = same value (or both undefined) on every ground fluent of the problem",
    "clause 2 of the oracle reads 'reads' as: ground fluents in the instantiated preconditions, effect conditions, effect values "
    "and effect target arguments (quantifiers and forall effects expanded over the objects); 'writes' = ground effect targets",
    "divisors are non-zero constants, problems whose initial state violates their invariants are skipped, action / fluent / "
    "quantifier parameters are user-typed, no simulated effects (as for C01: the documented semantics is silent there)",
    "the model mirrors the code WITH notes/patches/C27-deorder-state-invariants.patch (D-C27: a step that writes a fluent "
    "of a state invariant reads all fluents of that invariant)",
    "generated problems have no quantifier over a user type without objects: there the grounder's simplifier (which unwraps "
    "a quantifier whose variable vanished, C11's open finding D-C11e) and the quantifier remover used by the deordering "
    "disagree, and the property fails on the real code (known finding D-C27-objectless-quantifier, witness replayed on every run)",
]
MODELLED = [
    "modelled by hand (tied by correspondence): SequentialPlan._to_partial_order_plan (lifted required fluents through "
    "ExpressionQuantifiersRemover + FreeVarsExtractor + Effect.expand_effect, nested-fluent check, substitution, "
    "simplification, last_modifier / all_required bookkeeping, edges), nx.transitive_reduction on DAGs, "
    "PartialOrderPlan.all_sequential_plans as 'all topological orderings'; plan execution = C01's simulator model "
    "(Core/Sim.lean) step by step",
    "the simplifier is a parameter of the theorems (property C11); networkx (DiGraph, transitive_reduction, "
    "all_topological_sorts) is modelled, not verified: its outputs are compared with the model's on every case",
    "SequentialPlanValidator itself is property C03's model; here validity is the chain of Sim.apply plus is_goal, compared "
    "with the real validator's verdict on every case and every linearisation",
]
BUDGET_S = {"quick": 40, "thorough": 420}
SEARCH_S = {"quick": 40, "thorough": 200}
WATCHDOG_S = 30
LIN_CAP = 120


class _Timeout(Exception):
    pass


def _alarm(signum, frame):
    raise _Timeout()


def _guard(f, *a):
    """a mutated /repo may loop: bound every call into the real code"""
    old = signal.signal(signal.SIGALRM, _alarm)
    signal.alarm(WATCHDOG_S)
    try:
        return f(*a)
    finally:
        signal.alarm(0)
        signal.signal(signal.SIGALRM, old)


# ------------------------------------------------------------------------------------------------
# the real code on one case
# ------------------------------------------------------------------------------------------------

class Run:
    """problem + plan of a payload, built with the real library"""

    def __init__(self, payload):
        _, ps, fn, plan = payload
        self.ps = ps
        self.real = simlib.Real(ps, fn[1:])
        self.P = self.real.P
        self.steps = [(s[0], list(s[1])) for s in plan[1:]]
        self.ais = [ActionInstance(self.P.action(an), tuple(self.real.params(args))) for an, args in self.steps]
        self.idx = {id(ai): i for i, ai in enumerate(self.ais)}
        self.plan = SequentialPlan(list(self.ais), self.P.environment)
        self.validator = SequentialPlanValidator(environment=self.P.environment)

    def convert(self):
        """(raw edges, reduced edges, partial order plan) or raises UPUsageError"""
        seen = {}
        orig = nx.transitive_reduction

        def spy(g, *a, **k):
            seen["raw"] = sorted((self.idx[id(u)], self.idx[id(v)]) for u, v in g.edges)
            return orig(g, *a, **k)
        with mock.patch.object(nx, "transitive_reduction", spy):
            pop = self.plan.convert_to(PlanKind.PARTIAL_ORDER_PLAN, self.P)
        red = sorted((self.idx[id(u)], self.idx[id(v)]) for u, v in pop._graph.edges)
        return seen.get("raw"), red, pop

    def validate(self, plan):
        """('T'|'F'|'raise'|'rejected', final dump or None)"""
        try:
            r = self.validator.validate(self.P, plan)
        except UPProblemDefinitionError:
            return "rejected", None
        except Exception:
            return "raise", None
        if r.status == ValidationResultStatus.VALID:
            return "T", self.real.dump(r.trace[-1])
        return "F", None

    def lin_indices(self, sp):
        return [self.idx[id(ai)] for ai in sp.actions]


def _edges(es):
    return [[str(i), str(j)] for i, j in es]


def _impl(payload):
    run = Run(payload)
    try:
        raw, red, pop = run.convert()
    except UPUsageError:
        return ["usage"]
    lins = []
    for sp in pop.all_sequential_plans():
        lins.append(sp)
        if len(lins) > 5000:
            break
    v, final = run.validate(run.plan)
    cov, lok = "-", "-"
    if v == "T":
        cov = "T"
        if len(lins) <= LIN_CAP:
            n = 0
            for sp in lins:
                v2, f2 = run.validate(sp)
                if v2 == "T" and f2 == final:
                    n += 1
            lok = str(n)
    return ["ok", ["n", str(len(run.ais))], ["raw"] + _edges(raw if raw is not None else []), ["red"] + _edges(red),
            ["nlin", str(len(lins))], ["valid", v], ["covers", cov], ["linok", lok]]


def impl(payload):
    try:
        return _guard(_impl, payload)
    except _Timeout:
        return ["crash", "timeout"]


# ------------------------------------------------------------------------------------------------
# the property itself on the real code
# ------------------------------------------------------------------------------------------------

def _ground_sets(ps, an, args):
    """(reads, writes) of the step as sets of ground fluents (name, objects), from the problem text; None when
    some fluent argument is not an object after instantiation (nested fluents: the conversion refuses them)"""
    act = [a for a in upp.get(ps, "actions") if a[1] == an][0]
    objtype = dict(map(tuple, upp.get(ps, "objects")))
    penv = {pn: ["o", o, objtype[o]] for (pn, _), o in zip(act[2], args)}

    def inst(e, venv):
        h = e[0]
        if h == "p":
            return penv[e[1]]
        if h == "v":
            return venv.get((e[1], pyden.key(e[2])), e)
        if h in ("b", "i", "r", "o"):
            return e
        if h in ("fl", "ifun"):
            return [h, e[1]] + [inst(a, venv) for a in e[2:]]
        if h in ("exists", "forall"):
            inner = {k: v for k, v in venv.items() if k not in [(n, pyden.key(t)) for n, t in e[1]]}
            return [h, e[1], inst(e[2], inner)]
        return [h] + [inst(a, venv) for a in e[1:]]

    bad = []

    def fluents(e, acc):
        h = e[0]
        if h in ("b", "i", "r", "o", "p", "v"):
            return
        if h == "fl":
            if all(a[0] == "o" for a in e[2:]):
                acc.add((e[1][0], tuple(a[1] for a in e[2:])))
            else:
                bad.append(e)
            for a in e[2:]:
                fluents(a, acc)
            return
        if h == "ifun":
            for a in e[2:]:
                fluents(a, acc)
            return
        for a in e[1:]:
            fluents(a, acc)

    reads, writes = set(), set()
    for c in act[3][1:]:
        fluents(simlib.expand_quantifiers(inst(c, {}), ps), reads)
    for e in act[4][1:]:
        _, _kind, f, v, c, vs = e
        doms = [upp.objects_of(ps, t[1]) for _, t in vs]
        for combo in product(*doms):
            venv = {(n, pyden.key(t)): ["o", o, objtype[o]] for (n, t), o in zip(vs, combo)}
            fi = inst(f, venv)
            if not all(a[0] == "o" for a in fi[2:]):
                bad.append(fi)
                continue
            writes.add((fi[1][0], tuple(a[1] for a in fi[2:])))
            for a in fi[2:]:
                fluents(a, reads)
            fluents(simlib.expand_quantifiers(inst(c, venv), ps), reads)
            fluents(simlib.expand_quantifiers(inst(v, venv), ps), reads)
    if bad:
        return None
    return reads, writes


def _oracle(payload):
    run = Run(payload)
    v, final = run.validate(run.plan)
    if v != "T":
        return None                       # the property speaks about valid plans
    try:
        _, red, pop = run.convert()
    except UPUsageError:
        return None                       # documented refusal (nested fluents)
    n = len(run.ais)
    orders = []
    for sp in pop.all_sequential_plans():
        order = run.lin_indices(sp)
        if sorted(order) != list(range(n)):
            return f"clause 1: a linearisation is not a permutation of the plan's action instances: {order}"
        orders.append(order)
        v2, f2 = run.validate(sp)
        if v2 != "T":
            return f"clause 1: linearisation {order} of the deordered plan is not valid ({v2})"
        if f2 != final:
            return f"clause 1: linearisation {order} reaches a different final state"
        if len(orders) >= 720:
            break
    if not orders:
        return "clause 1: the deordered plan has no linearisation"
    # PartialOrderPlan.convert_to(SEQUENTIAL_PLAN) returns one of the linearisations
    back = pop.convert_to(PlanKind.SEQUENTIAL_PLAN, run.P)
    order = run.lin_indices(back)
    if len(orders) < 720 and order not in orders:
        return f"clause 1: convert_to(SEQUENTIAL_PLAN) returns {order}, which is not among all_sequential_plans()"
    v2, f2 = run.validate(back)
    if v2 != "T" or f2 != final:
        return f"clause 1: the sequential plan {order} returned by convert_to(SEQUENTIAL_PLAN) is not valid / ends elsewhere"
    sets = [_ground_sets(run.ps, an, args) for an, args in run.steps]
    if any(s is None for s in sets):
        return None
    for i in range(n):
        for j in range(i + 1, n):
            (ri, wi), (rj, wj) = sets[i], sets[j]
            if (wi & (rj | wj)) or (wj & (ri | wi)):
                for order in orders:
                    if order.index(i) > order.index(j):
                        return (f"clause 2: steps {i} and {j} conflict on {sorted((wi & (rj | wj)) | (wj & (ri | wi)))[:2]} "
                                f"but the linearisation {order} swaps them")
    return None


def oracle(payload):
    try:
        return _guard(_oracle, payload)
    except _Timeout:
        return "the real code did not return within %d s" % WATCHDOG_S


# ------------------------------------------------------------------------------------------------
# generation
# ------------------------------------------------------------------------------------------------

def _with_goals(ps, goals):
    out = []
    for sec in ps:
        if isinstance(sec, list) and sec and sec[0] == "goals":
            out.append(["goals"] + goals)
        else:
            out.append(sec)
    return out


def _fact(rng, real, ref, objs, val):
    objtype = real.objtype
    fe = ["fl", ref] + [["o", o, objtype[o]] for o in objs]
    if val == "undef":
        return None
    if val[0] == "b":
        return fe if val[1] == "T" else ["not", fe]
    if val[0] == "n":
        c = ["i", val[1]] if "/" not in val[1] else ["r", val[1]]
        return rng.choice([["eq", fe, c], ["le", fe, c], ["le", c, fe]])
    return ["eq", fe, ["o", val[1], objtype[val[1]]]]


def gen_problem(rng):
    """simlib.gen_problem (C01's canonical problems) with, in 60% of the cases, 3-5 SMALL actions (<= 1 precondition,
    <= 2 effects) instead of 1-3 big ones, so that plans have steps that do not touch one another"""
    g = upp.ProblemGen(rng, undefined=rng.random() < 0.4, invariants=True, metrics=False)
    g.eg.empty_type = False       # no quantifier over the object-less type E: known finding D-C27-objectless-quantifier
    ps = g.problem()
    if rng.random() < 0.6:
        acts = []
        for i in range(rng.choice([3, 4, 4, 5])):
            a = g.action(i)
            pre = a[3][1:][: rng.choice([0, 1, 1])]
            effs = a[4][1:][: rng.choice([1, 1, 2])]
            acts.append(["action", a[1], a[2], ["pre"] + pre, ["effs"] + effs])
        ps = [(["actions"] + acts) if (isinstance(sec, list) and sec and sec[0] == "actions") else sec for sec in ps]
    if rng.random() < 0.25:
        ps = simlib.inject_ifuns(rng, ps)
    if rng.random() < 0.35:
        ps = [(sec + simlib.extra_invariants(rng, g)) if (isinstance(sec, list) and sec and sec[0] == "traj") else sec
              for sec in ps]
    flags = {}
    ps = simlib.normalise_problem(ps, flags)
    if flags.get("exists-eq") and not simlib.SIMPLIFIER_REPAIRED:
        return None
    try:
        P, _ = upp.build_problem(ps)
        canon = upp.enc_problem(P)
    except Exception:
        return None
    flags2 = {}
    if simlib.normalise_problem(canon, flags2) != canon or (flags2.get("exists-eq") and not simlib.SIMPLIFIER_REPAIRED):
        return None
    return canon


def _independent(ps, a, b):
    sa, sb = _ground_sets(ps, *a), _ground_sets(ps, *b)
    if sa is None or sb is None:
        return False
    (ra, wa), (rb, wb) = sa, sb
    return not (wa & (rb | wb)) and not (wb & (ra | wa))


def coupling_case(rng):
    """adversarial family for D-C27: two steps that write DIFFERENT fluents of one state invariant which is tight in the
    initial state (numeric x + xb <= K, or Boolean b0 | !b1), plus 0-2 steps on unrelated fluents; the plan is valid in the
    given order only"""
    g = upp.ProblemGen(rng, undefined=False, invariants=False)
    FL = g.FL
    fl = lambda n, *a: ["fl", FL[n]] + list(a)
    eff = lambda kind, f, v, c=None: ["eff", kind, f, v, c or ["b", "T"], []]
    act = lambda name, pre, effs: ["action", name, [], ["pre"] + pre, ["effs"] + effs]
    numeric = rng.random() < 0.6
    d2 = rng.choice([1, 2, 3])
    d1 = rng.randint(1, d2)
    x0, b0 = rng.choice([0, 1, 2]), rng.choice([3, 4])
    init = {"b0": ["b", "T"], "b1": ["b", "T"], "bq": ["b", "F"], "x": ["i", str(x0)], "xb": ["i", str(b0)],
            "xq": ["i", "0"], "z": ["i", "0"], "zb": ["i", "1"], "at": ["o", "t1", "T"], "own": ["o", "s1", "S"]}
    if numeric:
        first = act("down", [], [eff("decrease", fl("xb"), ["i", str(d2)])])
        second = act("up", [], [eff("increase", fl("x"), ["i", str(d1)])])
        traj = [["always", ["le", ["plus", fl("x"), fl("xb")], ["i", str(x0 + b0)]]]]
        goals = [["eq", fl("x"), ["i", str(x0 + d1)]]]
    else:
        first = act("down", [], [eff("assign", fl("b1"), ["b", "F"])])
        second = act("up", [["le", fl("z"), ["i", "5"]]], [eff("assign", fl("b0"), ["b", "F"])])
        traj = [["always", ["or", fl("b0"), ["not", fl("b1")]]]]
        goals = [["not", fl("b0")]]
    others = [act("o1", [], [eff("increase", fl("z"), ["r", "1/2"])]),
              act("o2", [["le", fl("zb"), ["i", "2"]]], [eff("assign", fl("bq", ["o", "s1", "S"]), ["b", "T"])]),
              act("o3", [], [eff("assign", fl("at"), ["o", "s2", "S"], fl("bq", ["o", "t1", "T"]))])]
    rng.shuffle(others)
    extra = others[: rng.choice([0, 1, 1, 2])]
    ps = ["problem", "coupling", ["types"] + g.TYPES, ["objects"] + g.OBJECTS,
          ["fluents"] + [[FL[n], init[n]] for n in FL], ["init"],
          ["actions"] + [first, second] + extra, ["goals"] + goals, ["traj"] + traj, ["metrics"]]
    P, _ = upp.build_problem(ps)
    ps = upp.enc_problem(P)
    steps = [["down", []], ["up", []]]
    for a in extra:
        steps.insert(rng.randint(0, len(steps)), [a[1], []])
    return ["deorder", ps, ["fn"], ["plan"] + steps]


def quantified_case(rng):
    """adversarial family: a step that reads ground fluents only THROUGH a quantifier (precondition, condition of a
    conditional effect) or writes them through a forall effect, next to steps that write / read single instances"""
    g = upp.ProblemGen(rng, undefined=False, invariants=False)
    FL = g.FL
    fl = lambda n, *a: ["fl", FL[n]] + list(a)
    S, T = ["user", "S"], ["user", "T"]
    v = lambda n, t: ["v", n, t]
    p = lambda n, t: ["p", n, t]
    eff = lambda kind, f, val, c=None, vs=None: ["eff", kind, f, val, c or ["b", "T"], vs or []]
    init = {"b0": ["b", "T"], "b1": ["b", "F"], "bq": ["b", "F"], "x": ["i", "0"], "xb": ["i", "0"],
            "xq": ["i", "0"], "z": ["i", "0"], "zb": ["i", "1"], "at": ["o", "t1", "T"], "own": ["o", "s1", "S"]}
    readers = [
        ["action", "r", [], ["pre", ["forall", [["k", S]], ["not", fl("bq", v("k", S))]]], ["effs", eff("increase", fl("z"), ["i", "1"])]],
        ["action", "r", [], ["pre", ["not", ["exists", [["k", T]], fl("bq", v("k", T))]]], ["effs", eff("assign", fl("b1"), ["b", "T"])]],
        ["action", "r", [], ["pre", ["forall", [["k", S]], ["le", fl("xq", v("k", S)), ["i", "0"]]]], ["effs", eff("increase", fl("x"), ["i", "1"])]],
        ["action", "r", [], ["pre"], ["effs", eff("assign", fl("b0"), ["b", "F"], ["exists", [["k", S]], fl("bq", v("k", S))])]],
        ["action", "r", [], ["pre"], ["effs", eff("assign", fl("at"), ["o", "s2", "S"], ["forall", [["k", S]], ["le", ["i", "1"], fl("xq", v("k", S))]])]],
        ["action", "r", [], ["pre"], ["effs", eff("assign", fl("bq", v("w", S)), ["b", "F"], None, [["w", S]])]],
        ["action", "r", [], ["pre"], ["effs", eff("increase", fl("xq", v("w", S)), ["i", "1"], ["not", fl("bq", v("w", S))], [["w", S]])]],
    ]
    writers = [
        ["action", "w", [["p0", S]], ["pre"], ["effs", eff("assign", fl("bq", p("p0", S)), ["b", "T"])]],
        ["action", "w", [["p0", S]], ["pre"], ["effs", eff("increase", fl("xq", p("p0", S)), ["i", "1"])]],
        ["action", "w", [["p0", S]], ["pre", ["not", fl("bq", p("p0", S))]], ["effs", eff("assign", fl("b1"), ["b", "T"])]],
        ["action", "w", [["p0", S]], ["pre"], ["effs", eff("assign", fl("own", p("p0", S)), ["o", "t1", "T"], ["le", fl("xq", p("p0", S)), ["i", "0"]])]],
    ]
    other = ["action", "o", [], ["pre"], ["effs", eff("increase", fl("zb"), ["r", "1/2"])]]
    R, Wr = rng.choice(readers), rng.choice(writers)
    ps = ["problem", "quantified", ["types"] + g.TYPES, ["objects"] + g.OBJECTS,
          ["fluents"] + [[FL[n], init[n]] for n in FL], ["init"], ["actions", R, Wr, other], ["goals"], ["traj"], ["metrics"]]
    P, _ = upp.build_problem(ps)
    ps = upp.enc_problem(P)
    pool = [["r", []], ["w", ["s1"]], ["w", ["s2"]], ["o", []]]
    best = None
    for _ in range(8):
        n = rng.randint(2, 4)
        steps = [rng.choice(pool) for _ in range(n)]
        if not any(st[0] == "r" for st in steps) or not any(st[0] == "w" for st in steps):
            continue
        c = ["deorder", ps, ["fn"], ["plan"] + steps]
        best = best or c
        try:
            if Run(c).validate(Run(c).plan)[0] == "T":
                return c
        except Exception:
            continue
    return best or ["deorder", ps, ["fn"], ["plan", ["r", []], ["w", ["s1"]]]]


def make_case(rng, tier, maxlen=None):
    maxlen = maxlen or (4 if tier == "quick" else 6)
    k = rng.random()
    if k < 0.07:
        return coupling_case(rng)
    if k < 0.17:
        return quantified_case(rng)
    while True:
        ps = gen_problem(rng)
        if ps is None:
            continue
        keep_goals = rng.random() < 0.15
        base = ps if keep_goals else _with_goals(ps, [])
        fns = simlib.gen_tables(rng) if simlib.uses_ifuns(base) else []
        try:
            real = simlib.make_real(base, fns)
        except simlib.Skip:
            continue
        except Exception:
            continue
        if not real.instances:
            continue
        try:
            s = real.sim.get_initial_state()
        except Exception:
            continue
        n = rng.randint(2, maxlen)
        wild = rng.random() < 0.12
        steps = []
        dead = False
        for k in range(n):
            cands = list(real.instances)
            rng.shuffle(cands)
            chosen = None
            if wild and k == n // 2:
                chosen = cands[0]
            else:
                # prefer (70%) a step that does not touch what the previous step touched
                prefer = bool(steps) and rng.random() < 0.7
                fallback = None
                for an, args in cands:
                    try:
                        ok = real.sim.is_applicable(s, real.P.action(an), real.params(args))
                    except Exception:
                        ok = False
                    if simlib.REPLACE_DIRTY_SIM and real.dirty(real.sim):
                        real.new_sim()
                    if ok:
                        if not prefer or _independent(base, steps[-1], (an, args)):
                            chosen = (an, args)
                            break
                        if fallback is None:
                            fallback = (an, args)
                if chosen is None:
                    chosen = fallback
            if chosen is None:
                break
            steps.append(chosen)
            try:
                s2 = real.sim.apply(s, real.P.action(chosen[0]), real.params(chosen[1]))
            except Exception:
                s2 = None
            if s2 is None:
                dead = True
                # keep going from the same state: the plan is invalid anyway
            else:
                s = s2
        if len(steps) < 2:
            continue
        out = base
        if not keep_goals and not dead:
            dump = real.dump(s)
            facts = []
            keys = list(zip(real.keys, dump[1:]))
            rng.shuffle(keys)
            for (ref, objs), val in keys[: rng.choice([0, 1, 1, 2])]:
                f = _fact(rng, real, ref, objs, val)
                if f is not None:
                    facts.append(f)
            out = _with_goals(base, facts)
            try:
                P2, _ = upp.build_problem(out)
                out = upp.enc_problem(P2)
            except Exception:
                out = base
        return ["deorder", out, ["fn"] + fns, ["plan"] + [[an, list(args)] for an, args in steps]]


def _objectless_quantifier(ps):
    found = []

    def look(e):
        if isinstance(e, list) and e:
            if e[0] in ("exists", "forall") and len(e) == 3 and isinstance(e[1], list):
                for v in e[1]:
                    if isinstance(v, list) and len(v) == 2 and isinstance(v[1], list) and v[1][0] == "user" \
                            and not upp.objects_of(ps, v[1][1]):
                        found.append(v)
            for x in e:
                look(x)
    look(upp.get(ps, "actions"))
    look(upp.get(ps, "traj"))
    return bool(found)


def known_cause(payload):
    """D-C27-objectless-quantifier (= C11's open finding D-C11e seen through the grounder): the grounder's simplifier
    unwraps a quantifier whose variable does not occur in its body, the quantifier remover used by the deordering expands
    it over the (empty) object set; over a type without objects the two disagree, so the grounded action reads fluents the
    deordering never sees"""
    return "D-C27-objectless-quantifier" if _objectless_quantifier(payload[1]) else None


def cases(rng, tier):
    n = 260 if tier == "quick" else 3200
    for _ in range(n):
        yield make_case(rng, tier)


def search(rng, tier):
    while True:
        yield make_case(rng, "thorough", maxlen=5)


def _field(ans, name):
    if isinstance(ans, list):
        for x in ans[1:]:
            if isinstance(x, list) and x and x[0] == name:
                return x[1:]
    return None


def nontrivial(payload, ans):
    v, nl = _field(ans, "valid"), _field(ans, "nlin")
    return bool(v and nl and v[0] == "T" and int(nl[0]) >= 2)


def stats(payload, ans):
    if not isinstance(ans, list) or not ans:
        return ["answer:other"]
    if ans[0] != "ok":
        return ["answer:" + str(ans[0])]
    n = int(_field(ans, "n")[0])
    nl = int(_field(ans, "nlin")[0])
    raw, red = _field(ans, "raw"), _field(ans, "red")
    out = ["len:%d" % n, "valid:" + _field(ans, "valid")[0],
           "nlin:" + ("1" if nl == 1 else "2-5" if nl <= 5 else "6-23" if nl < 24 else "24+")]
    if len(raw) != len(red):
        out.append("reduction-removes-edges")
    if not raw:
        out.append("no-edges")
    ps = payload[1]
    if upp.get(ps, "traj"):
        out.append("state-invariants")
    txt = sexp.dumps(upp.get(ps, "actions"))
    if "(forall" in txt or "(exists" in txt:
        out.append("quantified-conditions")
    if simlib.uses_ifuns(ps):
        out.append("interpreted-functions")
    lk = _field(ans, "linok")
    if lk and lk[0] != "-" and _field(ans, "valid")[0] == "T":
        out.append("all-linearisations-validated")
    return out


def shrink(payload):
    _, ps, fn, plan = payload
    steps = plan[1:]
    # drop one step
    if len(steps) > 2:
        for i in range(len(steps)):
            yield ["deorder", ps, fn, ["plan"] + steps[:i] + steps[i + 1:]]

    def rebuild(ps2):
        arity = {a[1]: len(a[2]) for a in upp.get(ps2, "actions")}
        if any(arity.get(an) != len(args) for an, args in steps):
            return None
        return ["deorder", ps2, fn, plan]
    try:
        yield from simlib.shrink_problem(["sim", ps, fn, ["ops"]], lambda p: rebuild(p))
    except Exception:
        return


MANIFEST = {
    "level_text": ("Lean 4 theorems (Props/C27.lean) about an executable model of SequentialPlan._to_partial_order_plan "
                   "(Core/Deorder.lean: read/write sets computed on the problem syntax exactly as the repaired code does, the "
                   "last_modifier / all_required bookkeeping, nx.transitive_reduction, topological orderings) on top of C01's "
                   "simulator model, for EVERY world, plan length and plan, with no size bound: (1) two grounded steps whose "
                   "footprints do not overlap commute in every state satisfying the invariants (same applicability, same result); "
                   "(2) every two steps in write/read-or-write conflict are joined by a path of the graph, before and after the "
                   "transitive reduction, hence keep their order in every topological ordering, and every edge joins two "
                   "conflicting steps; (3) every topological ordering of the (reduced) graph of a valid plan is executable step by "
                   "step, satisfies the goals and ends in a state that reads like the original final state on every ground fluent - "
                   "proved under the decidable hypothesis `covers`. The model is tied to /repo on every run by a differential check "
                   "of UPUsageError, the raw and reduced edge sets, the number of linearisations, the validator's verdict on the "
                   "plan and on EVERY linearisation (same final state), and `covers` is evaluated on every valid case; an oracle "
                   "written from the property text (all_sequential_plans + SequentialPlanValidator + independent read/write sets) "
                   "runs on every case."),
    "level_note": ("PARTIAL for clause (3): the unconditional statement is C27_all_linearisations_full and is REFUTED by a "
                   "kernel-checked witness (C27_all_linearisations_full_refuted): a quantifier over a user type without objects "
                   "is unwrapped by the grounder's simplifier but expanded to a constant by the quantifier remover the deordering "
                   "uses, so the grounded action reads a fluent the deordering never sees - this is C11's open finding D-C11e seen "
                   "through the grounder and reproduces on the real code (known finding D-C27-objectless-quantifier; generators "
                   "stay out of it). `covers` (footprints cover every read/write of the grounded, simplified actions and of the "
                   "simulator's invariants; keys are ground and in 1-1 correspondence with state keys) excludes exactly that; it "
                   "is not proved to follow from the computation of the footprints (needs facts about the simplifier, a parameter "
                   "here), it is checked on every case instead. D-C27 (state invariants coupling fluents written by different "
                   "steps) is repaired by notes/patches/C27-deorder-state-invariants.patch and the model mirrors the repair. "
                   "Trusted: Lean kernel; axioms propext, Classical.choice, Quot.sound; the correspondence harness; networkx's "
                   "graph algorithms and SequentialPlanValidator (C03) are modelled, not verified."),
    "technique": "Lean 4 proof (footprint commutation + linear extensions of a DAG by adjacent swaps) + model/code correspondence",
    "design_ref": "DESIGN.md §5 C27",
}
