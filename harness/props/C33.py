"""C33 — ProblemKind ordering is a lattice consistent with equality and hashing."""
import hashlib
import random
import warnings

warnings.simplefilter("ignore")
from unified_planning.model.problem_kind import ProblemKind, all_features
from unified_planning.model.problem_kind_versioning import FEATURES_VERSIONS, LATEST_PROBLEM_KIND_VERSION

ID = "C33"
GEN = ["Features"]
CORR_NAME = "eq-le-hash-union-intersection"
RULE = ("pairs of kinds over random feature subsets (deprecated and late-added features over-sampled), versions "
        "None/1..latest, with related pairs (subset, equal-modulo-deprecated) planted; ~8% ill-formed kinds "
        "(feature newer than the declared version) to exercise the constructor's rejection. Non-trivial = the pair is "
        "accepted and (a<=b or b<=a or a==b) holds with at least one non-empty operand, or the versions differ.")
ASSUMPTIONS = ["ProblemKind objects are rebuilt for every query (the real __le__ strips invalid features in place)",
               "hash equality is compared as an equality pattern; a 64-bit collision of string-hash sums is ignored"]
MODELLED = ["modelled by hand (tied by correspondence): ProblemKind.__eq__/__le__/__hash__/union/intersection/version, "
            "get_valid_features, equalize_versions; regenerated from source: FEATURES, FEATURES_VERSIONS, upgrade_* rules"]

FEATS = sorted(all_features)
SPECIAL = sorted(FEATURES_VERSIONS.keys()) + ["ACTIONS_COST", "OVERSUBSCRIPTION", "CONTINUOUS_TIME", "DISCRETE_TIME"]
VERSIONS = [None] + list(range(1, LATEST_PROBLEM_KIND_VERSION + 1))


def added(f):
    return FEATURES_VERSIONS.get(f, (1, None))[0]


def rand_feats(rng):
    k = rng.choice([0, 1, 2, 3, 5, 8])
    pool = SPECIAL if rng.random() < 0.6 else FEATS
    fs = set(rng.choice(pool) for _ in range(k))
    if rng.random() < 0.3:
        fs |= set(rng.choice(FEATS) for _ in range(rng.randint(1, 4)))
    return fs


def rand_kind(rng, malformed_ok=True):
    fs = rand_feats(rng)
    v = rng.choice(VERSIONS)
    if v is not None and not (malformed_ok and rng.random() < 0.08):
        need = max([added(f) for f in fs] + [1])
        if need > v:
            v = rng.choice([x for x in VERSIONS if x is not None and x >= need])
    return (fs, v)


def enc(k):
    fs, v = k
    return ["k", sorted(fs), "none" if v is None else str(v)]


def dec(e):
    return (set(e[1]), None if e[2] == "none" else int(e[2]))


def mk(k):
    fs, v = k
    return ProblemKind(fs, version=v)


def cases(rng, tier):
    n = 400 if tier == "quick" else 20000
    for _ in range(n):
        a = rand_kind(rng)
        r = rng.random()
        if r < 0.3:
            b = rand_kind(rng)
        elif r < 0.55:   # superset, same declared version
            b = (set(a[0]) | rand_feats(rng), a[1])
            if b[1] is not None and any(added(f) > b[1] for f in b[0]):
                b = (set(f for f in b[0] if added(f) <= b[1]), b[1])
        elif r < 0.75:   # equal modulo deprecated features
            dep = [f for f, (ad, d) in FEATURES_VERSIONS.items() if d is not None]
            b = (set(a[0]) ^ set(rng.sample(dep, rng.randint(1, len(dep)))), a[1])
        elif r < 0.9:    # same features, other version
            b = (set(a[0]), rng.choice(VERSIONS))
        else:
            b = (set(a[0]), a[1])
        if rng.random() < 0.5:
            a, b = b, a
        yield ["pair", enc(a), enc(b)]


def kind_out(k):
    return ["k", sorted(k.features), "none" if k._version is None else str(k._version)]


def impl(payload):
    a, b = dec(payload[1]), dec(payload[2])
    try:
        mk(a), mk(b)
    except AssertionError:
        return "reject"
    B = lambda x: "T" if x else "F"
    return [["ver", str(mk(a).version), str(mk(b).version)],
            ["eq", B(mk(a) == mk(b))],
            ["le", B(mk(a) <= mk(b)), B(mk(b) <= mk(a))],
            ["hasheq", B(hash(mk(a)) == hash(mk(b)))],
            ["union", kind_out(mk(a).union(mk(b)))],
            ["inter", kind_out(mk(a).intersection(mk(b)))]]


def nontrivial(payload, ans):
    if ans == "reject":
        return False
    d = {x[0]: x[1:] for x in ans}
    nonempty = bool(payload[1][1]) or bool(payload[2][1])
    return (nonempty and ("T" in d["le"] or d["eq"] == ["T"])) or d["ver"][0] != d["ver"][1]


def stats(payload, ans):
    if ans == "reject":
        return ["reject"]
    d = {x[0]: x[1:] for x in ans}
    t = ["ver" + d["ver"][0] + "-" + d["ver"][1]]
    if d["eq"] == ["T"]:
        t.append("eq")
    if d["le"][0] == "T":
        t.append("a<=b")
    if d["le"][1] == "T":
        t.append("b<=a")
    return t


def oracle(payload):
    """The property's own statement, evaluated on the real class for this pair plus derived third kinds."""
    a, b = dec(payload[1]), dec(payload[2])
    try:
        mk(a), mk(b)
    except AssertionError:
        return None
    rng = random.Random(int(hashlib.sha1(repr((sorted(a[0]), a[1], sorted(b[0]), b[1])).encode()).hexdigest()[:8], 16))
    if not (mk(a) <= mk(a)) or not (mk(b) <= mk(b)):
        return "reflexivity"
    va, vb = mk(a).version, mk(b).version
    if va == vb:
        if ((mk(a) <= mk(b)) and (mk(b) <= mk(a))) != (mk(a) == mk(b)):
            return "antisymmetry: (a<=b and b<=a) differs from a==b"
        u, i = mk(a).union(mk(b)), mk(a).intersection(mk(b))
        ufs, ifs = (set(u.features), u._version), (set(i.features), i._version)
        if not (mk(a) <= mk(ufs) and mk(b) <= mk(ufs)):
            return "union is not an upper bound"
        if not (mk(ifs) <= mk(a) and mk(ifs) <= mk(b)):
            return "intersection is not a lower bound"
        cs = []
        for _ in range(4):
            fs = set(a[0]) | set(b[0]) if rng.random() < 0.5 else set(a[0]) & set(b[0])
            fs = set(f for f in (fs ^ rand_feats(rng)) if added(f) <= va)
            cs.append((fs, va))
        cs += [a, b, ufs, ifs]
        for c in cs:
            if mk(c).version != va:
                continue
            if mk(a) <= mk(c) and mk(b) <= mk(c) and not (mk(ufs) <= mk(c)):
                return f"union is not the least upper bound (c={enc(c)})"
            if mk(c) <= mk(a) and mk(c) <= mk(b) and not (mk(c) <= mk(ifs)):
                return f"intersection is not the greatest lower bound (c={enc(c)})"
            if mk(a) <= mk(b) and mk(b) <= mk(c) and not (mk(a) <= mk(c)):
                return f"transitivity (c={enc(c)})"
            if mk(c) <= mk(a) and mk(a) <= mk(b) and not (mk(c) <= mk(b)):
                return f"transitivity (c={enc(c)})"
        if mk(a) <= mk(b):
            for w in range(va + 1, LATEST_PROBLEM_KIND_VERSION + 1):
                e = ProblemKind(version=w)
                ua, ub = mk(a).union(e), mk(b).union(ProblemKind(version=w))
                if not (ua <= ub):
                    return f"upgrading to version {w} does not preserve a<=b"
    if mk(a) == mk(b) and hash(mk(a)) != hash(mk(b)):
        return "equal kinds with different hashes"
    if va < vb:
        # comparing upgrades the older operand
        up = mk(a).union(ProblemKind(version=vb))
        if (mk(a) <= mk(b)) != (up <= mk(b)):
            return "a<=b differs from upgrade(a)<=b"
    return None


def shrink(payload):
    a, b = payload[1], payload[2]
    for idx, k in ((1, a), (2, b)):
        for f in k[1]:
            nk = ["k", [g for g in k[1] if g != f], k[2]]
            out = list(payload)
            out[idx] = nk
            yield out
    for f in set(a[1]) & set(b[1]):
        yield ["pair", ["k", [g for g in a[1] if g != f], a[2]], ["k", [g for g in b[1] if g != f], b[2]]]

MANIFEST = {
    "level_text": ("Lean 4 theorems (Props/C33.lean) prove, for every feature/version/upgrade table of the accepted shape and "
                   "all kinds: <= reflexive/transitive/antisymmetric w.r.t. == on one version, union/intersection are lub/glb, "
                   "== implies equal hash keys, and every rule-list upgrade preserves <= (table side conditions re-decided by "
                   "`decide` on the tables regenerated from /repo on every run). The hand-written comparison functions are "
                   "tied to the code by a differential correspondence check plus a direct oracle of the property on the real class."),
    "level_note": ("Trusted: Lean kernel; axioms propext, Quot.sound; harness/translate.py; the correspondence harness. "
                   "Modelled not verified: Python set semantics, str hashing."),
    "technique": "Lean 4 proof over regenerated tables + model/code correspondence",
    "design_ref": "DESIGN.md §5 C33",
}
