"""C01 — Sequential simulator computes exactly the documented successor semantics."""
import warnings

warnings.simplefilter("ignore")

import sexp
import simlib

ID = "C01"
GEN = []
CORR_NAME = "apply-successor-applicability-goal"
RULE = ("one case = one generated problem (upp.ProblemGen grammar: Boolean/int/real/object fluents with parameters, types "
        "T>S,U, quantified and disjunctive conditions, conditional/forall assign/increase/decrease effects, Boolean "
        "delete+add pairs, same-value double assignments, aliasing through equal parameters, bounded types, state "
        "invariants (ProblemGen's + 8 more shapes on fluents the effects write), ~8% undefined fluents) explored breadth-first "
        "with the REAL simulator to depth 3 (quick; <= 8 states) / 5 (thorough; <= 24 states): for every reachable state a dump of "
        "all ground fluents, is_goal, get_unsatisfied_goals, get_applicable_actions and, for EVERY ground action instance, "
        "is_applicable and apply (None | full successor map). Non-trivial = some (state, instance) pair fires >= 2 effects on "
        "one ground fluent, or touches a bounded/invariant fluent, or reads an undefined fluent.")
ASSUMPTIONS = [
    "divisors are non-zero constants (DESIGN 2.11): ZeroDivisionError escapes from the simulator and the documented semantics is silent",
    "problems whose initial state violates their own invariants are rejected by get_initial_state (documented) and skipped",
    "problems outside UPSequentialSimulator.supported_kind() are skipped (e.g. And/Forall of Always is TRAJECTORY_CONSTRAINTS)",
    "action, fluent and quantifier parameters are user-typed (objects); Boolean / bounded-integer parameters are not generated",
    "no simulated effects; interpreted functions (g : int -> int, gb : int -> bool, in ~30% of the problems) are total tables over "
    "the range of their bounded-integer arguments, shipped with the case (user callables themselves are not modelled)",
    "grounding is the grounder's documented contract: instances with statically conflicting unconditional effects or "
    "preconditions simplifying to FALSE are invalid (None) even if the conflicting values coincide in a particular state",
    "multi-variable Exists are written nested: Simplifier.walk_exists rebuilds its variable list from a Python set, so its "
    "iteration order (observable through early exit over undefined fluents) is hash-dependent",
    "the grounder's simplifier in the driver is property C11's verified model of the REPAIRED simplifier "
    "(notes/patches/C11-simplifier-soundness.patch); on a tree without that patch (auto-detected) Exists whose body has an "
    "`x == t` conjunct on the bound variable are kept out (D-C11b/c/d)",
    "a condition that reads an undefined fluent only in instances an early-exit quantifier never reaches may be satisfied "
    "(the evaluator documents the early exit); the oracle accepts both readings there",
    "integer constants stay below 2**53 (Simplifier.walk_div float division, D-C11a, is repaired by C11's patch)",
    "until DagWalker.walk restores its stack/memo after an exception (C14's patch, auto-detected) the runner swaps in a fresh "
    "simulator after a failed evaluation and does not compare a get_applicable_actions call that died on the stale stack",
]
MODELLED = [
    "modelled by hand (tied by correspondence): UPSequentialSimulator (constructor invariants, _get_initial_state, _apply, "
    "apply_unsafe, _evaluate_effects, _evaluate_effect, get_unsatisfied_conditions, _is_applicable, _get_applicable_actions, "
    "get_unsatisfied_goals, _is_goal), StateEvaluator/QuantifierSimplifier evaluation incl. early exit, UPState.get_value/"
    "make_child as a finite map, GrounderHelper.ground_action/create_action_with_given_subs, Effect.__init__/expand_effect, "
    "check_conflicting_effects, ExpressionQuantifiersRemover, get_all_fluent_exp",
    "the simplifier is a parameter of the theorems; the driver instantiates it with property C11's model "
    "(Core/Walkers/Simplify.lean) configured like env.simplifier (no problem, no static fluents)",
    "not modelled: simulated effects, user callables of interpreted functions, Python dict/set, Fraction",
]
BUDGET_S = {"quick": 45, "thorough": 300}
SEARCH_S = {"quick": 40, "thorough": 200}

_cache = {}


def _analysis(payload):
    k = sexp.dumps(payload)
    if k not in _cache:
        if len(_cache) > 4000:
            _cache.clear()
        try:
            _cache[k] = simlib.analyse(payload)
        except simlib.Skip:
            _cache[k] = (None, set(), None)
    return _cache[k]


def make_case(rng, tier):
    depth, cap = (3, 8) if tier == "quick" else (5, 24)
    while True:
        ps = simlib.gen_problem(rng)
        if ps is None:
            continue
        fns = simlib.gen_tables(rng) if simlib.uses_ifuns(ps) else []
        try:
            real = simlib.make_real(ps, fns)
        except simlib.Skip:
            continue
        return simlib.payload(ps, simlib.bfs_ops(real, depth, cap), fns)


def cases(rng, tier):
    n = 150 if tier == "quick" else 3000
    for _ in range(n):
        yield make_case(rng, tier)


def impl(payload):
    real = simlib.Real(payload[1], payload[2][1:])
    return real.run(payload[3][1:])[0]


compare = simlib.compare


def nontrivial(payload, ans):
    tags = _analysis(payload)[1]
    return bool(tags & {"multi-effect-on-one-fluent", "bounded-fluent-touched", "invariant-fluent-touched", "undefined-read"})


def stats(payload, ans):
    tags = sorted(_analysis(payload)[1])
    ops = payload[3][1:]
    n_apply = sum(1 for o in ops if o[0] == "apply")
    n_states = sum(1 for o in ops if o[0] == "dump")
    out = list(tags)
    out.append("pairs:%s" % ("1-9" if n_apply < 10 else "10-49" if n_apply < 50 else "50+"))
    out.append("states:%s" % ("1" if n_states <= 1 else "2-4" if n_states <= 4 else "5+"))
    if any(a == simlib.TOLERATED for a in ans if isinstance(ans, list)):
        out.append("tolerated:d-c14a")
    return out


def oracle(payload):
    """the property itself on the real code: every apply / is_applicable / is_goal answer against an independent
    set-based implementation of the documented semantics (simlib.spec_successor, pyden evaluation)"""
    return _analysis(payload)[0]


def shrink(payload):
    fns = payload[2][1:]

    def rebuild(ps):
        try:
            real = simlib.make_real(ps, fns)
        except simlib.Skip:
            return None
        return simlib.payload(ps, simlib.bfs_ops(real, 2, 4), fns)
    yield from simlib.shrink_problem(payload, rebuild)


MANIFEST = {
    "level_text": ("Lean 4 theorems (Props/C01.lean) prove for every problem, simplifier, state and ground action instance, with no "
                   "size bound: whenever the model's apply / is_applicable / is_goal return, they return exactly the result of a "
                   "declarative, order-free specification of the documented semantics (Spec/Successor.lean: fired effects as a "
                   "multiset evaluated in the pre-state, Boolean true-wins, unique value for numeric/object assignments, no "
                   "assignment with increase/decrease, summed increases, bounds and invariants in the successor, undefined reads "
                   "never satisfied); the specification and the code's accumulator loop are invariant under any permutation of "
                   "the effects; a missing fluent never escapes as an exception; one named corollary per clause of the statement, "
                   "each with a kernel-checked example. The model (Core/Sim.lean, Core/Eval.lean) mirrors the repaired "
                   "sequential_simulator.py function by function and is tied to /repo on every run by a differential check over "
                   "all states reachable within depth 3/5 and all ground instances, plus an independent Python oracle of the "
                   "semantics on the real answers."),
    "level_note": ("Theorems speak about calls that return: ZeroDivisionError / malformed-expression exceptions escape from the "
                   "real simulator and are outside the documented semantics (generators use non-zero constant divisors). The "
                   "grounder's simplifier is a parameter of the theorems (property C11). Trusted: Lean kernel; axioms propext, "
                   "Classical.choice, Quot.sound; the correspondence harness; Spec/Successor.lean as the reading of the "
                   "documentation. Modelled not verified: Python dict/set/Fraction, simulated effects, user callables."),
    "technique": "Lean 4 proof (fold invariant + permutation lemma) + model/code correspondence",
    "design_ref": "DESIGN.md §5 C01",
}
