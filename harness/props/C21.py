"""C21 — The two PDDL readers produce equivalent problems (level: translation_validation).

Payload:  (read <domain-tree> <problem-tree>)   — see lean/UPVerif/Drv/C21.lean.
Each REAL reader (UP reader; AI-planning reader = external `pddl` parser + unified_planning/interop/from_pddl.py) is
compared with the one reference reader `pddlRead` of the Lean model; the property's own oracle compares the two real
readers behaviourally.
"""
import glob
import hashlib
import os
import random
import warnings

warnings.simplefilter("ignore")
import unified_planning as up
from unified_planning.io import PDDLWriter

import c18_pddl as cp
import sexp
import upp

ID = "C21"
LEVEL = "translation_validation"
GEN = []
CORR_NAME = "each-real-reader-vs-reference-reader"
RULE = ("generated PDDL texts of the common fragment: the written text of generated problems (non-negative constants, every "
        "action with a :precondition, the full requirement list — what the external parser accepts) rewritten into forms the "
        "writer never emits (multi-typed lists, objects as constants, reordered :types, nested and/or, >=/>, n-ary +/*, upper "
        "case, empty preconditions, negative init literals, `- number`, untyped predicate parameters, fully untyped domains, "
        "comments), plus the PDDL files shipped in unified_planning/test/pddl that both readers accept. Both real readers and "
        "the reference reader run on each text; results are compared in a canonical form that sorts what the external parser "
        "keeps in sets and flattens nested and/or/+/*. Non-trivial = both real readers accept the text and it contains a "
        "non-writer form, a conditional/universal effect, a quantifier or a cost metric.")
ASSUMPTIONS = [
    "texts the external `pddl` 0.4.10 package does not parse, or from_pddl rejects with UPUnsupportedProblemTypeError (untyped "
    "variables), are outside 'the requirements that both readers accept': only the UP reader is compared with the reference reader",
    "no + or * with two equal operands (the external parser collapses them: finding D-C21a) and no unary minus (the AI "
    "converter folds `(- c)` into a constant, the UP reader builds `-1 * c`: same value, different syntax)",
    "numeric constants with at most 15 significant digits (the external parser hands over Python floats)",
    "equivalence is checked on the canonical syntax (sound: equal canonical forms denote equal problems) and, by the oracle, "
    "behaviourally: objects, initial state, bisimulation to depth 3/5 with the real simulator, goal verdicts, metric",
]
MODELLED = [
    "reference reader `pddlRead` (Lean, executable) — no theorem about pyparsing or the external `pddl` parser: every claim of "
    "C21 is per-input translation validation",
    "canonical form (harness): declarations sorted, nested and/or/+/* flattened and sorted, duplicate conjuncts dropped, "
    "effect conditions simplified by the real simplifier, initial state sorted",
]
BUDGET_S = {"quick": 40, "thorough": 400}
SEARCH_S = {"quick": 40, "thorough": 200}

FULLREQ = [":requirements", ":strips", ":typing", ":negative-preconditions", ":disjunctive-preconditions", ":equality",
           ":existential-preconditions", ":universal-preconditions", ":conditional-effects", ":numeric-fluents", ":action-costs"]


# ------------------------------------------------------------------------------------------------
# cases
# ------------------------------------------------------------------------------------------------

def make_case(rng):
    try:
        ps, P, ctx = cp.gen_problem(rng, adversarial=False, nonneg=True, metrics=rng.random() < 0.6)
    except RuntimeError:
        return None
    try:
        w = PDDLWriter(P)
        with cp.ordered_constants():
            dom, prob = cp.tokenize(w.get_domain()), cp.tokenize(w.get_problem())
    except Exception:
        return None
    v = cp.Variants(rng, p=rng.choice([0.0, 0.15, 0.3, 0.5]))
    v.no_unary_minus = True
    v.ai_friendly = True          # stay clear of forms the external grammar lacks: `()` preconditions, nested `and` effects
    d2, p2 = v.domain(dom, prob)
    p2 = p2[:3] + [FULLREQ] + p2[3:]
    out = []
    for sec in d2:
        if isinstance(sec, list) and sec and sec[0] == ":requirements":
            sec = FULLREQ
        if isinstance(sec, list) and sec and sec[0] == ":action" and ":precondition" not in sec:
            i = sec.index(":parameters") + 2
            sec = sec[:i] + [":precondition", ["and"]] + sec[i:]
        out.append(sec)
    return ["read", out, p2]


def shipped_cases():
    base = os.path.join(os.path.dirname(up.__file__), "test", "pddl")
    out = []
    for d in sorted(os.listdir(base)):
        dp = os.path.join(base, d)
        if not os.path.isdir(dp):
            continue
        doms = sorted(glob.glob(os.path.join(dp, "*domain*.pddl")))
        probs = sorted(p for p in glob.glob(os.path.join(dp, "*.pddl")) if "domain" not in os.path.basename(p))
        for dom in doms[:1]:
            for prob in probs[:2]:
                try:
                    dt, pt = cp.tokenize(open(dom).read()), cp.tokenize(open(prob).read())
                except Exception:
                    continue
                out.append(["read", dt, pt])
    return out


def cases(rng, tier):
    n = 60 if tier == "quick" else 700
    for c in shipped_cases():
        yield c
    for _ in range(n):
        c = make_case(rng)
        if c is not None:
            yield c


# ------------------------------------------------------------------------------------------------
# canonical form
# ------------------------------------------------------------------------------------------------

def canon_expr(e):
    if not isinstance(e, list) or not e:
        return e
    h = e[0]
    if h in ("b", "i", "r", "o", "p", "v"):
        if h == "r":
            from fractions import Fraction
            q = Fraction(e[1])
            return ["i", str(q.numerator)] if q.denominator == 1 else e
        return e
    if h == "fl":
        return [h, e[1]] + [canon_expr(a) for a in e[2:]]
    if h in ("exists", "forall"):
        return [h, sorted(e[1]), canon_expr(e[2])]      # the external parser keeps quantified variables in a set
    args = [canon_expr(a) for a in e[1:]]
    if h in ("and", "or", "plus", "times"):
        flat = []
        for a in args:
            if isinstance(a, list) and a and a[0] == h:
                flat.extend(a[1:])
            else:
                flat.append(a)
        if h in ("and", "or"):
            seen, uniq = set(), []
            for a in flat:
                k = sexp.dumps(a)
                if k not in seen:
                    seen.add(k)
                    uniq.append(a)
            flat = uniq
        flat.sort(key=sexp.dumps)
        if len(flat) == 1:
            return flat[0]
        return [h] + flat
    return [h] + args


def conj(es):
    out = []
    for e in es:
        c = canon_expr(e)
        if isinstance(c, list) and c and c[0] == "and":
            out.extend(c[1:])
        elif c == ["b", "T"]:
            continue
        else:
            out.append(c)
    return sorted(set(sexp.dumps(x) for x in out))


def canon_sets(ps):
    """order-free canonical form of a problem read from PDDL"""
    ps = cp.canon_read_problem(ps, sort_effects=False)
    g = lambda k: upp.get(ps, k)
    acts = []
    for a in g("actions"):
        effs = sorted(set(sexp.dumps(["eff", e[1], canon_expr(e[2]), canon_expr(e[3]), canon_expr(e[4]), sorted(e[5])])
                          for e in a[4][1:]))
        acts.append([a[1], sexp.dumps(a[2]), conj(a[3][1:]), effs])
    acts.sort(key=lambda x: x[0])
    ms = []
    for m in g("metrics"):
        if m[0] == "min-action-costs":
            ms.append([m[0], sorted(sexp.dumps([a, canon_expr(c)]) for a, c in m[1]), sexp.dumps(m[2])])
        elif m[0] in ("min-final", "max-final"):
            ms.append([m[0], sexp.dumps(canon_expr(m[1]))])
        else:
            ms.append(m)
    return ["problem", ps[1], sorted(sexp.dumps(t) for t in g("types")), sorted(sexp.dumps(o) for o in g("objects")),
            sorted(sexp.dumps(f) for f in g("fluents")),
            sorted(sexp.dumps([canon_expr(f), canon_expr(v)]) for f, v in g("init")),
            acts, conj(g("goals")), ms]


# ------------------------------------------------------------------------------------------------
# real code
# ------------------------------------------------------------------------------------------------

def texts(payload):
    rng = random.Random(int(hashlib.sha1(sexp.dumps(payload).encode()).hexdigest()[:8], 16))
    return cp.render_text(rng, payload[1]), cp.render_text(rng, payload[2])


def read_both(payload):
    dom, prob = texts(payload)
    U, eu = cp.read_back(dom, prob, "up")
    A, ea = cp.read_back(dom, prob, "ai")
    if A is None and ea != "skip" and ea.startswith("UPUnsupportedProblemTypeError"):
        ea = "skip"        # documented refusal of the converter: the text is not accepted by that reader
    return U, eu, A, ea


def impl(payload):
    U, eu, A, ea = read_both(payload)
    try:
        u = "error" if U is None else canon_sets(upp.enc_problem(U))
    except Exception as e:
        u = ["unencodable", type(e).__name__]
    if A is None:
        a = "skip" if ea == "skip" else ["ai-error", ea[:80]]
    else:
        try:
            a = canon_sets(upp.enc_problem(A))
        except Exception as e:
            a = ["unencodable", type(e).__name__]
    return ["readers", u, a]


def compare(m, a):
    """reference reader vs each real reader"""
    if not (isinstance(a, list) and a and a[0] == "readers"):
        return False
    u, ai = a[1], a[2]
    if isinstance(u, list) and u and u[0] == "unencodable":
        return True          # outside the wire format (temporal / hierarchical shipped files): nothing to compare
    if m == "error":
        return u == "error" and (ai == "skip" or (isinstance(ai, list) and ai[0] == "ai-error"))
    if not (isinstance(m, list) and m and m[0] == "ok"):
        return False
    try:
        cm = canon_sets(m[1])
    except Exception:
        return False
    if cm != u:
        return False
    return ai == "skip" or cm == ai


def _features(payload):
    tags = set()

    def walk(t):
        if isinstance(t, list):
            if t and isinstance(t[0], str):
                h = t[0].lower()
                if h in ("when", "forall", "exists", ">=", ">", ":constants", ":metric"):
                    tags.add(h)
                if h in ("and", "or") and any(isinstance(x, list) and x and x[0] == t[0] for x in t[1:]):
                    tags.add("nested-" + h)
                if h in ("+", "*") and len(t) > 3:
                    tags.add("n-ary-arith")
            for x in t:
                if isinstance(x, str) and x != x.lower():
                    tags.add("upper-case")
                walk(x)
    walk(payload[1])
    walk(payload[2])
    return sorted(tags)


def nontrivial(payload, ans):
    return isinstance(ans, list) and ans[0] == "readers" and isinstance(ans[1], list) and ans[1][0] == "problem" \
        and isinstance(ans[2], list) and ans[2][0] == "problem" and bool(_features(payload))


def stats(payload, ans):
    out = []
    if isinstance(ans, list) and ans[0] == "readers":
        out.append("up:" + ("ok" if isinstance(ans[1], list) and ans[1][0] == "problem" else str(ans[1] if isinstance(ans[1], str) else ans[1][0])))
        out.append("ai:" + ("ok" if isinstance(ans[2], list) and ans[2][0] == "problem" else str(ans[2] if isinstance(ans[2], str) else ans[2][0])))
        if isinstance(ans[2], list) and ans[2][0] == "problem":
            out += ["both:" + t for t in _features(payload)]
    return out


# ------------------------------------------------------------------------------------------------
# the property itself
# ------------------------------------------------------------------------------------------------

def metric_key(P):
    out = []
    for m in P.quality_metrics:
        if m.is_minimize_action_costs():
            out.append(("costs", tuple(sorted((a.name, sexp.dumps(canon_expr(upp.enc_expr(m.get_action_cost(a)))))
                                              for a in P.actions if m.get_action_cost(a) is not None))))
        elif m.is_minimize_sequential_plan_length():
            out.append(("costs", tuple(sorted((a.name, sexp.dumps(["i", "1"])) for a in P.actions))))
        elif m.is_minimize_expression_on_final_state():
            out.append(("min", sexp.dumps(canon_expr(upp.enc_expr(m.expression)))))
        elif m.is_maximize_expression_on_final_state():
            out.append(("max", sexp.dumps(canon_expr(upp.enc_expr(m.expression)))))
        else:
            out.append(("other", str(m)))
    return out


def oracle(payload):
    U, eu, A, ea = read_both(payload)
    if U is None or A is None:
        if A is None and ea != "skip":
            return f"AI-planning reader raised inside unified_planning: {ea}"
        return None          # not accepted by both readers
    ident = lambda n: n
    try:
        undefined = any(U.initial_value(f) is None for f in cp.ground_fluents(U))
    except Exception:
        return None
    try:
        why, _ = cp.behav_diff(U, A, ident, ident, ident, ident, -1 if undefined else 3, width=4)
    except up.exceptions.UPException as e:
        return None
    if why:
        return why
    try:
        mu, ma = metric_key(U), metric_key(A)
    except Exception:
        return None
    if mu != ma:
        return f"metrics differ: {mu} vs {ma}"
    return None


def _has_dup_operands(tree):
    if isinstance(tree, list):
        if tree and tree[0] in ("+", "*"):
            flat = []

            def fl(t):
                for x in t[1:]:
                    if isinstance(x, list) and x and x[0] == tree[0]:
                        fl(x)
                    else:
                        flat.append(sexp.dumps(x))
            fl(tree)
            if len(set(flat)) != len(flat):
                return True
        return any(_has_dup_operands(x) for x in tree)
    return False


def known_cause(payload):
    if _has_dup_operands(payload[1]) or _has_dup_operands(payload[2]):
        return "D-C21a"
    return None


def shrink(payload):
    d, p = payload[1], payload[2]
    for i, sec in enumerate(d):
        if isinstance(sec, list) and sec and sec[0] == ":action":
            yield ["read", d[:i] + d[i + 1:], p]
    for i, sec in enumerate(p):
        if isinstance(sec, list) and sec and sec[0] == ":init":
            for j in range(1, len(sec)):
                yield ["read", d, p[:i] + [sec[:j] + sec[j + 1:]] + p[i + 1:]]
        if isinstance(sec, list) and sec and sec[0] == ":metric":
            yield ["read", d, p[:i] + p[i + 1:]]


MANIFEST = {
    "level_text": ("Translation validation: on every generated PDDL text of the common fragment (and on the shipped PDDL files both "
                   "readers accept) the UP reader and the AI-planning reader are each compared, in an order-free canonical form, "
                   "with one executable reference reader (Lean `pddlRead`, a function of the two token trees), and with each other "
                   "behaviourally (objects, initial state, bisimulation, goals, metric) by the property oracle. No theorem about "
                   "either parser is claimed."),
    "level_note": ("Per-input validation only. Trusted: the tokenizer and canonical form of the harness, the Lean driver. "
                   "The external `pddl` package is exercised as is; finding D-C21a documents its collapse of equal operands."),
    "technique": "translation validation against an executable reference reader (Lean) + behavioural differential oracle",
    "design_ref": "DESIGN.md §5 C18/C19/C21",
}
