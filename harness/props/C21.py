"""C21 — The two PDDL readers produce equivalent problems.

Payload:  (read <domain-tree> <problem-tree>)   — see lean/UPVerif/Drv/C21.lean.
Three ties on every case:
  * the REAL first reader (UP reader, pyparsing) against the reference reader `pddlRead` (Core/PddlRead.lean);
  * the REAL second reader (PDDLReader(force_ai_planning_reader=True): external `pddl` parser +
    unified_planning/interop/from_pddl.py) against `fromPddl ∘ astOf` (Core/FromPddl.lean) — problems compared exactly,
    effects in the converter's own order;
  * the objects the REAL external parser builds (dumped below) against `astOf` — the trusted, sampled piece of the model.
The theorems of Props/C21.lean relate the two models for all trees; the property's own oracle compares the two real
readers behaviourally.
"""
import glob
import hashlib
import os
import random
import warnings

warnings.simplefilter("ignore")
import unified_planning as up
from unified_planning.io import PDDLWriter

import c18_pddl as cp
import sexp
import upp

ID = "C21"
GEN = []
CORR_NAME = "each-real-reader-vs-its-model+external-parser-ast"
RULE = ("generated PDDL texts of the common fragment: the written text of generated problems (non-negative constants, every "
        "action with a :precondition, the full requirement list — what the external parser accepts) rewritten into forms the "
        "writer never emits (multi-typed lists, objects as constants, reordered :types, nested and/or, >=/>, n-ary +/*, upper "
        "case, empty preconditions, negative init literals, `- number`, untyped predicate parameters, fully untyped domains, "
        "unary minus, comments), plus the PDDL files shipped in unified_planning/test/pddl that both readers accept. On each "
        "text: the UP reader vs `pddlRead` (canonical form: declarations sorted, nested and/or/+/* flattened); the AI-planning "
        "reader vs `fromPddl(astOf ..)` (exact: only what the external parser keeps in frozensets is sorted — declarations, "
        "quantified variables — effects stay in the converter's stack order, no flattening); the dumped objects of the "
        "external parser vs `astOf`. Non-trivial = both real readers accept the text and it contains a non-writer form, a "
        "conditional/universal effect, a quantifier or a cost metric.")
ASSUMPTIONS = [
    "texts the external `pddl` 0.4.10 package does not parse, or from_pddl rejects with UPUnsupportedProblemTypeError (untyped "
    "variables), are outside 'the requirements that both readers accept': only the UP reader is compared with the reference reader",
    "no + or * with two equal operands (the external parser collapses them: finding D-C21a); no `()` precondition (read "
    "as `(or)` = false by the external parser: finding D-C21b) and no two equal numeric effects in one `and` (collapsed: "
    "finding D-C21c)",
    "a `decrease` of total-cost under an action-cost metric is outside the common fragment (the UP reader keeps total-cost "
    "as a fluent with a final-state metric, the converter builds negative action costs: same plan costs, different metric kind)",
    "numeric constants with at most 15 significant digits (the external parser hands over Python floats)",
    "equivalence is checked on the canonical syntax (sound: equal canonical forms denote equal problems) and, by the oracle, "
    "behaviourally: objects, initial state, bisimulation to depth 3/5 with the real simulator, goal verdicts, metric",
]
MODELLED = [
    "pyparsing (first reader) and lark + the transformer of the external `pddl` package (second reader): tied by sampling "
    "only — `pddlRead` against the real UP reader, `astOf` against a dump of the real package's objects on every input",
    "`astOf` keeps declaration order where the package keeps frozensets (constants, predicates, actions, objects, initial "
    "literals, quantified variables): the harness compares these sorted; numbers are exact rationals (the package hands "
    "over floats: exact up to 15 significant digits)",
    "type checks of the expression manager and the static effect-conflict check of add_effect/_add_effect_instance (both "
    "models skip them; generated texts are well typed)",
    "canonical form of the first tie (harness): declarations sorted, nested and/or/+/* flattened and sorted, duplicate "
    "conjuncts dropped, effect conditions simplified by the real simplifier, initial state sorted",
]
BUDGET_S = {"quick": 40, "thorough": 400}
SEARCH_S = {"quick": 40, "thorough": 200}

FULLREQ = [":requirements", ":strips", ":typing", ":negative-preconditions", ":disjunctive-preconditions", ":equality",
           ":existential-preconditions", ":universal-preconditions", ":conditional-effects", ":numeric-fluents", ":action-costs"]


# ------------------------------------------------------------------------------------------------
# cases
# ------------------------------------------------------------------------------------------------

def _no_binary_minus(e):
    """`(- a b)` -> `(+ a (- b))`: the LALR tables of the external parser have no binary minus"""
    if isinstance(e, list):
        e = [_no_binary_minus(x) for x in e]
        if len(e) == 3 and e[0] == "-":
            return ["+", e[1], ["-", e[2]]]
    return e


def _goal_ok(g):
    """what the external parser admits in a goal (its formulas are read without any requirement): atoms, `not`, `and`,
    numeric comparisons"""
    if not isinstance(g, list) or not g or not isinstance(g[0], str):
        return False
    h = g[0].lower()
    if h in ("or", "imply", "exists", "forall"):
        return False
    if h == "and":
        return all(_goal_ok(x) for x in g[1:])
    if h == "not":
        return len(g) == 2 and _goal_ok(g[1])
    if h == "=":
        return len(g) == 3 and isinstance(g[1], list)
    return True


def ai_fragment(d, p):
    """move a generated text into the fragment the external parser accepts (most generated texts leave it by a binary minus
    or a disjunctive / quantified goal)"""
    d = [_no_binary_minus(sec) if isinstance(sec, list) and sec and sec[0] == ":action" else sec for sec in d]
    out = []
    for sec in p:
        if isinstance(sec, list) and sec and sec[0] == ":goal" and len(sec) == 2:
            g = _no_binary_minus(sec[1])
            if isinstance(g, list) and g and g[0] == "and":
                g = ["and"] + [x for x in g[1:] if _goal_ok(x)]
            elif not _goal_ok(g):
                g = ["and"]
            sec = [":goal", g]
        elif isinstance(sec, list) and sec and sec[0] == ":metric":
            sec = _no_binary_minus(sec)
        out.append(sec)
    return d, out


class AiVariants(cp.Variants):
    """variants that stay inside what the second reader accepts: every list typed, no negative initial literal"""

    def hit(self, tag, p=None):
        if tag in ("untyped", "negative-init-literal"):
            return False
        return super().hit(tag, p)


# ---- shadowing: a quantified variable named like an action parameter or like an enclosing quantified variable --------------

def _occurs(name, t):
    if isinstance(t, str):
        return t.lower() == name.lower()
    return any(_occurs(name, x) for x in t)


def _declared(typed):
    """names declared by a flat typed `?`-list"""
    out, i = [], 0
    while i < len(typed):
        if typed[i] == "-":
            i += 2
        else:
            out.append(typed[i])
            i += 1
    return out


def _rename(t, old, new):
    """rename the variable `old` in `t`, stopping at a quantifier that declares `old` again"""
    if isinstance(t, str):
        return new if t.lower() == old.lower() else t
    if len(t) == 3 and isinstance(t[0], str) and t[0].lower() in ("exists", "forall") and isinstance(t[1], list) \
            and any(x.lower() == old.lower() for x in _declared(t[1]) if isinstance(x, str)):
        return t
    return [_rename(x, old, new) for x in t]


def _shadow_tree(t, outer, rng, hits):
    """`outer`: the names visible around `t` (action parameters, enclosing quantified variables).  Innermost first, a
    quantified variable is renamed to a visible name that does not occur in its scope: the meaning does not change, the
    inner binding has to win in both readers."""
    if not isinstance(t, list):
        return t
    if len(t) == 3 and isinstance(t[0], str) and t[0].lower() in ("exists", "forall") and isinstance(t[1], list) \
            and all(isinstance(x, str) for x in t[1]):
        typed, body = list(t[1]), t[2]
        body = _shadow_tree(body, outer + _declared(typed), rng, hits)
        for v in _declared(typed):
            cands = [n for n in outer if not _occurs(n, body) and n.lower() not in [x.lower() for x in _declared(typed)]]
            if cands and rng.random() < 0.6:
                n = rng.choice(cands)
                typed = [n if x.lower() == v.lower() else x for x in typed]
                body = _rename(body, v, n)
                hits.append(n)
        return [t[0], typed, body]
    return [_shadow_tree(x, outer, rng, hits) for x in t]


def shadow(d, p, rng):
    out = []
    for sec in d:
        if isinstance(sec, list) and sec and sec[0] == ":action" and ":parameters" in sec:
            params = _declared(sec[sec.index(":parameters") + 1])
            hits = []
            new = []
            for i, x in enumerate(sec):
                if i > 0 and sec[i - 1] in (":precondition", ":effect"):
                    x = _shadow_tree(x, params, rng, hits)
                new.append(x)
            sec = new
        out.append(sec)
    hits = []
    q = [[s[0], _shadow_tree(s[1], [], rng, hits)] if isinstance(s, list) and len(s) == 2 and s[0] == ":goal" else s for s in p]
    return out, q


def make_case(rng):
    try:
        ps, P, ctx = cp.gen_problem(rng, adversarial=False, nonneg=True, metrics=rng.random() < 0.6)
    except RuntimeError:
        return None
    try:
        w = PDDLWriter(P)
        with cp.ordered_constants():
            dom, prob = cp.tokenize(w.get_domain()), cp.tokenize(w.get_problem())
    except Exception:
        return None
    ai = rng.random() < 0.7
    v = (AiVariants if ai else cp.Variants)(rng, p=rng.choice([0.0, 0.15, 0.3, 0.5]))
    if ai:
        v.all_untyped = False
    v.ai_friendly = True          # stay clear of `()` preconditions (finding D-C21b) and nested `and` effects (not in the grammar)
    d2, p2 = v.domain(dom, prob)
    if ai:
        d2, p2 = ai_fragment(d2, p2)
    if rng.random() < 0.6:
        d2, p2 = shadow(d2, p2, rng)
    d2 = [[_drop_dup_numeric_effects(x) if i > 0 and sec[i - 1] == ":effect" else x for i, x in enumerate(sec)]
          if isinstance(sec, list) and sec and sec[0] == ":action" else sec for sec in d2]
    p2 = p2[:3] + [FULLREQ] + p2[3:]
    out = []
    for sec in d2:
        if isinstance(sec, list) and sec and sec[0] == ":requirements":
            sec = FULLREQ
        if isinstance(sec, list) and sec and sec[0] == ":action" and ":precondition" not in sec:
            i = sec.index(":parameters") + 2
            sec = sec[:i] + [":precondition", ["and"]] + sec[i:]
        out.append(sec)
    return ["read", out, p2]


def shipped_cases():
    base = os.path.join(os.path.dirname(up.__file__), "test", "pddl")
    out = []
    for d in sorted(os.listdir(base)):
        dp = os.path.join(base, d)
        if not os.path.isdir(dp):
            continue
        doms = sorted(glob.glob(os.path.join(dp, "*domain*.pddl")))
        probs = sorted(p for p in glob.glob(os.path.join(dp, "*.pddl")) if "domain" not in os.path.basename(p))
        for dom in doms[:1]:
            for prob in probs[:2]:
                try:
                    dt, pt = cp.tokenize(open(dom).read()), cp.tokenize(open(prob).read())
                except Exception:
                    continue
                out.append(["read", dt, pt])
    return out


def cases(rng, tier):
    n = 45 if tier == "quick" else 700
    for c in shipped_cases():
        yield c
    for _ in range(n):
        c = make_case(rng)
        if c is not None:
            yield c


# ------------------------------------------------------------------------------------------------
# canonical form
# ------------------------------------------------------------------------------------------------

def canon_expr(e):
    if not isinstance(e, list) or not e:
        return e
    h = e[0]
    if h in ("b", "i", "r", "o", "p", "v"):
        if h == "r":
            from fractions import Fraction
            q = Fraction(e[1])
            return ["i", str(q.numerator)] if q.denominator == 1 else e
        return e
    if h == "fl":
        return [h, e[1]] + [canon_expr(a) for a in e[2:]]
    if h in ("exists", "forall"):
        return [h, sorted(e[1]), canon_expr(e[2])]      # the external parser keeps quantified variables in a set
    args = [canon_expr(a) for a in e[1:]]
    if h in ("and", "or", "plus", "times"):
        flat = []
        for a in args:
            if isinstance(a, list) and a and a[0] == h:
                flat.extend(a[1:])
            else:
                flat.append(a)
        if h in ("and", "or"):
            seen, uniq = set(), []
            for a in flat:
                k = sexp.dumps(a)
                if k not in seen:
                    seen.add(k)
                    uniq.append(a)
            flat = uniq
        if h == "times" and len(flat) >= 2 and all(isinstance(a, list) and a and a[0] in ("i", "r") for a in flat):
            # a product of constants is that constant: `(- 2.5)` is `-1 * 5/2` for the first reader, `-5/2` for the converter
            from fractions import Fraction
            q = Fraction(1)
            for a in flat:
                q *= Fraction(a[1])
            return ["i", str(q.numerator)] if q.denominator == 1 else ["r", f"{q.numerator}/{q.denominator}"]
        flat.sort(key=sexp.dumps)
        if len(flat) == 1:
            return flat[0]
        return [h] + flat
    return [h] + args


def conj(es):
    out = []
    for e in es:
        c = canon_expr(e)
        if isinstance(c, list) and c and c[0] == "and":
            out.extend(c[1:])
        elif c == ["b", "T"]:
            continue
        else:
            out.append(c)
    return sorted(set(sexp.dumps(x) for x in out))


def canon_sets(ps):
    """order-free canonical form of a problem read from PDDL"""
    ps = cp.canon_read_problem(ps, sort_effects=False)
    g = lambda k: upp.get(ps, k)
    acts = []
    for a in g("actions"):
        effs = sorted(set(sexp.dumps(["eff", e[1], canon_expr(e[2]), canon_expr(e[3]), canon_expr(e[4]), sorted(e[5])])
                          for e in a[4][1:]))
        acts.append([a[1], sexp.dumps(a[2]), conj(a[3][1:]), effs])
    acts.sort(key=lambda x: x[0])
    ms = []
    for m in g("metrics"):
        if m[0] == "min-action-costs":
            ms.append([m[0], sorted(sexp.dumps([a, canon_expr(c)]) for a, c in m[1]), sexp.dumps(m[2])])
        elif m[0] in ("min-final", "max-final"):
            ms.append([m[0], sexp.dumps(canon_expr(m[1]))])
        else:
            ms.append(m)
    return ["problem", ps[1], sorted(sexp.dumps(t) for t in g("types")), sorted(sexp.dumps(o) for o in g("objects")),
            sorted(sexp.dumps(f) for f in g("fluents")),
            sorted(sexp.dumps([canon_expr(f), canon_expr(v)]) for f, v in g("init")),
            acts, conj(g("goals")), ms]


# ------------------------------------------------------------------------------------------------
# exact canonical form of the second reader's result (compared with `fromPddl ∘ astOf`)
# ------------------------------------------------------------------------------------------------

def canon_ai(ps):
    """Problem read by the AI-planning reader / by its model, up to what the external parser keeps in frozensets:
    declarations sorted, quantified variables sorted, cost table sorted.  Nothing is flattened or simplified, effects stay
    in the order the converter's stack yields them."""
    g = lambda k: upp.get(ps, k)
    sq = cp.sort_quant_expr
    acts = []
    for a in g("actions"):
        effs = [sexp.dumps(["eff", e[1], sq(e[2]), sq(e[3]), sq(e[4]), sorted(e[5])]) for e in a[4][1:]]
        acts.append([a[1], sexp.dumps(a[2]), [sexp.dumps(sq(x)) for x in a[3][1:]], effs])
    acts.sort(key=lambda x: x[0])
    ms = []
    for m in g("metrics"):
        if m[0] == "min-action-costs":
            ms.append([m[0], sorted(sexp.dumps([a, sq(c)]) for a, c in m[1]), sexp.dumps(m[2])])
        elif m[0] in ("min-final", "max-final"):
            ms.append([m[0], sexp.dumps(sq(m[1]))])
        else:
            ms.append(m)
    return ["problem", ps[1], sorted(sexp.dumps(t) for t in g("types")), sorted(sexp.dumps(o) for o in g("objects")),
            sorted(sexp.dumps(f) for f in g("fluents")), sorted(sexp.dumps([sq(f), sq(v)]) for f, v in g("init")),
            acts, [sexp.dumps(sq(x)) for x in g("goals")], ms]


# ------------------------------------------------------------------------------------------------
# dump of the objects the external `pddl` package builds (compared with `astOf`)
# ------------------------------------------------------------------------------------------------

def _ast_classes():
    from pddl.logic import base as B, effects as E, functions as F, predicates as P, terms as T
    ops = {B.And: "and", B.Or: "or", B.Imply: "imply", B.OneOf: "oneof", F.EqualTo: "eq", F.LesserThan: "lt",
           F.LesserEqualThan: "le", F.GreaterThan: "gt", F.GreaterEqualThan: "ge", F.Minus: "minus", F.Plus: "plus",
           F.Times: "times", F.Divide: "divide", F.Assign: "assign", F.Increase: "increase", F.Decrease: "decrease",
           F.ScaleUp: "scale-up", F.ScaleDown: "scale-down"}
    return B, E, F, P, T, ops


def dump_term(t):
    B, E, F, P, T, ops = _ast_classes()
    if isinstance(t, T.Constant):
        return ["c", str(t.name)]
    if isinstance(t, T.Variable):
        return ["v", str(t.name)]
    raise ValueError(f"term {t!r}")


def dump_tvar(v):
    return [str(v.name)] + sorted(str(x) for x in v.type_tags)


def dump_form(f):
    from fractions import Fraction
    from upx import q2s
    B, E, F, P, T, ops = _ast_classes()
    if isinstance(f, F.NumericValue):
        return ["num", q2s(Fraction(str(f.value)))]
    if type(f) in ops:
        return ["op", ops[type(f)]] + [dump_form(x) for x in f.operands]
    if isinstance(f, B.Not):
        return ["not", dump_form(f.argument)]
    if isinstance(f, P.Predicate):
        return ["pred", str(f.name)] + [dump_term(t) for t in f.terms]
    if isinstance(f, F.NumericFunction):
        return ["fn", str(f.name)] + [dump_term(t) for t in f.terms]
    if isinstance(f, P.EqualTo):
        return ["eqt", dump_term(f.left), dump_term(f.right)]
    if isinstance(f, B.ForallCondition):
        return ["forall", sorted(dump_tvar(v) for v in f.variables), dump_form(f.condition)]
    if isinstance(f, B.ExistsCondition):
        return ["exists", sorted(dump_tvar(v) for v in f.variables), dump_form(f.condition)]
    if isinstance(f, E.When):
        return ["when", dump_form(f.condition), dump_form(f.effect)]
    if isinstance(f, E.Forall):
        return ["forall-eff", sorted(dump_tvar(v) for v in f.variables), dump_form(f.effect)]
    raise ValueError(f"formula {type(f).__name__}")


def _sorted(xs):
    return sorted(xs, key=sexp.dumps)


def dump_ast(D, Q):
    """canonical dump of pddl.core.Domain / Problem: everything the package keeps in a set or dict is sorted"""
    opt = lambda x: "_" if x is None else str(x)
    dom = ["domain", str(D.name), ["reqs"] + sorted(r.value for r in D.requirements),
           ["types"] + _sorted([str(k), opt(v)] for k, v in D.types.items()),
           ["constants"] + _sorted([str(c.name), opt(c.type_tag)] for c in D.constants),
           ["predicates"] + _sorted([str(p.name)] + [dump_tvar(v) for v in p.terms] for p in D.predicates),
           ["functions"] + _sorted([str(f.name)] + [dump_tvar(v) for v in f.terms] for f in D.functions),
           ["actions"] + _sorted(["action", str(a.name), [dump_tvar(v) for v in a.parameters],
                                  "_" if a.precondition is None else dump_form(a.precondition),
                                  "_" if a.effect is None else dump_form(a.effect)] for a in D.actions)]
    if D.derived_predicates:
        raise ValueError("derived predicates")
    reqs = Q._requirements
    prob = ["problem", str(Q.name), str(Q.domain_name), "_" if reqs is None else ["reqs"] + sorted(r.value for r in reqs),
            ["objects"] + _sorted([str(c.name), opt(c.type_tag)] for c in Q.objects),
            ["init"] + _sorted(dump_form(f) for f in Q.init), dump_form(Q.goal),
            "_" if Q.metric is None else ["metric", str(Q.metric.optimization), dump_form(Q.metric.expression)]]
    return ["ok", dom, prob]


def canon_model_ast(m):
    """the same canonical order on the model's dump (which lists declarations in text order)"""
    if not (isinstance(m, list) and m and m[0] == "ok"):
        return m

    def form(f):
        if isinstance(f, list) and f and f[0] in ("forall", "exists", "forall-eff") and len(f) == 3:
            return [f[0], sorted(f[1]), form(f[2])]
        if isinstance(f, list):
            return [form(x) for x in f]
        return f

    def sec(x):
        if isinstance(x, list) and x and x[0] == "reqs":
            return ["reqs"] + sorted(set(x[1:]))
        if isinstance(x, list) and x and x[0] in ("types", "constants", "predicates", "functions", "actions", "objects", "init"):
            return [x[0]] + _sorted(form(y) for y in x[1:])
        return form(x)
    return ["ok", [sec(x) for x in m[1]], [sec(x) for x in m[2]]]


# ------------------------------------------------------------------------------------------------
# real code
# ------------------------------------------------------------------------------------------------

def texts(payload):
    rng = random.Random(int(hashlib.sha1(sexp.dumps(payload).encode()).hexdigest()[:8], 16))
    return cp.render_text(rng, payload[1]), cp.render_text(rng, payload[2])


def parse_external(dom, prob):
    """the two calls of PDDLReader(force_ai_planning_reader=True) into the external package (pddl_reader.py:135):
    returns (Domain, Problem) or None when the package does not accept the (lower-cased) text"""
    from pddl.parser.domain import DomainParser
    from pddl.parser.problem import ProblemParser
    try:
        return DomainParser()(dom.lower()), ProblemParser()(prob.lower())
    except Exception:
        return None


_AI = {}


def ai_read_cached(dom, prob):
    """(problem read by PDDLReader(force_ai_planning_reader=True) | None, error | None, (Domain, Problem) of the external
    parser | None), memoised over the last few texts: impl() and oracle() of one case read the same text, and building one
    pair of lark parsers costs ~0.13 s.  A text the external package does not parse is 'skip' (as in cp.read_back)."""
    key = (dom, prob)
    if key not in _AI:
        if len(_AI) > 6:
            _AI.clear()
        DQ = parse_external(dom, prob)
        if DQ is None:
            res = (None, "skip", None)
        else:
            try:
                res = (cp.reader("ai").parse_problem_string(dom, prob), None, DQ)
            except Exception as e:
                res = (None, f"{type(e).__name__}: {str(e)[:160]}", DQ)
        _AI[key] = res
    return _AI[key]


def read_both(payload):
    dom, prob = texts(payload)
    U, eu = cp.read_back(dom, prob, "up")
    A, ea, _ = ai_read_cached(dom, prob)
    if A is None and ea != "skip" and ea.startswith("UPUnsupportedProblemTypeError"):
        ea = "refused"     # documented refusal of the converter: the text is not accepted by that reader
    return U, eu, A, ea


def impl(payload):
    U, eu, A, ea = read_both(payload)
    try:
        u = "error" if U is None else canon_sets(upp.enc_problem(U))
    except Exception as e:
        u = ["unencodable", type(e).__name__]
    if A is None:
        a = ea if ea in ("skip", "refused") else ["ai-error", ea[:80]]
    else:
        try:
            a = canon_ai(upp.enc_problem(A))
        except Exception as e:
            a = ["unencodable", type(e).__name__]
    dom, prob = texts(payload)
    DQ = ai_read_cached(dom, prob)[2]
    if DQ is None:
        ast = "none"
    else:
        try:
            ast = dump_ast(*DQ)
        except ValueError as e:
            ast = ["undumpable", str(e)[:60]]
    return ["readers", u, a, ast]


def compare(m, a):
    """the three ties: UP reader vs `pddlRead`, AI-planning reader vs `fromPddl ∘ astOf`, external parser vs `astOf`"""
    if not (isinstance(a, list) and a and a[0] == "readers" and isinstance(m, list) and len(m) == 4 and m[0] == "model"):
        return False
    u, ai, ast = a[1], a[2], a[3]
    mu, mai, mast = m[1], m[2], m[3]
    if isinstance(u, list) and u and u[0] == "unencodable":
        return True          # outside the wire format (temporal / hierarchical shipped files): nothing to compare
    # 1. first reader
    if mu == "error":
        if u != "error":
            return False
    else:
        if not (isinstance(mu, list) and mu and mu[0] == "ok"):
            return False
        try:
            if canon_sets(mu[1]) != u:
                return False
        except Exception:
            return False
    # 3. external parser (the trusted piece of the model); a text outside the first reader's fragment is outside the
    #    common fragment: there the model of the parser may answer `none`
    if isinstance(ast, list) and ast and ast[0] == "undumpable":
        pass
    elif ast == "none":
        if mast != "none":
            return False
    else:
        if mast == "none":
            if mu != "error":
                return False
        elif canon_model_ast(mast) != ast:
            return False
    # 2. second reader
    if ai == "skip":
        return mai == "error"
    if ai == "refused" or (isinstance(ai, list) and ai and ai[0] == "ai-error"):
        return mai == "error" or (mast == "none" and mu == "error")
    if isinstance(ai, list) and ai and ai[0] == "unencodable":
        return True
    if mast == "none" and mu == "error":
        return True           # accepted by the second reader only: not in the common fragment, not modelled
    if not (isinstance(mai, list) and mai and mai[0] == "ok"):
        return False
    try:
        return canon_ai(mai[1]) == ai
    except Exception:
        return False


def _features(payload):
    tags = set()

    def walk(t):
        if isinstance(t, list):
            if t and isinstance(t[0], str):
                h = t[0].lower()
                if h in ("when", "forall", "exists", ">=", ">", ":constants", ":metric"):
                    tags.add(h)
                if h in ("and", "or") and any(isinstance(x, list) and x and x[0] == t[0] for x in t[1:]):
                    tags.add("nested-" + h)
                if h in ("+", "*") and len(t) > 3:
                    tags.add("n-ary-arith")
            for x in t:
                if isinstance(x, str) and x != x.lower():
                    tags.add("upper-case")
                walk(x)
    walk(payload[1])
    walk(payload[2])

    def shadows(t, outer):
        """a quantified variable re-uses a visible name (action parameter / enclosing quantified variable)"""
        if not isinstance(t, list):
            return
        if len(t) == 3 and isinstance(t[0], str) and t[0].lower() in ("exists", "forall") and isinstance(t[1], list) \
                and all(isinstance(x, str) for x in t[1]):
            here = [x.lower() for x in _declared(t[1])]
            if any(x in outer for x in here):
                tags.add("shadowed-variable")
            shadows(t[2], outer + here)
            return
        for x in t:
            shadows(x, outer)
    for sec in payload[1]:
        if isinstance(sec, list) and sec and sec[0] == ":action" and ":parameters" in sec \
                and isinstance(sec[sec.index(":parameters") + 1], list):
            ps = [x.lower() for x in _declared(sec[sec.index(":parameters") + 1]) if isinstance(x, str)]
            shadows(sec, ps)
    return sorted(tags)


def nontrivial(payload, ans):
    return isinstance(ans, list) and ans[0] == "readers" and isinstance(ans[1], list) and ans[1][0] == "problem" \
        and isinstance(ans[2], list) and ans[2][0] == "problem" and bool(_features(payload))


def stats(payload, ans):
    out = []
    if isinstance(ans, list) and ans[0] == "readers":
        out.append("up:" + ("ok" if isinstance(ans[1], list) and ans[1][0] == "problem" else str(ans[1] if isinstance(ans[1], str) else ans[1][0])))
        out.append("ai:" + ("ok" if isinstance(ans[2], list) and ans[2][0] == "problem" else str(ans[2] if isinstance(ans[2], str) else ans[2][0])))
        if isinstance(ans[2], list) and ans[2][0] == "problem":
            out += ["both:" + t for t in _features(payload)]
        out.append("ast:" + ("dumped" if isinstance(ans[3], list) and ans[3][0] == "ok" else str(ans[3] if isinstance(ans[3], str) else ans[3][0])))
    return out


# ------------------------------------------------------------------------------------------------
# the property itself
# ------------------------------------------------------------------------------------------------

def metric_key(P):
    out = []
    for m in P.quality_metrics:
        if m.is_minimize_action_costs():
            out.append(("costs", tuple(sorted((a.name, sexp.dumps(canon_expr(upp.enc_expr(m.get_action_cost(a)))))
                                              for a in P.actions if m.get_action_cost(a) is not None))))
        elif m.is_minimize_sequential_plan_length():
            out.append(("costs", tuple(sorted((a.name, sexp.dumps(["i", "1"])) for a in P.actions))))
        elif m.is_minimize_expression_on_final_state():
            out.append(("min", sexp.dumps(canon_expr(upp.enc_expr(m.expression)))))
        elif m.is_maximize_expression_on_final_state():
            out.append(("max", sexp.dumps(canon_expr(upp.enc_expr(m.expression)))))
        else:
            out.append(("other", str(m)))
    return out


def oracle(payload):
    U, eu, A, ea = read_both(payload)
    if U is None or A is None:
        if A is None and ea not in ("skip", "refused"):
            return f"AI-planning reader raised inside unified_planning: {ea}"
        return None          # not accepted by both readers
    ident = lambda n: n
    try:
        undefined = any(U.initial_value(f) is None for f in cp.ground_fluents(U))
    except Exception:
        return None
    try:
        why, _ = cp.behav_diff(U, A, ident, ident, ident, ident, -1 if undefined else 3, width=4)
    except up.exceptions.UPException as e:
        return None
    if why:
        return why
    try:
        mu, ma = metric_key(U), metric_key(A)
    except Exception:
        return None
    if mu != ma:
        return f"metrics differ: {mu} vs {ma}"
    return None


def _has_dup_operands(tree):
    if isinstance(tree, list):
        if tree and tree[0] in ("+", "*"):
            flat = []

            def fl(t):
                for x in t[1:]:
                    if isinstance(x, list) and x and x[0] == tree[0]:
                        fl(x)
                    else:
                        flat.append(sexp.dumps(x))
            fl(tree)
            if len(set(flat)) != len(flat):
                return True
        return any(_has_dup_operands(x) for x in tree)
    return False


def _numeric_effect(t):
    return isinstance(t, list) and t and isinstance(t[0], str) and t[0].lower() in ("increase", "decrease", "assign")


def _dup_numeric_effects(t):
    """an effect `and` with two equal numeric effects (the external parser keeps one: D-C21c)"""
    if not isinstance(t, list):
        return False
    if t and isinstance(t[0], str) and t[0].lower() == "and":
        keys = [sexp.dumps(x).lower() for x in t[1:] if _numeric_effect(x)]
        if len(set(keys)) != len(keys):
            return True
    return any(_dup_numeric_effects(x) for x in t)


def _effects_of(dom):
    for sec in dom:
        if isinstance(sec, list) and sec and sec[0] == ":action":
            for i, x in enumerate(sec):
                if i > 0 and sec[i - 1] == ":effect":
                    yield x


def _empty_precondition(dom):
    """`:precondition ()` (read as `(or)` by the external parser: D-C21b)"""
    for sec in dom:
        if isinstance(sec, list) and sec and sec[0] == ":action":
            for i, x in enumerate(sec):
                if i > 0 and sec[i - 1] == ":precondition" and x == []:
                    return True
    return False


def known_cause(payload):
    if _has_dup_operands(payload[1]) or _has_dup_operands(payload[2]):
        return "D-C21a"
    if _empty_precondition(payload[1]):
        return "D-C21b"
    if any(_dup_numeric_effects(e) for e in _effects_of(payload[1])):
        return "D-C21c"
    return None


def _drop_dup_numeric_effects(t):
    """generated texts stay clear of finding D-C21c: a repeated numeric effect of one `and` is written once"""
    if not isinstance(t, list):
        return t
    t = [_drop_dup_numeric_effects(x) for x in t]
    if t and isinstance(t[0], str) and t[0].lower() == "and":
        seen, out = set(), [t[0]]
        for x in t[1:]:
            if _numeric_effect(x):
                k = sexp.dumps(x).lower()
                if k in seen:
                    continue
                seen.add(k)
            out.append(x)
        return out
    return t


def shrink(payload):
    d, p = payload[1], payload[2]
    for i, sec in enumerate(d):
        if isinstance(sec, list) and sec and sec[0] == ":action":
            yield ["read", d[:i] + d[i + 1:], p]
    for i, sec in enumerate(p):
        if isinstance(sec, list) and sec and sec[0] == ":init":
            for j in range(1, len(sec)):
                yield ["read", d, p[:i] + [sec[:j] + sec[j + 1:]] + p[i + 1:]]
        if isinstance(sec, list) and sec and sec[0] == ":metric":
            yield ["read", d, p[:i] + p[i + 1:]]


MANIFEST = {
    "level_text": ("Proof (partial). Lean models of both readers on the token trees of the two files: `pddlRead` (first reader) and "
                   "`aiRead = fromPddl . astOf` (second reader: `fromPddl` mirrors unified_planning/interop/from_pddl.py function by "
                   "function, `astOf` states what the external `pddl` parser builds). Theorems, by structural induction on the trees "
                   "(no size bound): on every numeric expression, condition, effect and whole `(:action ...)` form that both models "
                   "accept, the two results are related - same free variables, same value / truth value under every instantiation "
                   "in every well-typed state (`C21_numeric_expressions`, `C21_conditions`), the same effects up to order "
                   "(`C21_effects`), same name, parameters, related precondition and effects (`C21_actions`) - and related actions "
                   "have the same successor in the sense of C01 (`C21_related_actions_same_successor`). For every PAIR OF FILES "
                   "both models accept (`C21_readers_equivalent_partial`): same name, fluents, objects and initial values, related "
                   "goal, pairwise related actions, related metric. Decidable side conditions (`filesOKb`) exclude exactly three "
                   "behaviours of the external parser (findings D-C21a/b/c), each refuted on a witness, and verbatim repetitions "
                   "that the parser's sets drop. Partial: files with a function called `total-cost` (the action-cost bookkeeping is "
                   "proved per action, not assembled) and the user-type hierarchy are outside the whole-problem theorem "
                   "(`C21_readers_equivalent_full` states what is missing); the parsers themselves (pyparsing, lark) are tied by sampling: on "
                   "every generated text the real first reader is compared with `pddlRead`, the real second reader with `aiRead` "
                   "(exactly, effects in the converter's own order), and a dump of the real package's objects with `astOf`; the "
                   "property oracle compares the two real readers behaviourally."),
    "level_note": ("Trusted: `astOf` (the model of the external parser: ~250 lines, validated against the real package on every "
                   "run), the tokenizer and canonical forms of the harness, the Lean driver. The instantiation used in the semantic "
                   "theorems is the structural one; it coincides with the simulator's substitution on manager-built expressions "
                   "(not proved). Type checks of the expression manager and static effect-conflict checks are in neither model."),
    "technique": ("machine-checked simulation proof between two executable reader models (Lean 4) + differential correspondence of "
                  "each model with its real reader and of the parser model with the real parser's objects + behavioural oracle"),
    "design_ref": "DESIGN.md §5 C18/C19/C21",
}
